import Platypus.Model.Unquote
import Platypus.Spec.Denote
import Platypus.Proofs.LiteralNumber
import Platypus.Proofs.LiteralUnquote
/-!
# C07 — literals denote exactly the values they spell

`string_literal_denotes`: for every valid-UTF-8 spelling that starts with a quote character, the
implementation's path (lexer state machine, then `Unquote`/`UnquoteMultiline`) yields a string
(resp. back-quoted identifier) value `b` exactly when the declarative denotation `Denote.denote`
gives `b`; otherwise the spelling is not accepted as a single string literal.
`int_literal_exact`, `sign_negates`, `keywords_any_case`: numbers and keywords.

History of the statement (how two defects were found while proving it):
* `implString` first went through `classify`; that accepts a literal followed by blanks or a `#…`
  comment (`"a" `, `""#"`), which `Denote.denote` rejects.  It now requires the token to be the whole
  spelling (`implString_classify` links it back to `classify`).
* `unquoteMultiline` (and the Go `UnquoteMultiline`) tested `n == 6` before comparing the opening
  and closing quotes, so the 14 six-byte spellings `q q q a b c` with `a b c` quotes other than `q q q`
  (e.g. `"""'''`; the lexer closes a multi-line string on any three quote characters) were accepted
  as the empty string.  The test order was fixed in the model and upstream.

The proof is in `Platypus/Proofs/Literal{Utf8,Lex,Unquote}.lean`: the lexer's run on the spelling is
described by pure functions of the bytes (`Lit.firstTok`: `findB`, `closeIdx`, `lexStr`), and these
together with `unquote`/`unquoteMultiline` are compared with `Denote.denote`
(`Lit.implOf_eq_denote`; for one-line strings via a common decomposition into items, `Lit.Item`).
-/
namespace Platypus.C07
open Platypus Platypus.Lex Platypus.Unq

/-- valid UTF-8: every decoding step yields the very bytes it consumed (no replacement) -/
def validUtf8 : Nat → Bytes → Bool
  | 0, s => s.isEmpty
  | _, [] => true
  | f+1, s => match Utf8.decode s with
    | some (enc, w) => enc == s.take w && validUtf8 f (s.drop w)
    | none => true

def ValidUtf8 (s : Bytes) : Prop := validUtf8 (s.length + 1) s = true

def isQuoteChar (c : UInt8) : Bool := c == 34 || c == 39 || c == 96

/-- the value the implementation gives a string-shaped spelling, or none when it does not accept
    it as a single string literal / back-quoted identifier: the lexer must produce exactly one token
    followed by `EOF`, that token must be the whole spelling, and `Unquote`/`UnquoteMultiline` must
    accept it.

    (An earlier definition went through `classify`, which drops `COMMENT` items and lets the lexer
    skip blanks; it therefore also accepted a literal followed by a trailer of blanks or a `#…`
    comment, e.g. `"a" ` = `[34,97,34,32]` or `""#"` = `[34,34,35,34]`, for which `Denote.denote`
    — rightly, the closing quote is not the last byte — gives `none`.  The requirement `t.val = s`
    excludes such trailers; `implString_classify` below links the value back to `classify`.) -/
def implString (s : Bytes) : Option Bytes :=
  match lexAll s with
  | [t, e] =>
    if e.typ = .EOF ∧ t.val = s then
      match t.typ with
      | .STRING => if s.headD 0 != 96 then unquote t.val else none
      | .MULTILINE_STRING => unquoteMultiline t.val
      | .QUOTED_STRING => if s.headD 0 == 96 then unquote t.val else none
      | _ => none
    else none
  | _ => none

theorem valid_of_validUtf8 : ∀ (f : Nat) (s : Bytes), s.length < f → validUtf8 f s = true → Lit.Valid s
  | 0, _, h, _ => by omega
  | f+1, [], _, _ => Lit.Valid.nil
  | f+1, b0 :: rest, hlen, h => by
    simp only [validUtf8] at h
    cases hd : Utf8.decode (b0 :: rest) with
    | none => have := decode_cons_isSome b0 rest; simp [hd] at this
    | some ew =>
      obtain ⟨enc, w⟩ := ew
      rw [hd] at h
      simp only [Bool.and_eq_true, beq_iff_eq] at h
      have hw : 1 ≤ w := by
        rcases decode_cases b0 rest enc w hd with h | h | h | h <;> omega
      exact Lit.Valid.cons _ enc w (by simp) hd h.1
        (valid_of_validUtf8 f _ (by simp at hlen ⊢; omega) h.2)

/-- the implementation's value is determined by the first token the lexer scans -/
theorem implString_eq_implOf (s : Bytes) (hv : ValidUtf8 s) (hq : isQuoteChar (s.headD 0) = true) :
    implString s = Lit.implOf s := by
  cases s with
  | nil => simp [isQuoteChar] at hq
  | cons c0 r0 =>
    have hq' : c0 = 34 ∨ c0 = 39 ∨ c0 = 96 := by simpa [isQuoteChar, or_assoc] using hq
    have hval := valid_of_validUtf8 _ _ (Nat.lt_succ_self _) hv
    have hsh := Lit.lexAll_shape (c0 :: r0) hval c0 r0 rfl hq'
    unfold implString Lit.implOf
    cases hft : Lit.firstTok (c0 :: r0) with
    | none =>
      rw [hft] at hsh
      obtain ⟨it, _, hl⟩ := hsh
      simp [hl]
    | some tp =>
      obtain ⟨t, p⟩ := tp
      rw [hft] at hsh
      obtain ⟨hle, h1, h2⟩ := hsh
      simp only
      by_cases hp : p = (c0 :: r0).length
      · obtain ⟨e, he, hl⟩ := h1 hp
        rw [hl, if_pos hp]
        simp only [he, true_and, if_true]
        cases t <;> rfl
      · obtain ⟨rest, hl⟩ := h2 (by omega)
        rw [hl, if_neg hp]
        split
        · rename_i t' e' heq
          injection heq with h1' h2'
          subst h1'
          rw [if_neg]
          simp only [not_and]
          intro _ htake
          apply hp
          have := congrArg List.length htake
          simp at this hle ⊢
          omega
        · rfl

theorem string_literal_denotes (s : Bytes) (hv : ValidUtf8 s) (hq : isQuoteChar (s.headD 0) = true) :
    implString s = Denote.denote s := by
  rw [implString_eq_implOf s hv hq]
  cases s with
  | nil => simp [isQuoteChar] at hq
  | cons c0 r0 =>
    have hq' : c0 = 34 ∨ c0 = 39 ∨ c0 = 96 := by simpa [isQuoteChar, or_assoc] using hq
    exact Lit.implOf_eq_denote _ (valid_of_validUtf8 _ _ (Nat.lt_succ_self _) hv) c0 r0 rfl hq'

/-- canonical decimal spelling (no leading zeros) and hexadecimal spelling `0x…` of a natural number -/
def decSpelling (n : Nat) : Bytes := (Nat.toDigits 10 n).map fun c => c.toNat.toUInt8
def hexSpelling (n : Nat) : Bytes := [48, 120] ++ (Nat.toDigits 16 n).map fun c => c.toNat.toUInt8

/-- every canonical decimal or hexadecimal spelling of an integer up to the largest int64 is that integer -/
theorem int_literal_exact (n : Nat) (hn : n ≤ 9223372036854775807) :
    parseInt0 (decSpelling n) = some (n : Int) ∧ parseInt0 (hexSpelling n) = some (n : Int) := by
  refine ⟨?_, ?_⟩
  · exact (parseInt0_dec n).trans (if_pos hn)
  · exact (parseInt0_hex n).trans (if_pos hn)

/-- …and anything larger is not an integer literal (it goes to the float engine) -/
theorem int_literal_overflow (n : Nat) (hn : n > 9223372036854775807) :
    parseInt0 (decSpelling n) = none ∧ parseInt0 (hexSpelling n) = none := by
  refine ⟨?_, ?_⟩
  · exact (parseInt0_dec n).trans (if_neg (by omega))
  · exact (parseInt0_hex n).trans (if_neg (by omega))

/-- a leading sign negates the literal (sign folding of `newUnaryExpr`) -/
theorem sign_negates (text : Bytes) (n : Int) (h : parseInt0 text = some n) :
    number text true = .int (-n) ∧ number text false = .int n := by
  simp [number, h]

/-- keywords are recognised in any letter case -/
theorem keywords_any_case (w : Bytes) : keyword w = keyword (lowerAscii w) :=
  keyword_lower w

/-- the value `implString` gives is the one the parser's literal classification `classify` gives -/
theorem implString_classify (s b : Bytes) (h : implString s = some b) :
    classify s = .str b ∨ classify s = .ident b := by
  unfold implString at h
  split at h
  · rename_i t e hl
    split at h
    · rename_i hc
      obtain ⟨he, _⟩ := hc
      unfold classify
      simp only [hl]
      cases ht : t.typ <;> rw [ht] at h <;> simp only at h <;> try (cases h; done)
      · -- STRING
        split at h
        · simp [List.any, ht, he, List.filter, h]
        · cases h
      · -- QUOTED_STRING
        split at h
        · simp [List.any, ht, he, List.filter, h]
        · cases h
      · -- MULTILINE_STRING
        simp [List.any, ht, he, List.filter, h]
    · cases h
  · cases h

/-! ### non-vacuity -/

/-- `"a\n\x41é"` -/
example : implString [34, 97, 92, 110, 92, 120, 52, 49, 195, 169, 34] = some [97, 10, 65, 195, 169] := by decide
example : Denote.denote [34, 97, 92, 110, 92, 120, 52, 49, 195, 169, 34] = some [97, 10, 65, 195, 169] := by decide
/-- `'''x"y'''` -/
example : implString [39, 39, 39, 120, 34, 121, 39, 39, 39] = some [120, 34, 121] := by decide
/-- `` `k` `` -/
example : implString [96, 107, 96] = some [107] := by decide
/-- `"\u00e9\U0001F600\101"` -/
example : implString [34, 92, 117, 48, 48, 101, 57, 92, 85, 48, 48, 48, 49, 70, 54, 48, 48, 92, 49, 48, 49, 34] =
    some [195, 169, 240, 159, 152, 128, 65] := by decide
/-- rejected: `"\q"` (unknown escape), `"\ud800"` (surrogate), `"a" ` (trailing blank), `""#"` (trailing comment) -/
example : implString [34, 92, 113, 34] = none ∧ Denote.denote [34, 92, 113, 34] = none := by decide
example : implString [34, 92, 117, 100, 56, 48, 48, 34] = none := by decide
example : implString [34, 97, 34, 32] = none ∧ implString [34, 34, 35, 34] = none := by decide
/-- the six-byte spellings with a mismatched closer (`"""'''`) are rejected (they were accepted as the
    empty string while `unquoteMultiline` tested `n == 6` before comparing the ends) -/
example : implString [34, 34, 34, 39, 39, 39] = none ∧ Denote.denote [34, 34, 34, 39, 39, 39] = none := by decide
example : ValidUtf8 [34, 97, 92, 110, 92, 120, 52, 49, 195, 169, 34] := by unfold ValidUtf8; decide

end Platypus.C07
