import Platypus.Model.Unquote
import Platypus.Spec.Denote
import Platypus.Proofs.LiteralNumber
import Platypus.Proofs.LiteralUnquote
/-!
# C07 — literals denote exactly the values they spell

`string_literal_denotes`: for every valid-UTF-8 spelling that starts with a quote character, the
implementation's path (lexer state machine, then `Unquote`/`UnquoteMultiline`) yields a string
(resp. back-quoted identifier) value `b` exactly when the declarative denotation `Denote.denote`
gives `b`; otherwise the spelling is not accepted as a single string literal.
`int_literal_exact`, `sign_negates`, `keywords_any_case`: numbers and keywords.

History of the statement (how two defects were found while proving it):
* `implString` first went through `classify`; that accepts a literal followed by blanks or a `#…`
  comment (`"a" `, `""#"`), which `Denote.denote` rejects.  It now requires the token to be the whole
  spelling (`implString_classify` links it back to `classify`).
* `unquoteMultiline` (and the Go `UnquoteMultiline`) tested `n == 6` before comparing the opening
  and closing quotes, so the 14 six-byte spellings `q q q a b c` with `a b c` quotes other than `q q q`
  (e.g. `"""'''`; the lexer then closed a multi-line string on any three quote characters) were accepted
  as the empty string.  The test order was fixed in the model and upstream.

* the lexer ended a triple-quoted string at the first run of ANY three quote characters (each `"` or
  `'`, mixed allowed), so `"""a'''b"""` was cut short and then rejected by `UnquoteMultiline`.  Fixed
  upstream: `lexStatements` records the opening quote in `stringOpen`, `lexMultilineString` ends the
  string only at three consecutive quotes equal to it; the model, `Denote.denote` (the body contains
  no three consecutive quotes of the literal's OWN kind and does not end in one) and the proofs follow
  (`triple_quoted_denotes`, `other_quotes_are_text` and the examples at the end).

The proof is in `Platypus/Proofs/Literal{Utf8,Lex,Unquote}.lean`: the lexer's run on the spelling is
described by pure functions of the bytes (`Lit.firstTok`: `findB`, `closeIdx`, `lexStr`), and these
together with `unquote`/`unquoteMultiline` are compared with `Denote.denote`
(`Lit.implOf_eq_denote`; for one-line strings via a common decomposition into items, `Lit.Item`).
-/
namespace Platypus.C07
open Platypus Platypus.Lex Platypus.Unq

/-- valid UTF-8: every decoding step yields the very bytes it consumed (no replacement) -/
def validUtf8 : Nat → Bytes → Bool
  | 0, s => s.isEmpty
  | _, [] => true
  | f+1, s => match Utf8.decode s with
    | some (enc, w) => enc == s.take w && validUtf8 f (s.drop w)
    | none => true

def ValidUtf8 (s : Bytes) : Prop := validUtf8 (s.length + 1) s = true

def isQuoteChar (c : UInt8) : Bool := c == 34 || c == 39 || c == 96

/-- the value the implementation gives a string-shaped spelling, or none when it does not accept
    it as a single string literal / back-quoted identifier: the lexer must produce exactly one token
    followed by `EOF`, that token must be the whole spelling, and `Unquote`/`UnquoteMultiline` must
    accept it.

    (An earlier definition went through `classify`, which drops `COMMENT` items and lets the lexer
    skip blanks; it therefore also accepted a literal followed by a trailer of blanks or a `#…`
    comment, e.g. `"a" ` = `[34,97,34,32]` or `""#"` = `[34,34,35,34]`, for which `Denote.denote`
    — rightly, the closing quote is not the last byte — gives `none`.  The requirement `t.val = s`
    excludes such trailers; `implString_classify` below links the value back to `classify`.) -/
def implString (s : Bytes) : Option Bytes :=
  match lexAll s with
  | [t, e] =>
    if e.typ = .EOF ∧ t.val = s then
      match t.typ with
      | .STRING => if s.headD 0 != 96 then unquote t.val else none
      | .MULTILINE_STRING => unquoteMultiline t.val
      | .QUOTED_STRING => if s.headD 0 == 96 then unquote t.val else none
      | _ => none
    else none
  | _ => none

theorem valid_of_validUtf8 : ∀ (f : Nat) (s : Bytes), s.length < f → validUtf8 f s = true → Lit.Valid s
  | 0, _, h, _ => by omega
  | f+1, [], _, _ => Lit.Valid.nil
  | f+1, b0 :: rest, hlen, h => by
    simp only [validUtf8] at h
    cases hd : Utf8.decode (b0 :: rest) with
    | none => have := decode_cons_isSome b0 rest; simp [hd] at this
    | some ew =>
      obtain ⟨enc, w⟩ := ew
      rw [hd] at h
      simp only [Bool.and_eq_true, beq_iff_eq] at h
      have hw : 1 ≤ w := by
        rcases decode_cases b0 rest enc w hd with h | h | h | h <;> omega
      exact Lit.Valid.cons _ enc w (by simp) hd h.1
        (valid_of_validUtf8 f _ (by simp at hlen ⊢; omega) h.2)

/-- the implementation's value is determined by the first token the lexer scans -/
theorem implString_eq_implOf (s : Bytes) (hv : ValidUtf8 s) (hq : isQuoteChar (s.headD 0) = true) :
    implString s = Lit.implOf s := by
  cases s with
  | nil => simp [isQuoteChar] at hq
  | cons c0 r0 =>
    have hq' : c0 = 34 ∨ c0 = 39 ∨ c0 = 96 := by simpa [isQuoteChar, or_assoc] using hq
    have hval := valid_of_validUtf8 _ _ (Nat.lt_succ_self _) hv
    have hsh := Lit.lexAll_shape (c0 :: r0) hval c0 r0 rfl hq'
    unfold implString Lit.implOf
    cases hft : Lit.firstTok (c0 :: r0) with
    | none =>
      rw [hft] at hsh
      obtain ⟨it, _, hl⟩ := hsh
      simp [hl]
    | some tp =>
      obtain ⟨t, p⟩ := tp
      rw [hft] at hsh
      obtain ⟨hle, h1, h2⟩ := hsh
      simp only
      by_cases hp : p = (c0 :: r0).length
      · obtain ⟨e, he, hl⟩ := h1 hp
        rw [hl, if_pos hp]
        simp only [he, true_and, if_true]
        cases t <;> rfl
      · obtain ⟨rest, hl⟩ := h2 (by omega)
        rw [hl, if_neg hp]
        split
        · rename_i t' e' heq
          injection heq with h1' h2'
          subst h1'
          rw [if_neg]
          simp only [not_and]
          intro _ htake
          apply hp
          have := congrArg List.length htake
          simp at this hle ⊢
          omega
        · rfl

theorem string_literal_denotes (s : Bytes) (hv : ValidUtf8 s) (hq : isQuoteChar (s.headD 0) = true) :
    implString s = Denote.denote s := by
  rw [implString_eq_implOf s hv hq]
  cases s with
  | nil => simp [isQuoteChar] at hq
  | cons c0 r0 =>
    have hq' : c0 = 34 ∨ c0 = 39 ∨ c0 = 96 := by simpa [isQuoteChar, or_assoc] using hq
    exact Lit.implOf_eq_denote _ (valid_of_validUtf8 _ _ (Nat.lt_succ_self _) hv) c0 r0 rfl hq'

/-- triple-quoted literals: `qqq b qqq` is one literal, denoting its raw body `b`, exactly when `b` does
    not contain three consecutive `q` and does not end in `q` (i.e. the first `qqq` after the opening
    delimiter is the closing one); otherwise the spelling is not accepted as a single literal -/
theorem triple_quoted_denotes (q : UInt8) (hq : q = 34 ∨ q = 39) (b : Bytes)
    (hv : ValidUtf8 (q :: q :: q :: (b ++ [q, q, q]))) :
    implString (q :: q :: q :: (b ++ [q, q, q])) =
      if Denote.hasTriple q b || b.getLast? == some q then none else some b := by
  rw [string_literal_denotes _ hv (by rcases hq with rfl | rfl <;> rfl), Lit.denote_triple q hq b q q q]
  simp only [and_self, if_true, Lit.endsQ]
  cases Denote.hasTriple q b <;> simp

/-- the condition of `Denote.denote` on the body `b` of `qqq b qqq`, said with occurrences: the text after
    the opening delimiter is `b ++ [q, q, q]`; it has no `qqq` before the one at the very end
    (no `qqq` in it once the last byte is dropped) iff `b` has no `qqq` and does not end in `q` -/
theorem first_close_at_end (q : UInt8) : ∀ (b : Bytes),
    Denote.hasTriple q (b ++ [q, q]) = false ↔ (Denote.hasTriple q b = false ∧ (b.getLast? == some q) = false)
  | [] => by simp [Denote.hasTriple]
  | [a] => by simp [Denote.hasTriple]
  | [a, b1] => by
    simp only [List.cons_append, List.nil_append, Denote.hasTriple]
    cases h1 : (b1 == q) <;> cases h2 : (a == q) <;> simp_all
  | a :: b1 :: b2 :: b3 => by
    have ih := first_close_at_end q (b1 :: b2 :: b3)
    have hl : (a :: b1 :: b2 :: b3).getLast? = (b1 :: b2 :: b3).getLast? := by simp [List.getLast?_cons_cons]
    rw [hl, List.cons_append, Lit.hasTriple_cons, Lit.hasTriple_cons q a (b1 :: b2 :: b3),
      Bool.or_eq_false_iff, Bool.or_eq_false_iff, ih]
    have ht : Lit.tripleHead q (a :: ((b1 :: b2 :: b3) ++ [q, q])) = Lit.tripleHead q (a :: b1 :: b2 :: b3) := by
      cases b3 <;> rfl
    rw [ht, and_assoc]

theorem hasTriple_of_not_mem (q : UInt8) : ∀ (b : Bytes), q ∉ b → Denote.hasTriple q b = false
  | [], _ => rfl
  | a :: r, h => by
    have ha : (a == q) = false := by
      simp only [List.mem_cons, not_or] at h
      simpa using Ne.symm h.1
    rw [Lit.hasTriple_cons, Lit.tripleHead_of_not q a r ha,
      hasTriple_of_not_mem q r (fun hm => h (List.mem_cons_of_mem _ hm))]
    rfl

/-- in particular a body without the literal's own quote character — whatever else it contains:
    quotes of the other kind (also three or more in a row), backslashes, newlines — is taken as is -/
theorem other_quotes_are_text (q : UInt8) (hq : q = 34 ∨ q = 39) (b : Bytes) (hb : q ∉ b)
    (hv : ValidUtf8 (q :: q :: q :: (b ++ [q, q, q]))) :
    implString (q :: q :: q :: (b ++ [q, q, q])) = some b := by
  rw [triple_quoted_denotes q hq b hv, hasTriple_of_not_mem q b hb]
  have : (b.getLast? == some q) = false := by
    cases hl : b.getLast? with
    | none => rfl
    | some c =>
      have hc : c ∈ b := List.mem_of_getLast? hl
      have : c ≠ q := fun h => hb (h ▸ hc)
      simpa using this
  rw [this]; rfl

/-- canonical decimal spelling (no leading zeros) and hexadecimal spelling `0x…` of a natural number -/
def decSpelling (n : Nat) : Bytes := (Nat.toDigits 10 n).map fun c => c.toNat.toUInt8
def hexSpelling (n : Nat) : Bytes := [48, 120] ++ (Nat.toDigits 16 n).map fun c => c.toNat.toUInt8

/-- every canonical decimal or hexadecimal spelling of an integer up to the largest int64 is that integer -/
theorem int_literal_exact (n : Nat) (hn : n ≤ 9223372036854775807) :
    parseInt0 (decSpelling n) = some (n : Int) ∧ parseInt0 (hexSpelling n) = some (n : Int) := by
  refine ⟨?_, ?_⟩
  · exact (parseInt0_dec n).trans (if_pos hn)
  · exact (parseInt0_hex n).trans (if_pos hn)

/-- …and anything larger is not an integer literal (it goes to the float engine) -/
theorem int_literal_overflow (n : Nat) (hn : n > 9223372036854775807) :
    parseInt0 (decSpelling n) = none ∧ parseInt0 (hexSpelling n) = none := by
  refine ⟨?_, ?_⟩
  · exact (parseInt0_dec n).trans (if_neg (by omega))
  · exact (parseInt0_hex n).trans (if_neg (by omega))

/-- a leading sign negates the literal (sign folding of `newUnaryExpr`) -/
theorem sign_negates (text : Bytes) (n : Int) (h : parseInt0 text = some n) :
    number text true = .int (-n) ∧ number text false = .int n := by
  simp [number, h]

/-- keywords are recognised in any letter case -/
theorem keywords_any_case (w : Bytes) : keyword w = keyword (lowerAscii w) :=
  keyword_lower w

/-- the value `implString` gives is the one the parser's literal classification `classify` gives -/
theorem implString_classify (s b : Bytes) (h : implString s = some b) :
    classify s = .str b ∨ classify s = .ident b := by
  unfold implString at h
  split at h
  · rename_i t e hl
    split at h
    · rename_i hc
      obtain ⟨he, _⟩ := hc
      unfold classify
      simp only [hl]
      cases ht : t.typ <;> rw [ht] at h <;> simp only at h <;> try (cases h; done)
      · -- STRING
        split at h
        · simp [List.any, ht, he, List.filter, h]
        · cases h
      · -- QUOTED_STRING
        split at h
        · simp [List.any, ht, he, List.filter, h]
        · cases h
      · -- MULTILINE_STRING
        simp [List.any, ht, he, List.filter, h]
    · cases h
  · cases h

/-! ### non-vacuity -/

/-- `"a\n\x41é"` -/
example : implString [34, 97, 92, 110, 92, 120, 52, 49, 195, 169, 34] = some [97, 10, 65, 195, 169] := by decide
example : Denote.denote [34, 97, 92, 110, 92, 120, 52, 49, 195, 169, 34] = some [97, 10, 65, 195, 169] := by decide
/-- `'''x"y'''` -/
example : implString [39, 39, 39, 120, 34, 121, 39, 39, 39] = some [120, 34, 121] := by decide
/-- `` `k` `` -/
example : implString [96, 107, 96] = some [107] := by decide
/-- `"\u00e9\U0001F600\101"` -/
example : implString [34, 92, 117, 48, 48, 101, 57, 92, 85, 48, 48, 48, 49, 70, 54, 48, 48, 92, 49, 48, 49, 34] =
    some [195, 169, 240, 159, 152, 128, 65] := by decide
/-- rejected: `"\q"` (unknown escape), `"\ud800"` (surrogate), `"a" ` (trailing blank), `""#"` (trailing comment) -/
example : implString [34, 92, 113, 34] = none ∧ Denote.denote [34, 92, 113, 34] = none := by decide
example : implString [34, 92, 117, 100, 56, 48, 48, 34] = none := by decide
example : implString [34, 97, 34, 32] = none ∧ implString [34, 34, 35, 34] = none := by decide
/-- the six-byte spellings with a mismatched closer (`"""'''`) are rejected (they were accepted as the
    empty string while `unquoteMultiline` tested `n == 6` before comparing the ends) -/
example : implString [34, 34, 34, 39, 39, 39] = none ∧ Denote.denote [34, 34, 34, 39, 39, 39] = none := by decide
example : ValidUtf8 [34, 97, 92, 110, 92, 120, 52, 49, 195, 169, 34] := by unfold ValidUtf8; decide

/-! ### triple-quoted strings end at three quotes of the kind they opened with -/

/-- `"""a'''b"""` is one MULTILINE_STRING item and denotes `a'''b` (the lexer used to stop at the `'''`) -/
example : lexAll [34, 34, 34, 97, 39, 39, 39, 98, 34, 34, 34] =
    [⟨.MULTILINE_STRING, 0, [34, 34, 34, 97, 39, 39, 39, 98, 34, 34, 34]⟩, ⟨.EOF, 11, []⟩] := by decide
example : implString [34, 34, 34, 97, 39, 39, 39, 98, 34, 34, 34] = some [97, 39, 39, 39, 98] ∧
    Denote.denote [34, 34, 34, 97, 39, 39, 39, 98, 34, 34, 34] = some [97, 39, 39, 39, 98] := by decide
/-- `'''a"""b'''` likewise denotes `a"""b` -/
example : lexAll [39, 39, 39, 97, 34, 34, 34, 98, 39, 39, 39] =
    [⟨.MULTILINE_STRING, 0, [39, 39, 39, 97, 34, 34, 34, 98, 39, 39, 39]⟩, ⟨.EOF, 11, []⟩] := by decide
example : implString [39, 39, 39, 97, 34, 34, 34, 98, 39, 39, 39] = some [97, 34, 34, 34, 98] ∧
    Denote.denote [39, 39, 39, 97, 34, 34, 34, 98, 39, 39, 39] = some [97, 34, 34, 34, 98] := by decide
/-- a mixed run: `"""a"'"b"""` denotes `a"'"b` -/
example : implString [34, 34, 34, 97, 34, 39, 34, 98, 34, 34, 34] = some [97, 34, 39, 34, 98] ∧
    Denote.denote [34, 34, 34, 97, 34, 39, 34, 98, 34, 34, 34] = some [97, 34, 39, 34, 98] := by decide
/-- `"""a"""b"""` is NOT one literal: the string ends at the first `"""` (item `"""a"""`), then the name `b`,
    then an unterminated `"""` -/
example : (lexAll [34, 34, 34, 97, 34, 34, 34, 98, 34, 34, 34]).head? =
      some ⟨.MULTILINE_STRING, 0, [34, 34, 34, 97, 34, 34, 34]⟩ ∧
    (lexAll [34, 34, 34, 97, 34, 34, 34, 98, 34, 34, 34]).map (·.typ) = [.MULTILINE_STRING, .ID, .ERROR] := by decide
example : implString [34, 34, 34, 97, 34, 34, 34, 98, 34, 34, 34] = none ∧
    Denote.denote [34, 34, 34, 97, 34, 34, 34, 98, 34, 34, 34] = none := by decide
/-- one or two quotes of the literal's kind may begin the body (`""""a"""` is `"a`, `"""""a"""` is `""a`), but
    not end it: `"""a""""` is the item `"""a"""` followed by an unterminated `"` -/
example : implString [34, 34, 34, 34, 97, 34, 34, 34] = some [34, 97] ∧
    Denote.denote [34, 34, 34, 34, 97, 34, 34, 34] = some [34, 97] := by decide
example : implString [34, 34, 34, 34, 34, 97, 34, 34, 34] = some [34, 34, 97] ∧
    Denote.denote [34, 34, 34, 34, 34, 97, 34, 34, 34] = some [34, 34, 97] := by decide
example : (lexAll [34, 34, 34, 97, 34, 34, 34, 34]).head? = some ⟨.MULTILINE_STRING, 0, [34, 34, 34, 97, 34, 34, 34]⟩ ∧
    implString [34, 34, 34, 97, 34, 34, 34, 34] = none ∧ Denote.denote [34, 34, 34, 97, 34, 34, 34, 34] = none := by decide
/-- three quotes of the other kind do not close: `"""a'''` is unterminated -/
example : (lexAll [34, 34, 34, 97, 39, 39, 39]).map (·.typ) = [.ERROR] ∧
    Denote.denote [34, 34, 34, 97, 39, 39, 39] = none := by decide
/-- instances of the general theorems -/
example : implString [34, 34, 34, 97, 39, 39, 39, 98, 34, 34, 34] = some [97, 39, 39, 39, 98] :=
  other_quotes_are_text 34 (Or.inl rfl) [97, 39, 39, 39, 98] (by decide) (by unfold ValidUtf8; decide)

end Platypus.C07
