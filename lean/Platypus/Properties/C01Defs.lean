import Platypus.Model.Eval
/-!
Definitions for the int64 side condition of C01: the model's `Val.int` and `Node.intLit` carry
unbounded integers, Go's carry int64.  Only the lower bound matters for C01 (and only the lower
bound is an invariant of the model: `len` of a sequence of 2^63 elements is above the range).
-/
namespace Platypus.C01
open Platypus

/-- an integer value is not below the int64 range -/
def valLo : Val → Prop
  | .int i => minI64 ≤ i
  | _ => True

def objLo : Obj → Prop
  | .list xs => ∀ x ∈ xs, valLo x
  | .map kvs => ∀ kv ∈ kvs, valLo kv.2

def HeapLo (h : Heap) : Prop := ∀ o ∈ h, objLo o

mutual
/-- every integer literal of a tree, at any depth and in any position (same traversal as `C08.allCalls`) -/
def allIntLits : Nat → Node → List Int
  | 0, _ => []
  | f+1, n => match n with
    | .intLit v _ => [v]
    | .list xs _ _ => allIntLitsL f xs
    | .map kvs _ _ => allIntLitsKV f kvs
    | .paren e _ _ => allIntLits f e
    | .attr o a _ => allIntLitsO f o ++ allIntLitsO f a
    | .index _ idx _ _ => allIntLitsL f idx
    | .unary _ e _ => allIntLits f e
    | .arith _ l r _ => allIntLits f l ++ allIntLits f r
    | .cond _ l r _ => allIntLits f l ++ allIntLits f r
    | .inE l r _ => allIntLits f l ++ allIntLits f r
    | .assign _ lhs rhs _ => allIntLitsL f lhs ++ allIntLitsL f rhs
    | .call _ args _ _ _ _ => allIntLitsL f args
    | .slice o a b c _ _ _ => allIntLits f o ++ allIntLitsO f a ++ allIntLitsO f b ++ allIntLitsO f c
    | .ifelse ifs els _ => allIntLitsIfs f ifs ++ allIntLitsOB f els
    | .forS a b c body _ => allIntLitsO f a ++ allIntLitsO f b ++ allIntLitsO f c ++ allIntLitsOB f body
    | .forIn v it body _ _ => allIntLits f v ++ allIntLits f it ++ allIntLitsOB f body
    | _ => []
def allIntLitsL : Nat → List Node → List Int
  | 0, _ => []
  | _, [] => []
  | f+1, n :: r => allIntLits f n ++ allIntLitsL f r
def allIntLitsO : Nat → Option Node → List Int
  | 0, _ => []
  | _, none => []
  | f+1, some n => allIntLits f n
def allIntLitsOB : Nat → Option (List Node) → List Int
  | 0, _ => []
  | _, none => []
  | f+1, some b => allIntLitsL f b
def allIntLitsKV : Nat → List (Node × Node) → List Int
  | 0, _ => []
  | _, [] => []
  | f+1, (k, v) :: r => allIntLits f k ++ allIntLits f v ++ allIntLitsKV f r
def allIntLitsIfs : Nat → List (Node × Option (List Node) × Pos) → List Int
  | 0, _ => []
  | _, [] => []
  | f+1, (c, b, _) :: r => allIntLits f c ++ allIntLitsOB f b ++ allIntLitsIfs f r
end

/-- an engine answer that is read back as a value (`cast`, `load_json`, `grok`) contains no integer
    below the int64 range: whatever heap it is parsed into, the value and the objects it allocates
    are `valLo` -/
def AnsLo (a : Bytes) : Prop :=
  ∀ n h v h' rest, unrender n h (unhex (splitAnswer a).2) = some (v, h', rest) →
    valLo v ∧ (HeapLo h → HeapLo h')

end Platypus.C01
