import Platypus.Proofs.V2Stmt
import Platypus.Proofs.V2Defined
import Platypus.Properties.C18
/-!
# C18 — on the shared language the v2 interpreter agrees with the reference semantics (v1)

The two interpreter models (`evalNode`/`runStmts` of `Model/Eval.lean` + `Model/Machine.lean` for
v1, `runExpr`/`valueOf`/`stmts2` of `Model/EvalV2.lean` for v2) are compared on

* `SharedE` — the shared expression language: literals, identifiers other than `_`, parentheses,
  unary/arithmetic/comparison/logical operators (with the short-circuit `&&`/`||`), `in`, list and
  map literals, index expressions `x[i][j]…` on a variable, slices `obj[a:b:c]` (any shared bounds,
  variables included), and calls of the probe `pr(x, …)`;
* `Simple` — expression statements, `x = e`, `x op= e`, `x[i]… = e`, calls of the probes `p`, `pr`, `void`;
* `SharedS` — simple statements, `if/elif/else`, three-clause `for`, `for x in e`, `break`, `continue`

(definitions in `Proofs/V2Defs.lean`), from corresponding states `Rel pt s1 s2`: same task name,
scopes, flags, heap, poll count, map-iteration count and trace; v1's registers empty, v2's
arbitrary; v1's point `pt` has no readable key (`NoKeys pt`; v2 has no point).  The variables hold
well-tagged values (`ScopesOK s2`: every variable's value satisfies `TagNil`, "nil-valued iff tagged
nil or invalid"): v1 decides "slice bound omitted" by the value, v2 by the tag.  The invariant holds
in the initial state of a script and is kept by every shared statement (`stmts_keep_tagging`); it
fails only for a variable holding a void value, which v2 never stores (`void_bound_needs_tagging`).

`Agree pt r1 r2` says: both results are of the same kind, with the same value, the same error
(position chain *and* class) and corresponding final states — unless one of the two runs ran out
of fuel (the evaluators consume fuel differently: the statement is for every pair of fuels), or v2
stopped with its "name-not-defined" error (documented difference 1: `undefined_name_difference`).
`AgreeF pt BL BR r1 r2` adds the fuel accounting: when v2's fuel is at least `3 * f1 + 2` (scripts;
`2 * f1 + 1` for expressions) v2 runs out of fuel only if v1 does, and when v1's fuel is at least
`f2 + 3` v1 runs out of fuel only if v2 does (or v2 stopped at an undefined name): the
`*_enough_fuel` theorems.  So a shared script terminates in one interpreter iff it does in the other.

Main theorems: `expr_agreeF`/`expr_agree`/`expr_agree_enough_fuel`/`expr_agree_defined`/
`expr_agree_registers`, `stmts_agreeF`/`stmts_agree`/`stmt_agree`, `script_agreeF`/`script_agree`/
`script_agree_enough_fuel`; the documented differences `undefined_name_difference`,
`multi_assign_difference`; concrete programs run in both models (`prog1_same` …, `slice_nil_bound_agree`,
`slice_variable_bounds_agree`) and the
differences found outside the shared language (`compound_index_assign_difference`, `underscore_difference`, `void_value_difference`, …).

Everything is proved for all fuels of both sides by induction on the v1 fuel
(`Proofs/V2Expr.lean`, `Proofs/V2Stmt.lean`) with a small relational Hoare logic (`Proofs/V2Base.lean`);
`Proofs/V2Defined.lean` is the one-sided fact behind `expr_agree_defined`.
-/
namespace Platypus.C18
open Platypus Platypus.V2 Platypus.MachineProofs Platypus.V2Agree

export Platypus.V2Agree (SharedE Simple SharedS SharedL Rel NoKeys PrRegistered underscore isProbe DefinedE TagNil ScopesOK)

/-- same kind of result, equal values, equal errors, corresponding final states -/
def SameRes {α} (pt : Point) : Res α → Res α → Prop
  | .ok a s1, .ok b s2 => a = b ∧ Rel pt s1 s2
  | .err e1 s1, .err e2 s2 => e1 = e2 ∧ Rel pt s1 s2
  | .panic m1, .panic m2 => m1 = m2
  | .need q1, .need q2 => q1 = q2
  | _, _ => False

/-- v2 stopped with an undefined-name error -/
def UndefinedName {α} (r2 : Res α) : Prop := ∃ e s, r2 = .err e s ∧ e.msg = "name-not-defined"

/-- agreement of a v1 result and a v2 result -/
def Agree {α} (pt : Point) (r1 r2 : Res α) : Prop :=
  r1 = .fuel ∨ r2 = .fuel ∨ UndefinedName r2 ∨ SameRes pt r1 r2

/-! reading `Agree` on the possible pairs of outcomes -/
theorem Agree.ok_ok {α} {pt : Point} {a b : α} {s1 s2 : St} (h : Agree pt (.ok a s1) (.ok b s2)) :
    a = b ∧ Rel pt s1 s2 := by
  rcases h with h | h | ⟨_, _, h, _⟩ | h
  · cases h
  · cases h
  · cases h
  · exact h

/-- v1 fails and v2 succeeds: impossible -/
theorem Agree.err_ok {α} {pt : Point} {e : PlErr} {b : α} {s1 s2 : St} (h : Agree pt (.err e s1) (.ok b s2)) :
    False := by
  rcases h with h | h | ⟨_, _, h, _⟩ | h
  · cases h
  · cases h
  · cases h
  · exact h

/-- v1 succeeds and v2 fails: only with v2's undefined-name error -/
theorem Agree.ok_err {α} {pt : Point} {a : α} {e : PlErr} {s1 s2 : St} (h : Agree pt (.ok a s1) (.err e s2)) :
    e.msg = "name-not-defined" := by
  rcases h with h | h | ⟨_, _, h, hm⟩ | h
  · cases h
  · cases h
  · cases h; exact hm
  · exact h.elim

/-- both fail: with the same error (position chain and class) in corresponding states, unless v2's
    error is the undefined-name error -/
theorem Agree.err_err {α} {pt : Point} {e1 e2 : PlErr} {s1 s2 : St}
    (h : Agree pt (.err e1 s1 : Res α) (.err e2 s2)) :
    e2.msg = "name-not-defined" ∨ (e1 = e2 ∧ Rel pt s1 s2) := by
  rcases h with h | h | ⟨_, _, h, hm⟩ | h
  · cases h
  · cases h
  · cases h; exact .inl hm
  · exact .inr h

/-- a v2 panic is a v1 panic with the same message (or v1 ran out of fuel) -/
theorem Agree.of_panic {α} {pt : Point} {r1 : Res α} {m : String} (h : Agree pt r1 (.panic m)) :
    r1 = .fuel ∨ r1 = .panic m := by
  rcases h with h | h | ⟨_, _, h, _⟩ | h
  · exact .inl h
  · cases h
  · cases h
  · cases r1 <;> simp_all [SameRes]

/-- agreement with fuel accounting: `BL` = "v1's fuel suffices, given v2's", `BR` = "v2's fuel suffices,
    given v1's".  With enough fuel on its side, an interpreter runs out of fuel only if the other does
    (or, for v1, if v2 stopped earlier with its undefined-name error). -/
structure AgreeF {α} (pt : Point) (BL BR : Prop) (r1 r2 : Res α) : Prop where
  agree : Agree pt r1 r2
  fuel2 : BR → r2 = .fuel → r1 = .fuel
  fuel1 : BL → r1 = .fuel → r2 = .fuel ∨ UndefinedName r2

theorem agreeF_of_sim {α} {pt : Point} {BL BR : Prop} {R : α → α → St → Prop} {r1 r2 : Res α}
    (h : Sim pt BL BR (fun a b s' => R a b s' ∧ ScopesOK s') r1 r2) (hR : ∀ a b s, R a b s → a = b) :
    AgreeF pt BL BR r1 r2 := by
  cases h with
  | ok h => exact ⟨.inr (.inr (.inr ⟨hR _ _ _ h.1, (rel_iff _ _ _).2 rfl⟩)), (fun _ h => nomatch h), (fun _ h => nomatch h)⟩
  | err => exact ⟨.inr (.inr (.inr ⟨rfl, (rel_iff _ _ _).2 rfl⟩)), (fun _ h => nomatch h), (fun _ h => nomatch h)⟩
  | panic => exact ⟨.inr (.inr (.inr rfl)), (fun _ h => nomatch h), (fun _ h => nomatch h)⟩
  | need => exact ⟨.inr (.inr (.inr rfl)), (fun _ h => nomatch h), (fun _ h => nomatch h)⟩
  | fuelL hb => exact ⟨.inl rfl, fun _ _ => rfl, fun b _ => absurd b hb⟩
  | fuelR hb => exact ⟨.inr (.inl rfl), fun b _ => absurd b hb, fun _ _ => .inl rfl⟩
  | fuelB => exact ⟨.inl rfl, fun _ _ => rfl, fun _ _ => .inl rfl⟩
  | undef h => exact ⟨.inr (.inr (.inl ⟨_, _, rfl, h⟩)), (fun _ h' => nomatch h'), (fun _ _ => .inr ⟨_, _, rfl, h⟩)⟩

/-- with enough fuel for v2: if v1 terminated, so did v2, and they agree -/
theorem AgreeF.of_v1 {α} {pt : Point} {BL BR : Prop} {r1 r2 : Res α} (h : AgreeF pt BL BR r1 r2) (hb : BR)
    (h1 : r1 ≠ .fuel) : r2 ≠ .fuel ∧ (UndefinedName r2 ∨ SameRes pt r1 r2) := by
  have h2 : r2 ≠ .fuel := fun e => h1 (h.fuel2 hb e)
  rcases h.agree with e | e | e | e
  · exact absurd e h1
  · exact absurd e h2
  · exact ⟨h2, .inl e⟩
  · exact ⟨h2, .inr e⟩

/-- with enough fuel for v1: if v2 terminated, then v1 did and they agree, or v2 reported an undefined name -/
theorem AgreeF.of_v2 {α} {pt : Point} {BL BR : Prop} {r1 r2 : Res α} (h : AgreeF pt BL BR r1 r2) (hb : BL)
    (h2 : r2 ≠ .fuel) : UndefinedName r2 ∨ (r1 ≠ .fuel ∧ SameRes pt r1 r2) := by
  by_cases h1 : r1 = .fuel
  · rcases h.fuel1 hb h1 with e | e
    · exact absurd e h2
    · exact .inl e
  · rcases h.agree with e | e | e | e
    · exact absurd e h1
    · exact absurd e h2
    · exact .inl e
    · exact .inr ⟨h1, e⟩

section
variable (env : Env) (pt : Point)

/-! ## expressions -/

/-- **Expression agreement, with fuel accounting.**  For a shared expression, from corresponding
    states, for every pair of fuels: the v1 evaluator and v2's `valueOf` (= `RunExpr` then `GetRet`)
    return the same value in corresponding states, or fail with the same error in corresponding
    states — or one of them ran out of fuel, or v2 reported an undefined name.  v2 needs at most
    `2 * f1 + 1` units where v1 needs `f1`; v1 needs at most `f2 + 2` where v2 needs `f2`.
    `Rel` of the final states contains the heap (allocation order of list/map literals and slices),
    the trace (probe calls) and the scopes. -/
theorem expr_agreeF (hpt : NoKeys pt) (hpr : PrRegistered env) (f1 f2 : Nat) (e : Node) (s1 s2 : St)
    (he : SharedE e) (hrel : Rel pt s1 s2) (hsc : ScopesOK s2) :
    AgreeF pt (f1 ≥ f2 + 2) (f2 ≥ 2 * f1 + 1) (evalNode env f1 e s1) (valueOf env f2 e s2) := by
  rw [(rel_iff _ _ _).1 hrel]
  exact agreeF_of_sim (value_sim (ih_all hpt hpr f1) f2 e s2 he hsc) (fun _ _ _ h => h.1)

/-- **Expression agreement** (all fuels) -/
theorem expr_agree (hpt : NoKeys pt) (hpr : PrRegistered env) (f1 f2 : Nat) (e : Node) (s1 s2 : St)
    (he : SharedE e) (hrel : Rel pt s1 s2) (hsc : ScopesOK s2) :
    Agree pt (evalNode env f1 e s1) (valueOf env f2 e s2) :=
  (expr_agreeF env pt hpt hpr f1 f2 e s1 s2 he hrel hsc).agree

/-- **Expression agreement, enough fuel**: if v1 evaluates `e` within fuel `f1`, then v2 evaluates it
    within any fuel `≥ 2 * f1 + 1`, to the same value / error in corresponding states (or reports an
    undefined name) -/
theorem expr_agree_enough_fuel (hpt : NoKeys pt) (hpr : PrRegistered env) (f1 f2 : Nat) (e : Node) (s1 s2 : St)
    (he : SharedE e) (hrel : Rel pt s1 s2) (hsc : ScopesOK s2) (h1 : evalNode env f1 e s1 ≠ .fuel)
    (hf : f2 ≥ 2 * f1 + 1) :
    valueOf env f2 e s2 ≠ .fuel ∧
      (UndefinedName (valueOf env f2 e s2) ∨ SameRes pt (evalNode env f1 e s1) (valueOf env f2 e s2)) :=
  (expr_agreeF env pt hpt hpr f1 f2 e s1 s2 he hrel hsc).of_v1 hf h1

/-- …and conversely: if v2 evaluates `e` within fuel `f2`, v1 does within any fuel `≥ f2 + 2` -/
theorem expr_agree_enough_fuel' (hpt : NoKeys pt) (hpr : PrRegistered env) (f1 f2 : Nat) (e : Node) (s1 s2 : St)
    (he : SharedE e) (hrel : Rel pt s1 s2) (hsc : ScopesOK s2) (h2 : valueOf env f2 e s2 ≠ .fuel)
    (hf : f1 ≥ f2 + 2) :
    UndefinedName (valueOf env f2 e s2) ∨
      (evalNode env f1 e s1 ≠ .fuel ∧ SameRes pt (evalNode env f1 e s1) (valueOf env f2 e s2)) :=
  (expr_agreeF env pt hpt hpr f1 f2 e s1 s2 he hrel hsc).of_v2 hf h2

/-- every identifier occurring in `e` is a variable of the scopes of `s` (`DefinedE`, in
    `Proofs/V2Defined.lean`, follows the shape of `SharedE`) -/
def AllNamesDefined (e : Node) (s : St) : Prop := DefinedE s.task.scopes e

/-- **Expression agreement when all names are defined**: no undefined-name alternative — the two
    evaluators return the same value / the same error, in corresponding states (for fuels that suffice). -/
theorem expr_agree_defined (hpt : NoKeys pt) (hpr : PrRegistered env) (f1 f2 : Nat) (e : Node) (s1 s2 : St)
    (he : SharedE e) (hdef : AllNamesDefined e s2) (hrel : Rel pt s1 s2) (hsc : ScopesOK s2) :
    evalNode env f1 e s1 = .fuel ∨ valueOf env f2 e s2 = .fuel ∨
      SameRes pt (evalNode env f1 e s1) (valueOf env f2 e s2) := by
  rcases expr_agree env pt hpt hpr f1 f2 e s1 s2 he hrel hsc with h | h | h | h
  · exact .inl h
  · exact .inr (.inl h)
  · obtain ⟨er, s', h1, h2⟩ := h
    exact absurd h2 (valueOf_defined f2 e s2 hdef er s' h1)
  · exact .inr (.inr h)

/-- the same for `RunExpr` itself: when both succeed, v2's registers hold exactly the value v1 returned
    (never a stale one) -/
theorem expr_agree_registers (hpt : NoKeys pt) (hpr : PrRegistered env) (f1 f2 : Nat) (e : Node) (s1 s2 : St)
    (he : SharedE e) (hrel : Rel pt s1 s2) (hsc : ScopesOK s2) (v : TV) (s1' s2' : St)
    (h1 : evalNode env f1 e s1 = .ok v s1') (h2 : runExpr env f2 e s2 = .ok () s2') :
    s2'.task.regs = [v] ∧ TagNil v ∧ Rel pt s1' s2' := by
  rw [(rel_iff _ _ _).1 hrel] at h1
  have h := (ih_all hpt hpr f1).node f2 e s2 he hsc
  rw [h1, h2] at h
  cases h with
  | ok h => exact ⟨h.1.1, h.1.2, (rel_iff _ _ _).2 rfl⟩

/-! ## statements -/

/-- **Statement agreement, with fuel accounting** (control flow, scoping, flags, polls, trace).
    For a list of shared statements, from corresponding states, for all fuels (`fe` of the v1
    expression evaluator, `fm` of the v1 machine, `f2` of v2): `RunStmts` of v1 and of v2 end in
    corresponding states with the same outcome.  Corresponding final states have the same
    `brk`/`cont`/`exit` flags, the same number of signal polls, the same trace of probe calls, the
    same heap and scopes.  v2 needs at most `fm + 2 * fe + 2` units of fuel; v1 at most `f2 + 3` (`fe`)
    and `f2 + 1` (`fm`). -/
theorem stmts_agreeF (hpt : NoKeys pt) (hpr : PrRegistered env) (fe fm f2 : Nat) (ss : List Node) (s1 s2 : St)
    (hss : SharedL ss) (hrel : Rel pt s1 s2) (hsc : ScopesOK s2) :
    AgreeF pt (fe ≥ f2 + 3 ∧ fm ≥ f2 + 1) (f2 ≥ fm + 2 * fe + 2)
      (runStmts env (evalNode env fe) fm ss s1) (stmts2 env f2 ss s2) := by
  rw [(rel_iff _ _ _).1 hrel]
  exact agreeF_of_sim ((ihm_all hpt hpr fe fm).stmts f2 ss s2 hss hsc) (fun _ _ _ _ => rfl)

/-- **Statement agreement** (all fuels) -/
theorem stmts_agree (hpt : NoKeys pt) (hpr : PrRegistered env) (fe fm f2 : Nat) (ss : List Node) (s1 s2 : St)
    (hss : SharedL ss) (hrel : Rel pt s1 s2) (hsc : ScopesOK s2) :
    Agree pt (runStmts env (evalNode env fe) fm ss s1) (stmts2 env f2 ss s2) :=
  (stmts_agreeF env pt hpt hpr fe fm f2 ss s1 s2 hss hrel hsc).agree

/-- the tagging invariant is kept: when both runs succeed, the variables are well tagged again
    (so `stmts_agree` can be applied to the rest of a program) -/
theorem stmts_keep_tagging (hpt : NoKeys pt) (hpr : PrRegistered env) (fe fm f2 : Nat) (ss : List Node) (s1 s2 : St)
    (hss : SharedL ss) (hrel : Rel pt s1 s2) (hsc : ScopesOK s2) (s1' s2' : St)
    (h1 : runStmts env (evalNode env fe) fm ss s1 = .ok () s1') (h2 : stmts2 env f2 ss s2 = .ok () s2') :
    ScopesOK s2' := by
  rw [(rel_iff _ _ _).1 hrel] at h1
  have h := (ihm_all hpt hpr fe fm).stmts f2 ss s2 hss hsc
  rw [h1, h2] at h
  cases h with
  | ok h => exact h.2

/-- forget the value of a result -/
def forget {α} : Res α → Res Unit
  | .ok _ s => .ok () s | .err e s => .err e s | .panic m => .panic m | .fuel => .fuel | .need q => .need q

/-- a single statement (`RunStmt` of v1 returns a value, which statement lists discard) -/
theorem stmt_agree (hpt : NoKeys pt) (hpr : PrRegistered env) (fe fm f2 : Nat) (n : Node) (s1 s2 : St)
    (hn : SharedS n) (hrel : Rel pt s1 s2) (hsc : ScopesOK s2) :
    Agree pt (forget (runStmt env (evalNode env fe) fm n s1)) (runExpr env f2 n s2) := by
  rw [(rel_iff _ _ _).1 hrel]
  have h := (ihm_all hpt hpr fe fm).stmt f2 n s2 hn hsc
  revert h
  generalize runStmt env (evalNode env fe) fm n (proj pt s2) = r1
  generalize runExpr env f2 n s2 = r2
  intro h
  cases h with
  | ok h => exact .inr (.inr (.inr ⟨rfl, (rel_iff _ _ _).2 rfl⟩))
  | err => exact .inr (.inr (.inr ⟨rfl, (rel_iff _ _ _).2 rfl⟩))
  | panic => exact .inr (.inr (.inr rfl))
  | need => exact .inr (.inr (.inr rfl))
  | fuelL => exact .inl rfl
  | fuelR => exact .inr (.inl rfl)
  | fuelB => exact .inl rfl
  | undef h => exact .inr (.inr (.inl ⟨_, _, rfl, h⟩))

/-- **Whole scripts, with fuel accounting**: `(*Script).Run` of both interpreters on a world whose
    point has no readable key -/
theorem script_agreeF (hpr : PrRegistered env) (f1 f2 : Nat) (name : Bytes) (ss : List Node) (w : World)
    (hw : NoKeys w.pt) (hss : SharedL ss) :
    AgreeF w.pt (f1 ≥ f2 + 3) (f2 ≥ 3 * f1 + 2) (runScript env f1 name ss w) (runScript2 env f2 name ss w) := by
  unfold runScript runScript2
  have h := stmts_agreeF env w.pt hw hpr f1 f1 f2 ss
    { task := { name := name, scopes := [[]] }, world := w } { task := { name := name, scopes := [[]] }, world := w }
    hss ⟨rfl, rfl, rfl, rfl, rfl, rfl, rfl, rfl, rfl, rfl, rfl⟩
    (by intro sc hsc kv hkv
        simp only [List.mem_singleton] at hsc
        subst hsc
        cases hkv)
  exact ⟨h.agree, fun hb => h.fuel2 (by omega), fun hb => h.fuel1 (by omega)⟩

/-- **Whole scripts** (all fuels) -/
theorem script_agree (hpr : PrRegistered env) (f1 f2 : Nat) (name : Bytes) (ss : List Node) (w : World)
    (hw : NoKeys w.pt) (hss : SharedL ss) :
    Agree w.pt (runScript env f1 name ss w) (runScript2 env f2 name ss w) :=
  (script_agreeF env hpr f1 f2 name ss w hw hss).agree

/-- **Whole scripts, enough fuel**: if the v1 run ends within fuel `f1`, the v2 run ends within any
    fuel `≥ 3 * f1 + 2`, with the same outcome in a corresponding state — same scopes, flags, heap,
    polls, trace; same error — or with v2's undefined-name error. -/
theorem script_agree_enough_fuel (hpr : PrRegistered env) (f1 f2 : Nat) (name : Bytes) (ss : List Node) (w : World)
    (hw : NoKeys w.pt) (hss : SharedL ss) (h1 : runScript env f1 name ss w ≠ .fuel) (hf : f2 ≥ 3 * f1 + 2) :
    runScript2 env f2 name ss w ≠ .fuel ∧
      (UndefinedName (runScript2 env f2 name ss w) ∨
        SameRes w.pt (runScript env f1 name ss w) (runScript2 env f2 name ss w)) :=
  (script_agreeF env hpr f1 f2 name ss w hw hss).of_v1 hf h1

/-- …and conversely: if the v2 run ends within fuel `f2`, then (unless it ended with the undefined-name
    error) the v1 run ends within any fuel `≥ f2 + 3`, with the same outcome.  In particular a shared
    script diverges in one interpreter iff it does in the other (or v2 reports an undefined name). -/
theorem script_agree_enough_fuel' (hpr : PrRegistered env) (f1 f2 : Nat) (name : Bytes) (ss : List Node) (w : World)
    (hw : NoKeys w.pt) (hss : SharedL ss) (h2 : runScript2 env f2 name ss w ≠ .fuel) (hf : f1 ≥ f2 + 3) :
    UndefinedName (runScript2 env f2 name ss w) ∨
      (runScript env f1 name ss w ≠ .fuel ∧
        SameRes w.pt (runScript env f1 name ss w) (runScript2 env f2 name ss w)) :=
  (script_agreeF env hpr f1 f2 name ss w hw hss).of_v2 hf h2

/-! ## the documented differences -/

/-- **Documented difference 1: undefined names.**  A name that is not a variable: v1 reads the point
    (`get_key` semantics) and, failing that, yields nil; v2 reports "name-not-defined" at the name. -/
theorem undefined_name_difference (f : Nat) (name : Bytes) (p : Pos) (s1 s2 : St) (hrel : Rel pt s1 s2)
    (hn : name ≠ underscore) (hundef : getVar s2 name = none) :
    evalNode env (f+1) (.ident name p) s1 = .ok ((pt.get name).getD nilTV) s1 ∧
    valueOf env (f+2) (.ident name p) s2 = .err (PlErr.new s2.task.name p "name-not-defined") s2 := by
  constructor
  · have hk : normKey name = name := by unfold normKey; rw [if_neg hn]
    have hs : scopeGet s1.task.scopes name = none := by rw [hrel.scopes]; exact hundef
    simp only [evalNode, bind_apply, getS_apply, rbind_ok, getKey, hk, hs, hrel.point]
    cases pt.get name <;> rfl
  · rw [valueOf_ident, hundef]

/-- with a point without readable keys, v1's value is nil -/
theorem undefined_name_difference_nil (hpt : NoKeys pt) (f : Nat) (name : Bytes) (p : Pos) (s1 s2 : St)
    (hrel : Rel pt s1 s2) (hn : name ≠ underscore) (hundef : getVar s2 name = none) :
    evalNode env (f+1) (.ident name p) s1 = .ok nilTV s1 ∧
    valueOf env (f+2) (.ident name p) s2 = .err (PlErr.new s2.task.name p "name-not-defined") s2 := by
  have h := undefined_name_difference env pt f name p s1 s2 hrel hn hundef
  rw [hpt name] at h
  exact h

/-- **Documented difference 2: multi-assignment.**  v1 rejects an assignment with several left sides
    at run time (error class "multi-assign", at the assignment) without evaluating anything… -/
theorem multi_assign_v1 (f : Nat) (op : AsOp) (l1 l2 : Node) (ls rhs : List Node) (p : Pos) (s : St) :
    evalNode env (f+2) (.assign op (l1 :: l2 :: ls) rhs p) s = .err (PlErr.new s.task.name p "multi-assign") s := by
  simp only [evalNode, evalAssign]
  rfl

/-- …while v2 evaluates the whole right side first (`rhsVals`, left to right, into `s'`) and only
    then assigns, left to right: `a, b = x, y`. -/
theorem multi_assign_v2 (g : Nat) (a b : Bytes) (pa pb : Pos) (x y : Node) (p : Pos) (s s' : St) (va vb : TV)
    (h : rhsVals env (g+3) [x, y] x 2 [] s = .ok [va, vb] s') :
    runExpr env (g+5) (.assign .eq [.ident a pa, .ident b pb] [x, y] p) s =
      .ok () { s' with task := { s'.task with scopes := scopeSet (scopeSet s'.task.scopes a va) b vb } } := by
  simp only [runExpr, assign2, bind_apply, List.length_cons, List.length_nil, h, rbind_ok]
  simp [assignAll, AsOp.arith, assignTo, bind_apply, setVar, modTask_apply, pure_apply]

theorem multi_assign_difference (f g : Nat) (a b : Bytes) (pa pb : Pos) (x y : Node) (p : Pos) (s1 s2 s' : St)
    (va vb : TV) (h : rhsVals env (g+3) [x, y] x 2 [] s2 = .ok [va, vb] s') :
    evalNode env (f+2) (.assign .eq [.ident a pa, .ident b pb] [x, y] p) s1 =
      .err (PlErr.new s1.task.name p "multi-assign") s1 ∧
    runExpr env (g+5) (.assign .eq [.ident a pa, .ident b pb] [x, y] p) s2 =
      .ok () { s' with task := { s'.task with scopes := scopeSet (scopeSet s'.task.scopes a va) b vb } } :=
  ⟨multi_assign_v1 env f .eq _ _ [] _ p s1, multi_assign_v2 env g a b pa pb x y p s2 s' va vb h⟩

end

/-! ## concrete programs (non-vacuity) and the differences found outside the shared language -/
section examples

deriving instance DecidableEq for Platypus.Task, Platypus.World, Platypus.St, Platypus.Res

/-- proves `SharedL`/`SharedS`/`Simple`/`SharedE` goals for concrete programs -/
macro "shared_lang" : tactic => `(tactic|
  repeat' first
    | exact SharedS.brk _
    | exact SharedS.cont _
    | apply SharedS.ifelse
    | apply SharedS.forS
    | apply SharedS.forIn
    | apply Simple.assignVar
    | apply Simple.assignIdx
    | apply Simple.probe
    | refine List.forall_mem_cons.2 ⟨?_, ?_⟩
    | (intro _ h; cases h)
    | decide
    | exact List.cons_ne_nil _ _
    | exact .inl rfl
    | exact .inr (.inl rfl)
    | exact .inr (.inr rfl)
    | apply SharedS.simple
    | apply Simple.expr
    | constructor)

private def ps (n : Nat) : Pos := ⟨n, 1, n⟩
private def va (n : Nat := 0) : Node := .ident [97] (ps n)   -- a
private def vb (n : Nat := 0) : Node := .ident [98] (ps n)   -- b
private def vs (n : Nat := 0) : Node := .ident [115] (ps n)  -- s
private def vi (n : Nat := 0) : Node := .ident [105] (ps n)  -- i
private def vx (n : Nat := 0) : Node := .ident [120] (ps n)  -- x
private def int' (i : Int) (n : Nat := 0) : Node := .intLit i (ps n)
private def str' (b : Bytes) (n : Nat := 0) : Node := .strLit b (ps n)

/-- probes `p`, `pr` registered; a signal that never fires, so every poll is counted -/
def exEnv : Env :=
  { bound := fun _ => none, fns := [B "p", B "pr"], sigK := none, hasSignal := true, mapOrder := fun i => i + 1,
    oracle := fun _ => none }

theorem exEnv_pr : PrRegistered exEnv := by
  show exEnv.fns.contains (B "pr") = true
  decide +kernel
theorem noKeys_empty : NoKeys ({} : World).pt := fun _ => rfl

/-- ```
    a = [1, 2, 3]; s = 0
    for i = 0; i < 3; i += 1 { if i % 2 == 0 { s += a[i] } else { a[i] = 0 } }
    p(pr(s), a)
    ``` -/
def prog1 : List Node := [
  .assign .eq [va 1] [.list [int' 1, int' 2, int' 3] (ps 2) (ps 3)] (ps 4),
  .assign .eq [vs 5] [int' 0 6] (ps 7),
  .forS (some (.assign .eq [vi 8] [int' 0 9] (ps 10))) (some (.cond .lt (vi 11) (int' 3 12) (ps 13)))
    (some (.assign .addEq [vi 14] [int' 1 15] (ps 16)))
    (some [
      .ifelse [(.cond .eq (.arith .mod (vi 17) (int' 2 18) (ps 19)) (int' 0 20) (ps 21),
                some [.assign .addEq [vs 22] [.index (some ([97], ps 23)) [vi 24] [ps 25] [ps 26]] (ps 27)], ps 28)]
        (some [.assign .eq [.index (some ([97], ps 29)) [vi 30] [ps 31] [ps 32]] [int' 0 33] (ps 34)]) (ps 35)
    ]) (ps 36),
  .call (B "p") [.call (B "pr") [vs 37] (ps 38) (ps 39) (ps 40) 1, va 41] (ps 42) (ps 43) (ps 44) 2
]

theorem prog1_shared : SharedL prog1 := by unfold prog1 SharedL; shared_lang

/-- ```
    s = ""
    for x in "abc" { if x == "b" { continue }; s += x }
    m = {"k": 1, "j": 2}; i = 0
    for x in m { i += m[x] }
    b = [1, 2, 3, 4][1:3]
    for x in b { if x == 3 { break }; i += x }
    ``` -/
def prog2 : List Node := [
  .assign .eq [vs 1] [str' [] 2] (ps 3),
  .forIn (vx 4) (str' [97, 98, 99] 5)
    (some [.ifelse [(.cond .eq (vx 6) (str' [98] 7) (ps 8), some [.cont (ps 9)], ps 10)] none (ps 11),
           .assign .addEq [vs 12] [vx 13] (ps 14)]) (ps 15) (ps 16),
  .assign .eq [.ident [109] (ps 17)] [.map [(str' [107] 18, int' 1 19), (str' [106] 20, int' 2 21)] (ps 22) (ps 23)] (ps 24),
  .assign .eq [vi 25] [int' 0 26] (ps 27),
  .forIn (vx 28) (.ident [109] (ps 29))
    (some [.assign .addEq [vi 30] [.index (some ([109], ps 31)) [vx 32] [ps 33] [ps 34]] (ps 35)]) (ps 36) (ps 37),
  .assign .eq [vb 38] [.slice (.list [int' 1, int' 2, int' 3, int' 4] (ps 39) (ps 40)) (some (int' 1 41)) (some (int' 3 42)) none
      false (ps 43) (ps 44)] (ps 45),
  .forIn (vx 46) (vb 47)
    (some [.ifelse [(.cond .eq (vx 48) (int' 3 49) (ps 50), some [.brk (ps 51)], ps 52)] none (ps 53),
           .assign .addEq [vi 54] [vx 55] (ps 56)]) (ps 57) (ps 58)
]

theorem prog2_shared : SharedL prog2 := by unfold prog2 SharedL; shared_lang

/-- an error inside nested blocks: `a = [1, 2]; for i = 0; i < 3; i += 1 { if true { p(a[i] / (1 - i)) } }` -/
def prog3 : List Node := [
  .assign .eq [va 1] [.list [int' 1, int' 2] (ps 2) (ps 3)] (ps 4),
  .forS (some (.assign .eq [vi 5] [int' 0 6] (ps 7))) (some (.cond .lt (vi 8) (int' 3 9) (ps 10)))
    (some (.assign .addEq [vi 11] [int' 1 12] (ps 13)))
    (some [.ifelse [(.boolLit true (ps 14),
      some [.call (B "p") [.arith .div (.index (some ([97], ps 15)) [vi 16] [ps 17] [ps 18])
              (.arith .sub (int' 1 19) (vi 20) (ps 21)) (ps 22)] (ps 23) (ps 24) (ps 25) 1], ps 26)] none (ps 27)]) (ps 28)
]

theorem prog3_shared : SharedL prog3 := by unfold prog3 SharedL; shared_lang

/-! ### programs outside the shared language: the differences found -/

/-- `a = [1, 2, 3]; b = a[nil:2]` — a nil-valued slice bound (omitted, in both interpreters) -/
def progSliceNil : List Node := [
  .assign .eq [va 1] [.list [int' 1, int' 2, int' 3] (ps 2) (ps 3)] (ps 4),
  .assign .eq [vb 5] [.slice (va 6) (some (.nilLit (ps 7))) (some (int' 2 8)) none false (ps 9) (ps 10)] (ps 11)
]
/-- `a = [1, 2, 3, 4]; i = 1; x = nil; b = a[i:x]; s = "hello"[i:3:i]` — variables as slice bounds -/
def progSliceVar : List Node := [
  .assign .eq [va 1] [.list [int' 1, int' 2, int' 3, int' 4] (ps 2) (ps 3)] (ps 4),
  .assign .eq [vi 5] [int' 1 6] (ps 7),
  .assign .eq [vx 8] [.nilLit (ps 9)] (ps 10),
  .assign .eq [vb 11] [.slice (va 12) (some (vi 13)) (some (vx 14)) none false (ps 15) (ps 16)] (ps 17),
  .assign .eq [vs 18] [.slice (str' [104, 101, 108, 108, 111] 19) (some (vi 20)) (some (int' 3 21)) (some (vi 22)) true (ps 23) (ps 24)] (ps 25)
]
/-- `a = 1; a[pr(0)] += 1` — compound assignment to an index expression whose base is not a collection -/
def progCompoundIndex : List Node := [
  .assign .eq [va 1] [int' 1 2] (ps 3),
  .assign .addEq [.index (some ([97], ps 4)) [.call (B "pr") [int' 0 12] (ps 5) (ps 10) (ps 11) 1] [ps 6] [ps 7]] [int' 1 8] (ps 9)
]
/-- `_ = 1` -/
def progUnderscore : List Node := [.assign .eq [.ident [95] (ps 1)] [int' 1 2] (ps 3)]
/-- `i += 1` with `i` undefined -/
def progCompoundUndefined : List Node := [.assign .addEq [vi 1] [int' 1 2] (ps 3)]
/-- `x = p(3)` — a call that returns nothing, used as a value -/
def progVoidValue : List Node := [.assign .eq [vx 1] [.call (B "p") [int' 3 2] (ps 3) (ps 4) (ps 5) 1] (ps 6)]
/-- `a = 1; b = 2; a, b = b, a` -/
def progSwap : List Node := [
  .assign .eq [va 1] [int' 1 2] (ps 3),
  .assign .eq [vb 4] [int' 2 5] (ps 6),
  .assign .eq [va 7, vb 8] [vb 9, va 10] (ps 11)
]
/-- `x = u` with `u` undefined -/
def progUndefined : List Node := [.assign .eq [vx 1] [.ident [117] (ps 2)] (ps 3)]

/-! ### the runs, evaluated in both models (kernel evaluation) -/

theorem prog1_v1 : runScript exEnv 40 [116] prog1 {} =
    .ok () { task := { name := [116], scopes := [[([97], ⟨(.ref 0), .list⟩), ([115], ⟨(.int 4), .int⟩)]], brk := false, cont := false, exit := false, regs := [] }, world := { heap := [.list [(.int 1), (.int 0), (.int 3)]], polls := 17, mapIters := 0, trace := [.probe [112] [[105, 110, 116, 61, 105, 52], [108, 105, 115, 116, 61, 91, 105, 49, 44, 105, 48, 44, 105, 51, 93]], .probe [112, 114] [[105, 110, 116, 61, 105, 52]]] } } := by
  decide +kernel
theorem prog1_v2 : runScript2 exEnv 40 [116] prog1 {} =
    .ok () { task := { name := [116], scopes := [[([97], ⟨(.ref 0), .list⟩), ([115], ⟨(.int 4), .int⟩)]], brk := false, cont := false, exit := false, regs := [] }, world := { heap := [.list [(.int 1), (.int 0), (.int 3)]], polls := 17, mapIters := 0, trace := [.probe [112] [[105, 110, 116, 61, 105, 52], [108, 105, 115, 116, 61, 91, 105, 49, 44, 105, 48, 44, 105, 51, 93]], .probe [112, 114] [[105, 110, 116, 61, 105, 52]]] } } := by
  decide +kernel

theorem prog2_v1 : runScript exEnv 40 [116] prog2 {} =
    .ok () { task := { name := [116], scopes := [[([115], ⟨(.str [97, 99]), .str⟩), ([109], ⟨(.ref 0), .map⟩), ([105], ⟨(.int 5), .int⟩), ([98], ⟨(.ref 2), .list⟩)]], brk := false, cont := false, exit := false, regs := [] }, world := { heap := [.map [([107], (.int 1)), ([106], (.int 2))], .list [(.int 1), (.int 2), (.int 3), (.int 4)], .list [(.int 2), (.int 3)]], polls := 27, mapIters := 1, trace := [] } } := by
  decide +kernel
theorem prog2_v2 : runScript2 exEnv 40 [116] prog2 {} =
    .ok () { task := { name := [116], scopes := [[([115], ⟨(.str [97, 99]), .str⟩), ([109], ⟨(.ref 0), .map⟩), ([105], ⟨(.int 5), .int⟩), ([98], ⟨(.ref 2), .list⟩)]], brk := false, cont := false, exit := false, regs := [⟨(.bool true), .bool⟩] }, world := { heap := [.map [([107], (.int 1)), ([106], (.int 2))], .list [(.int 1), (.int 2), (.int 3), (.int 4)], .list [(.int 2), (.int 3)]], polls := 27, mapIters := 1, trace := [] } } := by
  decide +kernel

theorem prog3_v1 : runScript exEnv 40 [116] prog3 {} =
    .err ⟨[([116], ⟨22, 1, 22⟩)], "int-div-zero"⟩
      { task := { name := [116], scopes := [[], [([105], ⟨(.int 1), .int⟩)], [([97], ⟨(.ref 0), .list⟩)]], brk := false, cont := false, exit := true, regs := [] }, world := { heap := [.list [(.int 1), (.int 2)]], polls := 9, mapIters := 0, trace := [.probe [112] [[105, 110, 116, 61, 105, 49]]] } } := by
  decide +kernel
theorem prog3_v2 : runScript2 exEnv 40 [116] prog3 {} =
    .err ⟨[([116], ⟨22, 1, 22⟩)], "int-div-zero"⟩
      { task := { name := [116], scopes := [[], [([105], ⟨(.int 1), .int⟩)], [([97], ⟨(.ref 0), .list⟩)]], brk := false, cont := false, exit := true, regs := [⟨(.int 0), .int⟩] }, world := { heap := [.list [(.int 1), (.int 2)]], polls := 9, mapIters := 0, trace := [.probe [112] [[105, 110, 116, 61, 105, 49]]] } } := by
  decide +kernel

theorem progSliceNil_v1 : runScript exEnv 20 [116] progSliceNil {} =
    .ok () { task := { name := [116], scopes := [[([97], ⟨(.ref 0), .list⟩), ([98], ⟨(.ref 1), .list⟩)]], brk := false, cont := false, exit := false, regs := [] }, world := { heap := [.list [(.int 1), (.int 2), (.int 3)], .list [(.int 1), (.int 2)]], polls := 2, mapIters := 0, trace := [] } } := by
  decide +kernel
theorem progSliceNil_v2 : runScript2 exEnv 20 [116] progSliceNil {} =
    .ok () { task := { name := [116], scopes := [[([97], ⟨(.ref 0), .list⟩), ([98], ⟨(.ref 1), .list⟩)]], brk := false, cont := false, exit := false, regs := [⟨(.ref 1), .list⟩] }, world := { heap := [.list [(.int 1), (.int 2), (.int 3)], .list [(.int 1), (.int 2)]], polls := 2, mapIters := 0, trace := [] } } := by
  decide +kernel

theorem progCompoundIndex_v1 : runScript exEnv 20 [116] progCompoundIndex {} =
    .err ⟨[([116], ⟨5, 1, 5⟩)], "not-found"⟩
      { task := { name := [116], scopes := [[([97], ⟨(.int 1), .int⟩)]], brk := false, cont := false, exit := true, regs := [] }, world := { heap := [], polls := 2, mapIters := 0, trace := [.probe [112, 114] [[105, 110, 116, 61, 105, 48]]] } } := by
  decide +kernel
theorem progCompoundIndex_v2 : runScript2 exEnv 20 [116] progCompoundIndex {} =
    .err ⟨[([116], ⟨4, 1, 4⟩)], "unindexable-type"⟩
      { task := { name := [116], scopes := [[([97], ⟨(.int 1), .int⟩)]], brk := false, cont := false, exit := true, regs := [⟨(.int 1), .int⟩] }, world := { heap := [], polls := 2, mapIters := 0, trace := [] } } := by
  decide +kernel

theorem progUnderscore_v1 : runScript exEnv 20 [116] progUnderscore {} =
    .ok () { task := { name := [116], scopes := [[([109, 101, 115, 115, 97, 103, 101], ⟨(.int 1), .int⟩)]], brk := false, cont := false, exit := false, regs := [] }, world := { heap := [], polls := 1, mapIters := 0, trace := [] } } := by
  decide +kernel
theorem progUnderscore_v2 : runScript2 exEnv 20 [116] progUnderscore {} =
    .ok () { task := { name := [116], scopes := [[([95], ⟨(.int 1), .int⟩)]], brk := false, cont := false, exit := false, regs := [⟨(.int 1), .int⟩] }, world := { heap := [], polls := 1, mapIters := 0, trace := [] } } := by
  decide +kernel

theorem progCompoundUndefined_v1 : runScript exEnv 20 [116] progCompoundUndefined {} =
    .ok () { task := { name := [116], scopes := [[]], brk := false, cont := false, exit := false, regs := [] }, world := { heap := [], polls := 1, mapIters := 0, trace := [] } } := by
  decide +kernel
theorem progCompoundUndefined_v2 : runScript2 exEnv 20 [116] progCompoundUndefined {} =
    .err ⟨[([116], ⟨1, 1, 1⟩)], "name-not-defined"⟩
      { task := { name := [116], scopes := [[]], brk := false, cont := false, exit := true, regs := [⟨(.int 1), .int⟩] }, world := { heap := [], polls := 1, mapIters := 0, trace := [] } } := by
  decide +kernel

theorem progVoidValue_v1 : runScript exEnv 20 [116] progVoidValue {} =
    .ok () { task := { name := [116], scopes := [[([120], ⟨.nil, .void⟩)]], brk := false, cont := false, exit := false, regs := [] }, world := { heap := [], polls := 1, mapIters := 0, trace := [.probe [112] [[105, 110, 116, 61, 105, 51]]] } } := by
  decide +kernel
theorem progVoidValue_v2 : runScript2 exEnv 20 [116] progVoidValue {} =
    .err ⟨[([116], ⟨3, 1, 3⟩)], "no-return-value"⟩
      { task := { name := [116], scopes := [[]], brk := false, cont := false, exit := true, regs := [] }, world := { heap := [], polls := 1, mapIters := 0, trace := [.probe [112] [[105, 110, 116, 61, 105, 51]]] } } := by
  decide +kernel

theorem progSwap_v1 : runScript exEnv 20 [116] progSwap {} =
    .err ⟨[([116], ⟨11, 1, 11⟩)], "multi-assign"⟩
      { task := { name := [116], scopes := [[([97], ⟨(.int 1), .int⟩), ([98], ⟨(.int 2), .int⟩)]], brk := false, cont := false, exit := true, regs := [] }, world := { heap := [], polls := 3, mapIters := 0, trace := [] } } := by
  decide +kernel
theorem progSwap_v2 : runScript2 exEnv 20 [116] progSwap {} =
    .ok () { task := { name := [116], scopes := [[([97], ⟨(.int 2), .int⟩), ([98], ⟨(.int 1), .int⟩)]], brk := false, cont := false, exit := false, regs := [⟨(.int 1), .int⟩] }, world := { heap := [], polls := 3, mapIters := 0, trace := [] } } := by
  decide +kernel

theorem progUndefined_v1 : runScript exEnv 20 [116] progUndefined {} =
    .ok () { task := { name := [116], scopes := [[([120], ⟨.nil, .nil⟩)]], brk := false, cont := false, exit := false, regs := [] }, world := { heap := [], polls := 1, mapIters := 0, trace := [] } } := by
  decide +kernel
theorem progUndefined_v2 : runScript2 exEnv 20 [116] progUndefined {} =
    .err ⟨[([116], ⟨2, 1, 2⟩)], "name-not-defined"⟩
      { task := { name := [116], scopes := [[]], brk := false, cont := false, exit := true, regs := [] }, world := { heap := [], polls := 1, mapIters := 0, trace := [] } } := by
  decide +kernel

/-- the three shared programs satisfy the hypotheses of `script_agree`… -/
example : Agree ({} : World).pt (runScript exEnv 40 [116] prog1 {}) (runScript2 exEnv 40 [116] prog1 {}) :=
  script_agree exEnv exEnv_pr 40 40 [116] prog1 {} noKeys_empty prog1_shared
example : Agree ({} : World).pt (runScript exEnv 40 [116] prog2 {}) (runScript2 exEnv 40 [116] prog2 {}) :=
  script_agree exEnv exEnv_pr 40 40 [116] prog2 {} noKeys_empty prog2_shared
example : Agree ({} : World).pt (runScript exEnv 40 [116] prog3 {}) (runScript2 exEnv 40 [116] prog3 {}) :=
  script_agree exEnv exEnv_pr 40 40 [116] prog3 {} noKeys_empty prog3_shared

/-- …and the agreement is the real one (`SameRes`): same outcome, corresponding states — same
    scopes, heap, 17 polls, same trace; the registers differ -/
theorem prog1_same : SameRes ({} : World).pt (runScript exEnv 40 [116] prog1 {}) (runScript2 exEnv 40 [116] prog1 {}) := by
  rw [prog1_v1, prog1_v2]; exact ⟨rfl, by constructor <;> rfl⟩
theorem prog2_same : SameRes ({} : World).pt (runScript exEnv 40 [116] prog2 {}) (runScript2 exEnv 40 [116] prog2 {}) := by
  rw [prog2_v1, prog2_v2]; exact ⟨rfl, by constructor <;> rfl⟩
/-- the same error (division by zero at the operator, position 22) after the same effects -/
theorem prog3_same : SameRes ({} : World).pt (runScript exEnv 40 [116] prog3 {}) (runScript2 exEnv 40 [116] prog3 {}) := by
  rw [prog3_v1, prog3_v2]; exact ⟨rfl, by constructor <;> rfl⟩

/-! ### the differences, named -/

theorem progSliceNil_shared : SharedL progSliceNil := by unfold progSliceNil SharedL; shared_lang
theorem progSliceVar_shared : SharedL progSliceVar := by unfold progSliceVar SharedL; shared_lang

/-- **Nil-valued slice bound** (`a[nil:2]`; formerly a difference, fixed upstream): both interpreters
    treat the bound as omitted and build the same list `[1, 2]` at the same address.  The program is
    in the shared language, so this is also an instance of `script_agree`. -/
theorem slice_nil_bound_agree :
    SameRes ({} : World).pt (runScript exEnv 20 [116] progSliceNil {}) (runScript2 exEnv 20 [116] progSliceNil {}) ∧
    (∃ s, runScript2 exEnv 20 [116] progSliceNil {} = .ok () s ∧
      s.world.heap = [.list [.int 1, .int 2, .int 3], .list [.int 1, .int 2]]) := by
  rw [progSliceNil_v1, progSliceNil_v2]
  exact ⟨⟨rfl, by constructor <;> rfl⟩, _, rfl, rfl⟩

example : Agree ({} : World).pt (runScript exEnv 20 [116] progSliceNil {}) (runScript2 exEnv 20 [116] progSliceNil {}) :=
  script_agree exEnv exEnv_pr 20 20 [116] progSliceNil {} noKeys_empty progSliceNil_shared

theorem progSliceVar_v1 : runScript exEnv 20 [116] progSliceVar {} =
    .ok () { task := { name := [116], scopes := [[([97], ⟨(.ref 0), .list⟩), ([105], ⟨(.int 1), .int⟩), ([120], ⟨.nil, .nil⟩), ([98], ⟨(.ref 1), .list⟩), ([115], ⟨(.str [101, 108]), .str⟩)]], brk := false, cont := false, exit := false, regs := [] }, world := { heap := [.list [(.int 1), (.int 2), (.int 3), (.int 4)], .list [(.int 2), (.int 3), (.int 4)]], polls := 5, mapIters := 0, trace := [] } } := by
  decide +kernel
theorem progSliceVar_v2 : runScript2 exEnv 20 [116] progSliceVar {} =
    .ok () { task := { name := [116], scopes := [[([97], ⟨(.ref 0), .list⟩), ([105], ⟨(.int 1), .int⟩), ([120], ⟨.nil, .nil⟩), ([98], ⟨(.ref 1), .list⟩), ([115], ⟨(.str [101, 108]), .str⟩)]], brk := false, cont := false, exit := false, regs := [⟨(.str [101, 108]), .str⟩] }, world := { heap := [.list [(.int 1), (.int 2), (.int 3), (.int 4)], .list [(.int 2), (.int 3), (.int 4)]], polls := 5, mapIters := 0, trace := [] } } := by
  decide +kernel

/-- **Variables as slice bounds** (`b = a[i:x]` with `i = 1`, `x = nil`; `"hello"[i:3:i]`): in the
    shared language, and the two interpreters agree -/
theorem slice_variable_bounds_agree :
    SameRes ({} : World).pt (runScript exEnv 20 [116] progSliceVar {}) (runScript2 exEnv 20 [116] progSliceVar {}) := by
  rw [progSliceVar_v1, progSliceVar_v2]; exact ⟨rfl, by constructor <;> rfl⟩

example : Agree ({} : World).pt (runScript exEnv 20 [116] progSliceVar {}) (runScript2 exEnv 20 [116] progSliceVar {}) :=
  script_agree exEnv exEnv_pr 20 20 [116] progSliceVar {} noKeys_empty progSliceVar_shared

/-- a state in which the variable `x` holds a void value `⟨nil, void⟩` (not `TagNil`) -/
def voidSt : St :=
  { task := { name := [116], scopes := [[([97], ⟨.ref 0, .list⟩), ([120], voidTV)]] },
    world := { heap := [.list [.int 1, .int 2, .int 3]] } }

/-- **The hypothesis `ScopesOK` of `expr_agree` is needed** (residual difference): with a variable
    holding a *void* value as slice bound (`a[x:2]`), v1 (which looks at the value: nil) treats the
    bound as omitted, v2 (which looks at the tag: void) reports "start-not-int".  A void value can
    only get into a variable in v1 (`x = f()` with `f` returning nothing), where v2 already fails
    with "no-return-value" (`void_value_difference`); from the initial state of a script the
    invariant always holds (`script_agree` has no such hypothesis). -/
theorem void_bound_needs_tagging :
    Rel ({} : World).pt voidSt voidSt ∧ ¬ ScopesOK voidSt ∧
    (∃ s, evalNode exEnv 10 (.slice (va 1) (some (vx 2)) (some (int' 2 3)) none false (ps 4) (ps 5)) voidSt =
      .ok ⟨.ref 1, .list⟩ s) ∧
    (∃ s, valueOf exEnv 10 (.slice (va 1) (some (vx 2)) (some (int' 2 3)) none false (ps 4) (ps 5)) voidSt =
      .err ⟨[([116], ⟨2, 1, 2⟩)], "start-not-int"⟩ s) := by
  refine ⟨by constructor <;> rfl, ?_, ?_, ?_⟩
  · intro h
    have := h _ List.mem_cons_self ([120], voidTV) (List.mem_cons_of_mem _ List.mem_cons_self)
    simp [TagNil, voidTV] at this
  · exact ⟨{ task := { name := [116], scopes := [[([97], ⟨.ref 0, .list⟩), ([120], voidTV)]] }, world := { heap := [.list [.int 1, .int 2, .int 3], .list [.int 1, .int 2]] } }, by decide +kernel⟩
  · exact ⟨{ task := { name := [116], scopes := [[([97], ⟨.ref 0, .list⟩), ([120], voidTV)]], regs := [⟨.int 2, .int⟩] }, world := { heap := [.list [.int 1, .int 2, .int 3]] } }, by decide +kernel⟩

/-- **Finding: `x[i] op= e` on a non-collection** (`a = 1; a[pr(0)] += 1`).  Both fail, with different
    error class, position *and effects*: v1 reports "not-found" at the index after evaluating it (the
    probe ran: it walks the value without checking the base), v2 reports "unindexable-type" at the
    base without evaluating the index (it evaluates `x[i]` as an index expression first).  On a list
    or map base the two agree.  `Simple.assignIdx` has `=` only. -/
theorem compound_index_assign_difference :
    (∃ s, runScript exEnv 20 [116] progCompoundIndex {} = .err ⟨[([116], ⟨5, 1, 5⟩)], "not-found"⟩ s ∧
      s.world.trace = [.probe [112, 114] [[105, 110, 116, 61, 105, 48]]]) ∧
    (∃ s, runScript2 exEnv 20 [116] progCompoundIndex {} = .err ⟨[([116], ⟨4, 1, 4⟩)], "unindexable-type"⟩ s ∧
      s.world.trace = []) :=
  ⟨⟨_, progCompoundIndex_v1, rfl⟩, ⟨_, progCompoundIndex_v2, rfl⟩⟩

/-- **Finding: the name `_`.**  v1 reads and writes the variable `message` (`_` is its alias), v2 the
    variable `_`.  Names of the shared language are `≠ underscore`. -/
theorem underscore_difference :
    (∃ s, runScript exEnv 20 [116] progUnderscore {} = .ok () s ∧
      s.task.scopes = [[([109, 101, 115, 115, 97, 103, 101], ⟨.int 1, .int⟩)]]) ∧
    (∃ s, runScript2 exEnv 20 [116] progUnderscore {} = .ok () s ∧ s.task.scopes = [[([95], ⟨.int 1, .int⟩)]]) :=
  ⟨⟨_, progUnderscore_v1, rfl⟩, ⟨_, progUnderscore_v2, rfl⟩⟩

/-- **Undefined name, compound assignment** (`i += 1`, `i` undefined): v1 silently does nothing
    (no error, no variable), v2 reports "name-not-defined" at the left side (documented difference 1) -/
theorem compound_undefined_difference :
    (∃ s, runScript exEnv 20 [116] progCompoundUndefined {} = .ok () s ∧ s.task.scopes = [[]]) ∧
    (∃ s, runScript2 exEnv 20 [116] progCompoundUndefined {} = .err ⟨[([116], ⟨1, 1, 1⟩)], "name-not-defined"⟩ s) :=
  ⟨⟨_, progCompoundUndefined_v1, rfl⟩, ⟨_, progCompoundUndefined_v2⟩⟩

/-- **Undefined name as a value** (`x = u`): v1 assigns nil, v2 reports "name-not-defined" at `u` -/
theorem undefined_value_difference :
    (∃ s, runScript exEnv 20 [116] progUndefined {} = .ok () s ∧ s.task.scopes = [[([120], nilTV)]]) ∧
    (∃ s, runScript2 exEnv 20 [116] progUndefined {} = .err ⟨[([116], ⟨2, 1, 2⟩)], "name-not-defined"⟩ s) :=
  ⟨⟨_, progUndefined_v1, rfl⟩, ⟨_, progUndefined_v2⟩⟩

/-- **A call that returns nothing, used as a value** (`x = p(3)`): v1 assigns a void value, v2 reports
    "no-return-value" at the call (the property's second sentence); the probe ran once in both -/
theorem void_value_difference :
    (∃ s, runScript exEnv 20 [116] progVoidValue {} = .ok () s ∧ s.task.scopes = [[([120], voidTV)]]) ∧
    (∃ s, runScript2 exEnv 20 [116] progVoidValue {} = .err ⟨[([116], ⟨3, 1, 3⟩)], "no-return-value"⟩ s) :=
  ⟨⟨_, progVoidValue_v1, rfl⟩, ⟨_, progVoidValue_v2⟩⟩

/-- **Multi-assignment** (`a, b = b, a`): v1 fails with "multi-assign", v2 swaps -/
theorem swap_difference :
    (∃ s, runScript exEnv 20 [116] progSwap {} = .err ⟨[([116], ⟨11, 1, 11⟩)], "multi-assign"⟩ s) ∧
    (∃ s, runScript2 exEnv 20 [116] progSwap {} = .ok () s ∧
      s.task.scopes = [[([97], ⟨.int 2, .int⟩), ([98], ⟨.int 1, .int⟩)]]) :=
  ⟨⟨_, progSwap_v1⟩, ⟨_, progSwap_v2, rfl⟩⟩

end examples
end Platypus.C18
