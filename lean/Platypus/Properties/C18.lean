import Platypus.Model.EvalV2
/-!
# C18 — the v2 interpreter never reuses stale values

The v2 interpreter is a register machine: expressions leave their value(s) in `task.regs`,
consumers read them with `getRet` (exactly one value).  Theorems about the model:
a call resets the registers before the function runs, so a function that returns nothing leaves
them empty (`call_unregistered_no_value`, `void_call_no_value`); an attribute expression leaves
them empty; `getRet` on empty registers is an error at the consumer's position, never an earlier
value (`getRet_empty_is_error`, `value_position_rejects_no_value`); an undefined name is an error;
`a, b = x, y` evaluates the whole right side before any assignment (`multi_assign_rhs_first`).
-/
namespace Platypus.C18
open Platypus Platypus.V2

/-- reading a value when the registers are empty is an error, never a value -/
theorem getRet_empty_is_error (p : Pos) (s : St) (h : s.task.regs = []) :
    getRet p s = .err (PlErr.new s.task.name p "no-return-value") s := by
  simp [getRet, h]

theorem getRet_many_is_error (p : Pos) (s : St) (a b : TV) (r : List TV) (h : s.task.regs = a :: b :: r) :
    getRet p s = .err (PlErr.new s.task.name p "multiple-return-values") s := by
  simp [getRet, h]

theorem getRet_one (p : Pos) (s : St) (v : TV) (h : s.task.regs = [v]) : getRet p s = .ok v s := by
  simp [getRet, h]

section
variable (env : Env)

/-- an attribute expression yields no value: the registers are empty afterwards -/
theorem attr_no_value (f : Nat) (o a : Option Node) (p : Pos) (s : St) :
    runExpr env (f+1) (.attr o a p) s = .ok () { s with task := { s.task with regs := [] } } := by
  simp [runExpr, retSet, modTask, modifyS]

/-- a call to a function that is not registered yields no value (and does nothing else) -/
theorem call_unregistered_no_value (f : Nat) (name : Bytes) (args : List Node) (np lp rp : Pos) (site : Nat) (s : St)
    (h : env.fns.contains name = false) :
    runExpr env (f+1) (.call name args np lp rp site) s = .ok () { s with task := { s.task with regs := [] } } := by
  have hm : name ∉ env.fns := by simpa using h
  simp [runExpr, retSet, modTask, modifyS, bind, EM.bind, hm, pure, EM.pure]

/-- a registered function that returns nothing (any probe other than pr/multi/len, e.g. `void()`)
    called without arguments yields no value: whatever the registers held before, they are empty after -/
theorem void_call_no_value (f : Nat) (name : Bytes) (np lp rp : Pos) (site : Nat) (s : St) (h : name ∈ env.fns)
    (h1 : name ≠ B "pr") (h2 : name ≠ B "multi") (h3 : name ≠ B "len") :
    ∃ s', runExpr env (f+3) (.call name [] np lp rp site) s = .ok () s' ∧ s'.task.regs = [] := by
  simp [runExpr, retSet, modTask, modifyS, bind, EM.bind, h, call2, valuesOf, pure, EM.pure, getS, modWorld, h1, h2, h3]

/-- a value position (`RunExpr` then `GetRet`) rejects an expression that left no value: the
    consumer gets an error positioned at the expression — not the value of an earlier expression -/
theorem value_position_rejects_no_value (f : Nat) (e : Node) (s s' : St)
    (h : runExpr env f e s = .ok () s') (hr : s'.task.regs = []) :
    valueOf env (f+1) e s = .err (PlErr.new s'.task.name (Node.start e) "no-return-value") s' := by
  simp [valueOf, bind, EM.bind, h, getRet, hr]

/-- an undefined name is an error -/
theorem undefined_name_is_error (f : Nat) (name : Bytes) (p : Pos) (s : St) (h : getVar s name = none) :
    runExpr env (f+1) (.ident name p) s = .err (PlErr.new s.task.name p "name-not-defined") s := by
  simp [runExpr, bind, EM.bind, getS, h, runErr]

/-- multi-assignment: all right-hand values are computed (in order) before any left side is
    assigned — the assignment is the composition "right side, count check, then assign all" -/
theorem multi_assign_rhs_first (f : Nat) (op : AsOp) (lhs : List Node) (first : Node) (rest : List Node) (p : Pos) :
    assign2 env (f+1) op lhs (first :: rest) p =
      (do let vals ← rhsVals env f (first :: rest) first lhs.length []
          if lhs.length ≠ vals.length then runErr p "operand-count"
          else assignAll env f op lhs vals p) := by
  simp [assign2]

end

/-- `x = e` where `e` left no value is an error at `e` — never an assignment of an earlier value -/
theorem assign_from_no_value (env : Env) (f : Nat) (x e : Node) (p : Pos) (s s' : St)
    (h : runExpr env f e s = .ok () s') (hr : s'.task.regs = []) :
    assign2 env (f+2) .eq [x] [e] p s = .err (PlErr.new s'.task.name (Node.start e) "no-return-value") s' := by
  simp [assign2, rhsVals, bind, EM.bind, h, getS, hr, runErr]

/-- non-vacuity: the hypotheses are met by a call of an unregistered function after `a = 5` -/
example (env : Env) (name : Bytes) (hn : env.fns.contains name = false) (s : St) (np : Pos) :
    ∃ s', assign2 env 3 .eq [.ident [98] np] [.call name [] np np np 1] np s =
        .err (PlErr.new s'.task.name np "no-return-value") s' := by
  refine ⟨_, assign_from_no_value env 1 _ _ np s _ (call_unregistered_no_value env 0 name [] np np np 1 s hn) rfl⟩

end Platypus.C18
