import Platypus.Properties.C05
import Platypus.Properties.C17Tree
/-!
# C17 (tree part), hypothesis discharged: the lexer's item offsets increase strictly

The source-order theorems of `Platypus/Properties/C17Tree.lean` (`positions_in_order`,
`positions_source_ordered`, `bin_operator_between`) assume `Sorted ts` for the item list `ts` given to
`parsePosItems`.  The parser receives `Lex.lexAll src`; here the hypothesis is proved for that list,
from `C05.lexer_covers_source` alone:

* `coversFrom_sorted`: a list that covers the source from `cur` (`C05.CoversFrom`) has all its offsets
  `≥ cur` and strictly increasing — every item before the last is non-empty and the next one starts at
  or after its end; the final `EOF`/`ERROR` item starts at or after the end of the item before it, so
  it too is strictly after it.  No condition on `ERROR` items is needed.
* `lexAll_sorted`: `Sorted (lexAll src)`, for every byte string.
* `sorted_filter`, `lexAll_filter_sorted`: removing items (the `COMMENT` items, as `parsePosItems` and
  `parseItems` do) keeps the offsets increasing.
* `positions_in_order_src`, `positions_source_ordered_src`, `bin_operator_between_src`: the three order
  theorems for `parsePos src = parsePosItems (lexAll src)`, without hypothesis on the items.
-/
namespace Platypus.C17Tree
open Platypus.Lex (Tok Item lexAll)
open Platypus.Parse Platypus.ParsePos

/-- a covering item list has all offsets at or after the point it covers from, strictly increasing -/
theorem coversFrom_sorted (input : Bytes) : ∀ (items : List Item) (cur : Nat),
    C05.CoversFrom input cur items → (∀ it ∈ items, cur ≤ it.pos) ∧ Sorted items
  | [], _, h => h.elim
  | [it], cur, h => by
    refine ⟨?_, List.pairwise_singleton _ _⟩
    intro x hx
    simp only [List.mem_singleton] at hx
    subst hx
    rcases h with h | h
    · exact h.2.2.1
    · exact h.2.1
  | it :: a :: as, cur, h => by
    obtain ⟨_, _, h3, _, h5, _, h7⟩ := h
    obtain ⟨ihge, ihs⟩ := coversFrom_sorted input (a :: as) _ h7
    have hlen : 0 < it.val.length := List.length_pos_iff.2 h5
    refine ⟨?_, List.pairwise_cons.2 ⟨?_, ihs⟩⟩
    · intro x hx
      rcases List.mem_cons.1 hx with rfl | hx
      · exact h3
      · have := ihge x hx; omega
    · intro x hx
      have := ihge x hx; omega

/-- the offsets of the lexer's items increase strictly, for every source text (including a final
    `ERROR` item: it lies at or after the end of the last token before it) -/
theorem lexAll_sorted (src : Bytes) : Sorted (lexAll src) :=
  (coversFrom_sorted src _ 0 (C05.lexer_covers_source src)).2

/-- removing items keeps the offsets increasing -/
theorem sorted_filter {ts : List Item} (p : Item → Bool) (h : Sorted ts) : Sorted (ts.filter p) :=
  List.Pairwise.sublist List.filter_sublist h

/-- the list the parsers work on: the lexer's items without the `COMMENT` items -/
theorem lexAll_filter_sorted (src : Bytes) :
    Sorted ((lexAll src).filter fun i => i.typ ≠ .COMMENT) :=
  sorted_filter _ (lexAll_sorted src)

/-- consecutive offsets, spelled out: an item earlier in the lexer's output has the smaller offset -/
theorem lexAll_pos_lt (src : Bytes) {i j : Nat} (hij : i < j) (hj : j < (lexAll src).length) :
    ((lexAll src)[i]'(Nat.lt_trans hij hj)).pos < ((lexAll src)[j]'hj).pos :=
  List.pairwise_iff_getElem.1 (lexAll_sorted src) i j (Nat.lt_trans hij hj) hj hij

/-! ### the order theorems for source text -/

/-- for every parsed source text: every opening bracket is before its closing bracket, and a call's
    name before its parenthesis -/
theorem positions_in_order_src (src : Bytes) {tps : List PP} (h : parsePos src = some tps) :
    ∀ tp ∈ tps, tp.bracketsOrdered :=
  positions_in_order (lexAll_sorted src) h

/-- for every parsed source text: every node's own positions lie where its tokens stand relative to
    the positions stored in its subtrees (`PP.orderOk`) -/
theorem positions_source_ordered_src (src : Bytes) {tps : List PP} (h : parsePos src = some tps) :
    ∀ tp ∈ tps, tp.sourceOrdered :=
  positions_source_ordered (lexAll_sorted src) h

/-- for every parsed source text: a binary node's operator position lies between the positions
    stored in its operands -/
theorem bin_operator_between_src (src : Bytes) {tps : List PP} (h : parsePos src = some tps) :
    ∀ tp ∈ tps, ∀ op l r p, PP.bin op l r p ∈ tp.nodes →
      (∀ q ∈ l.allPos, q < p) ∧ (∀ q ∈ r.allPos, p < q) :=
  bin_operator_between (lexAll_sorted src) h

/-- non-vacuity: the example text of `C17Tree` parses, so the corollaries apply to it -/
theorem example_src_parses :
    ∃ tps, parsePos (bytesOf "x = a.b[1] + f(k = - 1)[2:]") = some tps ∧ tps ≠ [] := by
  have h : parsePos (bytesOf "x = a.b[1] + f(k = - 1)[2:]") = parsePosItems exItems := by
    show parsePosItems (lexAll _) = _
    rw [exItems_lex]
  rw [h, example_positions]
  exact ⟨_, rfl, by simp⟩

end Platypus.C17Tree
