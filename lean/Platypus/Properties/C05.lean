import Platypus.Model.Lexer
import Platypus.Proofs.LexerCover
/-!
# C05 (lexer part) — the tokens cover the source in order without overlap, skipping only blanks

For every byte string: the lexer terminates on every call (`lexer_total`: the item stream produced
by `lexAll` ends with `EOF` or an `ERROR` diagnostic and is never cut short by the fuel of the
model's loops), every item lies inside the source (`positions_in_source`), and the tokens before
the end cover the source in order without overlap, each spelling exactly the text at its
position, with only blanks (space, tab, CR) between them (`lexer_covers_source`).

The proofs are in `Platypus/Proofs/Lexer{Basic,Number,Inv,Cover}.lean`: an invariant of the state
machine between two items (`Lex.Good`), the shape of a scanned item (`Lex.Res`), a measure
`Lex.mu ≤ 3 * remaining + 2` that decreases on every step that does not scan an item (so the fuel
`4 * remaining + 16` of `nextItem` is never exhausted), and an induction over `items` (every token
is non-empty, so `input.length + 2` calls suffice).
-/
namespace Platypus.C05
open Platypus Platypus.Lex

def isBlank (c : UInt8) : Bool := c == 32 || c == 9 || c == 13

/-- `items` cover `input` from offset `cur`: each token starts at or after `cur` with only blanks
    skipped, spells `input[pos, pos+|val|)`, is non-empty, and the next one starts after it; the
    stream ends with `EOF` at the end of the input (after blanks only) or with an `ERROR` inside it -/
def CoversFrom (input : Bytes) : Nat → List Item → Prop
  | _, [] => False
  | cur, [it] =>
    (it.typ = .EOF ∧ it.pos = input.length ∧ cur ≤ it.pos ∧ ((input.drop cur).take (it.pos - cur)).all isBlank = true) ∨
    (it.typ = .ERROR ∧ cur ≤ it.pos ∧ it.pos ≤ input.length)
  | cur, it :: rest =>
    it.typ ≠ .EOF ∧ it.typ ≠ .ERROR ∧
    cur ≤ it.pos ∧ ((input.drop cur).take (it.pos - cur)).all isBlank = true ∧
    it.val ≠ [] ∧ (input.drop it.pos).take it.val.length = it.val ∧
    CoversFrom input (it.pos + it.val.length) rest

theorem isBlank_eq : isBlank = isBlankByte := rfl

theorem coversFrom_of_covers (input : Bytes) : ∀ (items : List Item) (cur : Nat),
    Covers input cur items → CoversFrom input cur items
  | [], _, h => h.elim
  | [it], _, h => by
    rcases h with h | h
    · exact Or.inl (by rw [isBlank_eq]; exact h)
    · exact Or.inr ⟨h.1, h.2.1, h.2.2.1⟩
  | it :: a :: as, cur, h => by
    obtain ⟨h1, h2, h3, h4, h5, h6, h7⟩ := h
    exact ⟨h1, h2, h3, by rw [isBlank_eq]; exact h4, h5, h6, coversFrom_of_covers input (a :: as) _ h7⟩

theorem lexer_covers_source (input : Bytes) : CoversFrom input 0 (lexAll input) :=
  coversFrom_of_covers input _ _ (lexAll_covers input)

/-- every `NextItem` call returns: the model's loop fuel is never exhausted -/
theorem lexer_total (input : Bytes) :
    ∃ l, (lexAll input).getLast? = some l ∧ (l.typ = .EOF ∨ l.typ = .ERROR) ∧
      ∀ it ∈ lexAll input, ¬ (it.typ = .ERROR ∧ it.val = "fuel".toUTF8.toList) := by
  obtain ⟨l, hl, ht⟩ := covers_last input _ _ (lexAll_covers input)
  refine ⟨l, hl, ht, ?_⟩
  intro it hit ⟨hty, hval⟩
  have := covers_error_len input _ _ (lexAll_covers input) it hit hty
  rw [hval] at this
  exact this fuelMsg_length

theorem positions_in_source (input : Bytes) : ∀ it ∈ lexAll input, it.pos ≤ input.length :=
  covers_pos_le input _ _ (lexAll_covers input)

/-- non-vacuity: the item stream of `a = "x" # c\n` -/
example : (lexAll [97, 32, 61, 32, 34, 120, 34, 32, 35, 32, 99, 10]) =
    [⟨.ID, 0, [97]⟩, ⟨.EQ, 2, [61]⟩, ⟨.STRING, 4, [34, 120, 34]⟩, ⟨.COMMENT, 8, [35, 32, 99]⟩,
     ⟨.EOL, 11, [10]⟩, ⟨.EOF, 12, []⟩] := by
  decide

end Platypus.C05
