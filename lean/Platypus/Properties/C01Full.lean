import Platypus.Properties.C01
import Platypus.Properties.C01Bridge
import Platypus.Properties.C17Runtime
/-!
C01 as one statement: for every script accepted at load time and every well-formed input, a run
(of the v1 interpreter model) returns control with success, or with a reported script error that
names the script and a source position — never with a panic.  (`fuel` / `need` are the model's
"not finished within this fuel" / "an engine answer is missing", not outcomes of the interpreter.)
-/
namespace Platypus.C01
open Platypus Platypus.ErrPos

/-- what the caller of `(*Script).Run` can observe -/
def Returned (env : Env) (name : Bytes) (stmts : List Node) : Res Unit → Prop
  | .ok _ _ => True
  | .err e _ =>
    -- a non-empty chain; rendered first: the script at fault (the running script or one it reaches
    -- through use()) at a stored token position of that script; last: the running script itself
    Located env name (InL stmts) e.chain ∧
    (∃ file p rest, e.chain = (file, p) :: rest ∧
      ((file = name ∧ p ∈ posOfL stmts) ∨ ∃ site cstmts, env.bound site = some (file, cstmts) ∧ p ∈ posOfL cstmts)) ∧
    (∃ pre p, e.chain = pre ++ [(name, p)] ∧ (p ∈ storedOfL stmts ∨ p = Pos.invalid))
  | .panic _ => False
  | .fuel => True
  | .need _ => True

theorem run_returns_success_or_located_error (env : Env) (fuel : Nat) (name : Bytes) (stmts : List Node)
    (w : World) (hc : Checked stmts)
    (hb : ∀ site cname cstmts, env.bound site = some (cname, cstmts) → Checked cstmts)
    (hw : WTState { task := { name := name, scopes := [[]] }, world := w })
    (hi : IntsRepresentable env stmts w) :
    Returned env name stmts (runScript env fuel name stmts w) := by
  have hp := no_panic env fuel name stmts w hc hb hw hi
  cases hr : runScript env fuel name stmts w with
  | ok a s => trivial
  | err e s =>
    exact ⟨C17.runtime_error_located env fuel name stmts w e s hr,
      C17.runtime_error_root_cause env fuel name stmts w e s hr,
      C17.runtime_error_position_is_token env fuel name stmts w e s hr⟩
  | panic m => rw [hr] at hp; cases hp
  | fuel => trivial
  | need q => trivial

/-- the property as it reads: a script that the load-time check accepted (together with every
    script bound to one of its use() sites), on any well-formed point -/
theorem accepted_script_returns_success_or_located_error (env : Env) (fuel cf : Nat) (name : Bytes)
    (stmts : List Node) (w : World) (st : CheckSt)
    (hacc : checkScript cf env.oracle env.fns name stmts = .ok () st)
    (hb : ∀ site cname cstmts, env.bound site = some (cname, cstmts) →
      ∃ cf' st', checkScript cf' env.oracle env.fns cname cstmts = .ok () st')
    (hw : WTState { task := { name := name, scopes := [[]] }, world := w })
    (hi : IntsRepresentable env stmts w) :
    Returned env name stmts (runScript env fuel name stmts w) :=
  run_returns_success_or_located_error env fuel name stmts w
    (checked_of_accepted cf env.oracle env.fns name stmts st hacc)
    (fun site cname cstmts hbd => by
      obtain ⟨cf', st', h⟩ := hb site cname cstmts hbd
      exact checked_of_accepted cf' env.oracle env.fns cname cstmts st' h)
    hw hi

/-- non-vacuity: the example script of `no_panic` on its example world -/
example (fuel : Nat) : Returned exEnv [] exScript (runScript exEnv fuel [] exScript exWorld) :=
  run_returns_success_or_located_error exEnv fuel [] exScript exWorld exScript_checked
    (fun _ _ _ h => by simp [exEnv] at h) exWorld_wt exInputs

end Platypus.C01
