import Platypus.Proofs.ElabParseShape
import Platypus.Proofs.ElabShapeTargets
import Platypus.Proofs.ElabSites
import Platypus.Proofs.ElabUnposThm
import Platypus.Proofs.ElabPosFacts
import Platypus.Proofs.ElabKernelRfl
import Platypus.Properties.C17Tree
import Platypus.Properties.C17Sorted
import Platypus.Properties.C06
import Platypus.Properties.C03Scope
import Platypus.Properties.C14PrefixV2
/-!
# The front end: from source text to the tree the interpreters walk

`Elab.elabSource pf src site0` (`Platypus/Model/Elab.lean`) is the whole front end: lexer, parser
(`ParsePos.parsePos`) and the constructor functions of `parser.go` (`Elab.toNodes`).  This file
connects it to the evaluator theorems, which are stated for arbitrary `Node` lists under *shape*
hypotheses.  For EVERY source text:

* **A** (`parsePos_shape`): the parser never nests a statement in an expression — every tree it
  returns is `stmtOk`: `if`/`for`/`for-in`/`break`/`continue` occur only in statement position.
* **B** (`elab_prog`, `elab_shaped`, `elab_noStmtInExpr`): elaboration keeps that shape, so the
  elaborated statement list satisfies `C03.Prog`, `C03.ShapedL` and `C14V2.NoStmtInExpr`; the headline
  theorems of C03 (scopes), C03 (break/continue refinement) and C14 (signal, v2) are restated for
  `stmts` obtained from `elabSource` without any shape hypothesis.
* **C** (`elab_sites`, …): the call expressions are numbered `site0+1, …, site0+k` in walking order
  (a call before its arguments, children left to right): pairwise distinct, all `> site0`, and the
  returned counter is `site0 + k`.
* **D** (`elab_positions`, `elab_elseLess`): every stored `Pos` is `(offset, line, column)` of the
  offset of an item the lexer produced, with line and column as specified by `LnCol.spec`
  (the position cache cannot fail on them); the only exception is the `ElsePos` of an `if` without
  `else`, which is the literal `⟨0, 0, 0⟩`.
* **E** (`toNode_unpos_partial`, `elab_depends_on_parse`, …): with the positions forgotten (`unpos`) the
  elaborated tree is a function (`ofPTs`) of the position-free parse tree; hence layout and comments
  do not influence it (`elabItems_layout_irrelevant`, `elabItems_comments_irrelevant`).
* **F**: a concrete script, by evaluation in the kernel.

Helper files: `Platypus/Proofs/Elab*.lean`.  `Elab.toNode` has no generated equation lemmas (Lean
fails on its `ifelse` case); `Platypus/Proofs/ElabInv.lean` states them (`rfl`) with inversions.
-/
namespace Platypus.FrontEnd
open Platypus Platypus.Elab Platypus.ParsePos Platypus.Parse Platypus.ScopeProofs
open Platypus.Lex (Tok Item)

/-! ## A. the shape of the parser's output -/

/-- **Statement nodes occur only in statement position**: in every tree the position-carrying parser
    returns, conditions, loop headers, iterables, operands, arguments, … contain no
    `if`/`for`/`for-in`/`break`/`continue` node, and blocks are lists of such trees. -/
theorem parsePos_shape {its : List Item} {tps : List PP} (h : parsePosItems its = some tps) :
    ∀ p ∈ tps, stmtOk p = true :=
  parsePosItems_shape h

/-- the same for the parser on source text -/
theorem parsePos_shape_src {src : Bytes} {tps : List PP} (h : parsePos src = some tps) :
    ∀ p ∈ tps, stmtOk p = true :=
  parsePosItems_shape h

/-- list form -/
theorem parsePos_shapeL {its : List Item} {tps : List PP} (h : parsePosItems its = some tps) :
    stmtOkL tps = true :=
  stmtOkL_iff.2 (parsePos_shape h)

/-! ## B. elaboration preserves the shape -/

/-- elaborating an expression tree (no statement node anywhere) gives a statement-free `Node` -/
theorem toNode_sfree {c : Cfg} {p : PP} {n : Nat} {x : Node} {n' : Nat} (hp : exprOk p = true)
    (h : toNode c p n = some (x, n')) : SFree x :=
  toNode_sfreeAux c p n x n' hp h

/-- … and a list of expression trees gives statement-free nodes -/
theorem toNodes_sfree {c : Cfg} {ps : List PP} {n : Nat} {xs : List Node} {n' : Nat}
    (hp : ∀ p ∈ ps, exprOk p = true) (h : toNodes c ps n = some (xs, n')) : ∀ x ∈ xs, SFree x :=
  toNodes_sfreeAux c ps n xs n' (exprOkL_iff.2 hp) h

/-- elaborating a grammar-shaped statement tree gives a grammar-shaped `Node` (`GStmt`: every
    expression slot statement-free, every block grammar-shaped) -/
theorem toNode_gstmt {c : Cfg} {p : PP} {n : Nat} {x : Node} {n' : Nat} (hp : stmtOk p = true)
    (h : toNode c p n = some (x, n')) : GStmt x :=
  toNode_gstmtAux c p n x n' hp h

/-- … list form -/
theorem toNodes_gstmt {c : Cfg} {ps : List PP} {n : Nat} {xs : List Node} {n' : Nat}
    (hp : ∀ p ∈ ps, stmtOk p = true) (h : toNodes c ps n = some (xs, n')) : ∀ x ∈ xs, GStmt x :=
  toNodes_gstmtAux c ps n xs n' (stmtOkL_iff.2 hp) h

/-- elaborating a grammar-shaped statement tree gives a program in the sense of C03 (scopes) -/
theorem toNode_prog {c : Cfg} {p : PP} {n : Nat} {x : Node} {n' : Nat} (hp : stmtOk p = true)
    (h : toNode c p n = some (x, n')) : C03.Prog x :=
  (toNode_gstmt hp h).prog

/-- … list form -/
theorem toNodes_prog {c : Cfg} {ps : List PP} {n : Nat} {xs : List Node} {n' : Nat}
    (hp : ∀ p ∈ ps, stmtOk p = true) (h : toNodes c ps n = some (xs, n')) : ∀ x ∈ xs, C03.Prog x :=
  fun x hx => (toNodes_gstmt hp h x hx).prog

/-- a grammar-shaped statement list elaborates to a `Shaped` list (C03, break/continue machine) -/
theorem toNodes_shaped {c : Cfg} {ps : List PP} {n : Nat} {xs : List Node} {n' : Nat}
    (hp : ∀ p ∈ ps, stmtOk p = true) (h : toNodes c ps n = some (xs, n')) : C03.ShapedL xs :=
  gstmt_shapedL (toNodes_gstmt hp h)

/-- a grammar-shaped statement list elaborates to a list the checker of C14 (v2) accepts -/
theorem toNodes_noStmtInExpr {c : Cfg} {ps : List PP} {n : Nat} {xs : List Node} {n' : Nat}
    (hp : ∀ p ∈ ps, stmtOk p = true) (h : toNodes c ps n = some (xs, n')) : C14V2.NoStmtInExpr xs :=
  gstmt_noStmtInExpr (toNodes_gstmt hp h)

/-- what a successful run of the front end consists of: the parser's trees and their elaboration,
    with the final value of the call counter -/
theorem elabSource_inv {pf : Bytes → Option UInt64} {src : Bytes} {s0 : Nat} {ns : List Node}
    (h : elabSource pf src s0 = some ns) :
    ∃ pps n', parsePos src = some pps ∧ toNodes ⟨src, pf⟩ pps s0 = some (ns, n') := by
  unfold elabSource at h
  split at h
  · cases h
  · rename_i pps hp
    rcases ht : toNodes ⟨src, pf⟩ pps s0 with _ | ⟨xs, n'⟩
    · rw [ht] at h; cases h
    · rw [ht] at h; cases h; exact ⟨pps, n', hp, ht⟩

/-- **every elaborated script is grammar-shaped** (the strongest form) -/
theorem elab_gstmt {pf : Bytes → Option UInt64} {src : Bytes} {s0 : Nat} {ns : List Node}
    (h : elabSource pf src s0 = some ns) : ∀ n ∈ ns, GStmt n := by
  obtain ⟨pps, n', hp, ht⟩ := elabSource_inv h
  exact toNodes_gstmt (parsePos_shape_src hp) ht

/-- **every elaborated script is a program in the sense of C03 (scopes)**: every expression the
    machine hands to the evaluator is statement-free, recursively through `if`, `for`, `for-in` -/
theorem elab_prog {pf : Bytes → Option UInt64} {src : Bytes} {s0 : Nat} {ns : List Node}
    (h : elabSource pf src s0 = some ns) : ∀ n ∈ ns, C03.Prog n :=
  fun n hn => (elab_gstmt h n hn).prog

/-- **every elaborated script is `Shaped`** (C03: conditions, for-clauses and iterables are
    expression nodes) -/
theorem elab_shaped {pf : Bytes → Option UInt64} {src : Bytes} {s0 : Nat} {ns : List Node}
    (h : elabSource pf src s0 = some ns) : C03.ShapedL ns :=
  gstmt_shapedL (elab_gstmt h)

/-- **every elaborated script passes the checker of C14 (v2)**: `if`/`for` nodes occur only in
    statement position -/
theorem elab_noStmtInExpr {pf : Bytes → Option UInt64} {src : Bytes} {s0 : Nat} {ns : List Node}
    (h : elabSource pf src s0 = some ns) : C14V2.NoStmtInExpr ns :=
  gstmt_noStmtInExpr (elab_gstmt h)

/-! ### the evaluator theorems for scripts that come from source text (no shape hypothesis) -/

section consequences
variable {pf : Bytes → Option UInt64} {src : Bytes} {s0 : Nat} {stmts : List Node}
variable (he : elabSource pf src s0 = some stmts)
include he

/-- C03: a whole script that came from source text, run by the v1 machine over the real evaluator,
    ends with exactly one scope -/
theorem elab_script_keeps_one_scope (env : Env) (fuel : Nat) (name : Bytes) (w : World) (s' : St) (u : Unit)
    (h : runScript env fuel name stmts w = .ok u s') : s'.task.scopes.length = 1 :=
  C03.script_keeps_one_scope env fuel name stmts w (elab_prog he) s' u h

/-- C03: run as a block (`{ … }`), the statements of a script that came from source text leave every
    scope with exactly the names it had: block-local variables vanish at block exit -/
theorem elab_block_exit_drops_locals (env : Env) (g f : Nat) (s s' : St) (u : Unit)
    (h : C03.runBlockU env (evalNode env g) f stmts s = .ok u s') :
    KeysEq s.task.scopes s'.task.scopes ∧ s'.task.scopes.length = s.task.scopes.length ∧
      ∀ k, scopeGet s'.task.scopes k = none ↔ scopeGet s.task.scopes k = none :=
  C03.block_exit_drops_locals_eval env g f stmts (elab_prog he) s s' u h

/-- C03: every `if`/`for`/`for-in` statement of a script that came from source text leaves every
    scope with exactly the names it had -/
theorem elab_stmt_exit_drops_locals (env : Env) (g f : Nat) (n : Node) (hn : n ∈ stmts)
    (hs : isStmt n = true) (s s' : St) (v : TV)
    (h : runStmt env (evalNode env g) (f+1) n s = .ok v s') : KeysEq s.task.scopes s'.task.scopes :=
  C03.stmt_exit_drops_locals_eval env g f n (elab_prog he n hn) hs s s' v h

/-- C03: on a script that came from source text the flag machine (break/continue/exit flags) refines
    the outcome semantics, and never ends with both flags pending -/
theorem elab_flags_refine_outcomes (env : Env) (ev : Node → EM TV) (hev : C03.EvFrame ev) (f : Nat)
    (s : St) (hs : C03.Clear s) :
    Sem.semStmts env ev f stmts s = Sem.absU (runStmts env ev f stmts s) ∧
      C03.FlagsOk (runStmts env ev f stmts s) :=
  (C03.flags_refine_outcomes env ev hev f).2 stmts s (elab_shaped he) hs

/-- C14 (v2), effects prefix: for a script that came from source text, the trace of the run
    interrupted at poll `k` is a suffix (newest first: a prefix in time) of the trace of the run
    interrupted later or never -/
theorem elab_effects_prefix_v2 (env : Env) (k : Nat) (later : Option Nat) (hl : ∀ k', later = some k' → k ≤ k')
    (fuel : Nat) (name : Bytes) (w : World) (sK sL : St)
    (hK : C14.EndsIn (V2.runScript2 (SignalProofs.withSig env (some k)) fuel name stmts w) sK)
    (hL : C14.EndsIn (V2.runScript2 (SignalProofs.withSig env later) fuel name stmts w) sL) :
    sK.world.trace <:+ sL.world.trace :=
  C14V2.effects_prefix_v2 env k later hl fuel name stmts w (elab_noStmtInExpr he) sK sL hK hL

/-- C14 (v2), returns without error: if the signal was observed during the run of a script that came
    from source text, the run's result is ok -/
theorem elab_observed_implies_ok_v2 (env : Env) (k fuel : Nat) (name : Bytes) (w : World) (sK : St)
    (hK : C14.EndsIn (V2.runScript2 (SignalProofs.withSig env (some k)) fuel name stmts w) sK)
    (hobs : k ≤ sK.world.polls) :
    V2.runScript2 (SignalProofs.withSig env (some k)) fuel name stmts w = .ok () sK :=
  C14V2.observed_implies_ok_v2 env k fuel name stmts w (elab_noStmtInExpr he) sK hK hobs

/-- C14 (v2): an error of the interrupted run is not produced by the observation — the other run
    raises the same error in the same state -/
theorem elab_error_not_from_observation_v2 (env : Env) (k : Nat) (later : Option Nat)
    (hl : ∀ k', later = some k' → k ≤ k') (fuel : Nat) (name : Bytes) (w : World) (e : PlErr) (sK : St)
    (hK : V2.runScript2 (SignalProofs.withSig env (some k)) fuel name stmts w = .err e sK) :
    V2.runScript2 (SignalProofs.withSig env later) fuel name stmts w = .err e sK :=
  C14V2.error_not_from_observation_v2 env k later hl fuel name stmts w (elab_noStmtInExpr he) e sK hK

/-- C14 (v2): a script error of the interrupted run is raised before the observation -/
theorem elab_error_before_observation_v2 (env : Env) (k fuel : Nat) (name : Bytes) (w : World) (e : PlErr)
    (sK : St) (hK : V2.runScript2 (SignalProofs.withSig env (some k)) fuel name stmts w = .err e sK) :
    sK.world.polls < k :=
  C14V2.error_before_observation_v2 env k fuel name stmts w (elab_noStmtInExpr he) e sK hK

end consequences

/-! ## C. the numbering of call expressions -/

/-- the number of call expressions in a statement list -/
def callCount (ns : List Node) : Nat := (sitesOfL ns).length

/-- elaborating one tree with the counter at `n`: the call sites of the result, in walking order,
    are exactly `n+1, …, n'`, where `n'` is the returned counter (in particular `n ≤ n'`) -/
theorem toNode_sites {c : Cfg} {p : PP} {n : Nat} {x : Node} {n' : Nat} (h : toNode c p n = some (x, n')) :
    n ≤ n' ∧ sitesOf x = List.range' (n + 1) (n' - n) :=
  toNode_sitesAux c p n x n' h

/-- … and a list of trees -/
theorem toNodes_sites {c : Cfg} {ps : List PP} {n : Nat} {xs : List Node} {n' : Nat}
    (h : toNodes c ps n = some (xs, n')) : n ≤ n' ∧ sitesOfL xs = List.range' (n + 1) (n' - n) :=
  toNodes_sitesAux c ps n xs n' h

/-- **call sites are numbered consecutively from `s0 + 1` in walking order**, and the counter the
    elaboration returns is `s0 +` the number of calls -/
theorem elab_sites_counter {pf : Bytes → Option UInt64} {src : Bytes} {s0 : Nat} {ns : List Node}
    (h : elabSource pf src s0 = some ns) :
    sitesOfL ns = List.range' (s0 + 1) (callCount ns) ∧
      ∃ pps, parsePos src = some pps ∧ toNodes ⟨src, pf⟩ pps s0 = some (ns, s0 + callCount ns) := by
  obtain ⟨pps, n', hp, ht⟩ := elabSource_inv h
  obtain ⟨hle, hs⟩ := toNodes_sites ht
  have hk : callCount ns = n' - s0 := by unfold callCount; rw [hs]; simp
  refine ⟨by rw [hk]; exact hs, pps, hp, ?_⟩
  rw [ht, hk]
  congr 2; omega

/-- **the sites of an elaborated script are `s0+1, …, s0+k`**, `k` the number of calls -/
theorem elab_sites {pf : Bytes → Option UInt64} {src : Bytes} {s0 : Nat} {ns : List Node}
    (h : elabSource pf src s0 = some ns) : sitesOfL ns = List.range' (s0 + 1) (callCount ns) :=
  (elab_sites_counter h).1

/-- the call sites of an elaborated script are pairwise distinct -/
theorem elab_sites_nodup {pf : Bytes → Option UInt64} {src : Bytes} {s0 : Nat} {ns : List Node}
    (h : elabSource pf src s0 = some ns) : (sitesOfL ns).Nodup := by
  rw [elab_sites h]; exact List.nodup_range'

/-- every call site of an elaborated script is larger than the start value, and at most
    `s0 +` the number of calls -/
theorem elab_sites_gt {pf : Bytes → Option UInt64} {src : Bytes} {s0 : Nat} {ns : List Node}
    (h : elabSource pf src s0 = some ns) : ∀ s ∈ sitesOfL ns, s0 < s ∧ s ≤ s0 + callCount ns := by
  intro s hs
  rw [elab_sites h] at hs
  have := List.mem_range'_1.1 hs
  omega

/-- the counter threaded through the elaboration ends at `s0 +` the number of calls -/
theorem elab_counter {pf : Bytes → Option UInt64} {src : Bytes} {s0 : Nat} {ns : List Node}
    (h : elabSource pf src s0 = some ns) :
    ∃ pps, parsePos src = some pps ∧ toNodes ⟨src, pf⟩ pps s0 = some (ns, s0 + callCount ns) :=
  (elab_sites_counter h).2

/-! ## D. positions -/

/-- the stored positions of an elaborated tree are, in order, the `mkPos` of the offsets stored in
    the parser tree -/
theorem toNodes_allPos {c : Cfg} {ps : List PP} {n : Nat} {xs : List Node} {n' : Nat}
    (h : toNodes c ps n = some (xs, n')) : allPosOfL xs = (posOfL ps).map (mkPos c.src) :=
  toNodes_allPosAux c ps n xs n' h

/-- what the position cache gives for an offset inside the text (`≤` its length — one past the last
    byte included): it cannot fail, and answers the line and the 1-based byte column of the
    specification `LnCol.spec` -/
theorem mkPos_in_text (src : Bytes) (q : Nat) (h : q ≤ src.length) :
    ∃ lc, LnCol.spec src q = some lc ∧ LnCol.cacheLnCol src q = some lc ∧ mkPos src q = ⟨q, lc.ln, lc.col⟩ :=
  mkPos_eq_spec src q h

/-- every offset stored in a tree the parser returns for a source text — token positions and the
    start positions of attribute expressions — is the offset of an item of the lexer's output -/
theorem parsePos_offsets {src : Bytes} {pps : List PP} (h : parsePos src = some pps) :
    ∀ q ∈ posOfL pps, ∃ i ∈ Lex.lexAll src, i.pos = q :=
  parsePosItems_posOf h

/-- **every stored position is the offset, line and column of a token**: for every `Pos` stored
    anywhere in an elaborated script (the `ElsePos` of an else-less `if` excepted, see
    `elab_elseLess`) there is an item of the lexer's output at that offset; the offset lies in the
    text, the position cache does not fail on it, and line and column are those of `LnCol.spec`:
    line = 1 + number of newlines before the offset, column = 1 + number of bytes since the last
    newline.  (The bound on item offsets is `C05.positions_in_source`.) -/
theorem elab_positions {pf : Bytes → Option UInt64} {src : Bytes} {s0 : Nat} {ns : List Node}
    (h : elabSource pf src s0 = some ns) :
    ∀ P ∈ allPosOfL ns, ∃ i ∈ Lex.lexAll src, P.pos = i.pos ∧ i.pos ≤ src.length ∧
      ∃ lc, LnCol.spec src i.pos = some lc ∧ LnCol.cacheLnCol src i.pos = some lc ∧
        P = ⟨i.pos, lc.ln, lc.col⟩ ∧
        lc.ln = 1 + (src.take i.pos).count LnCol.NL ∧ lc.col = 1 + LnCol.trail (src.take i.pos) := by
  obtain ⟨pps, n', hp, ht⟩ := elabSource_inv h
  intro P hP
  rw [toNodes_allPos ht] at hP
  obtain ⟨q, hq, rfl⟩ := List.mem_map.1 hP
  obtain ⟨i, hi, rfl⟩ := parsePos_offsets hp q hq
  have hb := C05.positions_in_source src i hi
  refine ⟨i, hi, ?_, hb, ?_⟩
  · show (mkPos src i.pos).pos = i.pos
    rw [mkPos_spec src i.pos hb]
  · obtain ⟨lc, h1, h2, h3⟩ := mkPos_eq_spec src i.pos hb
    refine ⟨lc, h1, h2, h3, ?_⟩
    have : LnCol.spec src i.pos =
        some ⟨1 + (src.take i.pos).count LnCol.NL, 1 + LnCol.trail (src.take i.pos)⟩ := by
      unfold LnCol.spec
      have : ¬ ((i.pos : Int) < 0 ∨ (i.pos : Int) > (src.length : Int)) := by omega
      simp only [this, ↓reduceIte, Int.toNat_natCast]
    rw [this] at h1
    cases h1
    exact ⟨rfl, rfl⟩

/-- in particular no stored position of an elaborated script is the invalid position -/
theorem elab_positions_valid {pf : Bytes → Option UInt64} {src : Bytes} {s0 : Nat} {ns : List Node}
    (h : elabSource pf src s0 = some ns) : ∀ P ∈ allPosOfL ns, P ≠ Pos.invalid := by
  intro P hP hinv
  obtain ⟨i, _, hpos, _⟩ := elab_positions h P hP
  rw [hinv] at hpos
  simp only [Pos.invalid] at hpos
  omega

/-- **the `ElsePos` of every `if` without `else` is the literal `⟨0, 0, 0⟩`** (`newIfElifStmt` leaves
    the field zero: it is a valid-looking position that does not come from a token) -/
theorem elab_elseLess {pf : Bytes → Option UInt64} {src : Bytes} {s0 : Nat} {ns : List Node}
    (h : elabSource pf src s0 = some ns) : ∀ P ∈ elseLessL ns, P = ⟨0, 0, 0⟩ := by
  obtain ⟨pps, n', _, ht⟩ := elabSource_inv h
  exact toNodes_elseLessAux ⟨src, pf⟩ pps s0 ns n' ht

/-! ## E. layout independence of the evaluated tree -/

/-- the front end on an item list (positions are looked up in `c.src`) -/
def elabItems (c : Cfg) (its : List Item) (site0 : Nat := 0) : Option (List Node) :=
  match parsePosItems its with
  | none => none
  | some pps => (toNodes c pps site0).map (·.1)

/-- `elabSource` is `elabItems` on the lexer's output -/
theorem elabSource_eq_elabItems (pf : Bytes → Option UInt64) (src : Bytes) (s0 : Nat) :
    elabSource pf src s0 = elabItems ⟨src, pf⟩ (Lex.lexAll src) s0 := rfl

/-- **the position-free elaborated tree is a function of the position-free parse tree**: forgetting
    the positions after elaborating `pp` is elaborating (`ofPT`) the erased tree `pp.erase`, with the
    same call counter; both fail together.  Hypothesis: index expressions of `pp` have one `[` and one
    `]` per index (`C17Tree.shapes` gives this for every tree the parser returns). -/
theorem toNode_unpos_partial {c : Cfg} {pp : PP} (n : Nat) (hs : ∀ m ∈ pp.nodes, m.shapeOk) :
    (toNode c pp n).map (fun r => (unpos r.1, r.2)) = ofPT c.pf pp.erase n :=
  toNode_unposAux c pp n hs

/-- the shape hypothesis of `toNode_unpos_partial` cannot be dropped: a (never parsed) index
    expression with a `[` but no index keeps its one bracket position under `unpos`, while the erased
    tree has forgotten how many brackets there were -/
theorem toNode_unpos_needs_shape :
    (toNode ⟨[], fun _ => none⟩ (.index none [] [0] []) 0).map (fun r => (unpos r.1, r.2)) ≠
      ofPT (fun _ => none) (PP.index none [] [0] []).erase 0 := by
  intro h
  have h1 : toNode ⟨[], fun _ => none⟩ (.index none [] [0] []) 0 =
      some (.index none [] [mkPos [] 0] [], 0) := rfl
  have h2 : ofPT (fun _ => none) (PP.index none [] [0] []).erase 0 = some (.index none [] [] [], 0) := rfl
  rw [h1, h2] at h
  simp [unpos] at h

/-- … list form -/
theorem toNodes_unpos_partial {c : Cfg} {pps : List PP} (n : Nat) (hs : ∀ pp ∈ pps, ∀ m ∈ pp.nodes, m.shapeOk) :
    (toNodes c pps n).map (fun r => (r.1.map unpos, r.2)) = ofPTs c.pf (pps.map PP.erase) n := by
  have := toNodes_unposAux c pps n hs
  rw [eraseL_eq] at this
  rw [← this]
  cases toNodes c pps n with
  | none => rfl
  | some r => simp [UL, unposL_eq_map]

/-- the front end on items, positions forgotten, is the model parser followed by `ofPTs` -/
theorem elabItems_unpos (c : Cfg) (its : List Item) (s0 : Nat) :
    (elabItems c its s0).map (List.map unpos) =
      (parseItems its).bind fun ss => (ofPTs c.pf ss s0).map (·.1) := by
  rw [C17Tree.parse_eq_erase]
  unfold elabItems
  cases hp : parsePosItems its with
  | none => rfl
  | some pps =>
    have hs : ∀ pp ∈ pps, ∀ m ∈ pp.nodes, m.shapeOk := C17Tree.shapes hp
    simp only [Option.map_some, Option.bind_some]
    rw [← toNodes_unpos_partial s0 hs]
    cases toNodes c pps s0 with
    | none => rfl
    | some r => rfl

/-- the front end on source text, positions forgotten, is `Parse.parse` followed by `ofPTs` -/
theorem elabSource_unpos (pf : Bytes → Option UInt64) (src : Bytes) (s0 : Nat) :
    (elabSource pf src s0).map (List.map unpos) =
      (Parse.parse src).bind fun ss => (ofPTs pf ss s0).map (·.1) :=
  elabItems_unpos ⟨src, pf⟩ (Lex.lexAll src) s0

/-- **two source texts with the same (position-free) parse elaborate to the same tree up to
    positions** — same literals, same names, same call numbering; they are accepted or rejected
    together -/
theorem elab_depends_on_parse (pf : Bytes → Option UInt64) {src1 src2 : Bytes} (s0 : Nat)
    (h : Parse.parse src1 = Parse.parse src2) :
    (elabSource pf src1 s0).map (List.map unpos) = (elabSource pf src2 s0).map (List.map unpos) := by
  rw [elabSource_unpos, elabSource_unpos, h]

/-- a source text whose items spell the trees `ss` (C06, any admissible layout) elaborates, up to
    positions, to the elaboration of `ss` -/
theorem elab_of_spelling (pf : Bytes → Option UInt64) {src : Bytes} {ss : List PT} (s0 : Nat)
    (h : PProg ss (Lex.lexAll src)) :
    (elabSource pf src s0).map (List.map unpos) = (ofPTs pf ss s0).map (·.1) := by
  rw [elabSource_unpos]
  show (parseItems (Lex.lexAll src)).bind _ = _
  rw [C06.parse_print ss _ h]
  rfl

/-- **layout is irrelevant**: two item lists that are spellings of the same trees (line ends,
    separator runs, any admissible layout) elaborate to the same position-free `Node` list, whatever
    texts the positions are looked up in -/
theorem elabItems_layout_irrelevant {c c' : Cfg} (hpf : c.pf = c'.pf) {ss : List PT} {ts ts' : List Item}
    (s0 : Nat) (h : PProg ss ts) (h' : PProg ss ts') :
    (elabItems c ts s0).map (List.map unpos) = (elabItems c' ts' s0).map (List.map unpos) := by
  rw [elabItems_unpos, elabItems_unpos, C06.layout_irrelevant h h', hpf]

/-- … for source texts -/
theorem elab_layout_irrelevant (pf : Bytes → Option UInt64) {src1 src2 : Bytes} {ss : List PT} (s0 : Nat)
    (h1 : PProg ss (Lex.lexAll src1)) (h2 : PProg ss (Lex.lexAll src2)) :
    (elabSource pf src1 s0).map (List.map unpos) = (elabSource pf src2 s0).map (List.map unpos) := by
  rw [elab_of_spelling pf s0 h1, elab_of_spelling pf s0 h2]

/-- **comments are irrelevant**: removing (or inserting) COMMENT items changes nothing but
    positions -/
theorem elabItems_comments_irrelevant {c c' : Cfg} (hpf : c.pf = c'.pf) (ts : List Item) (s0 : Nat) :
    (elabItems c (ts.filter fun i => i.typ ≠ .COMMENT) s0).map (List.map unpos) =
      (elabItems c' ts s0).map (List.map unpos) := by
  rw [elabItems_unpos, elabItems_unpos, C06.comments_irrelevant, hpf]

/-! ## F. non-vacuity: a concrete script, evaluated by the kernel -/

namespace Example

/-- two statements: an assignment with nested calls, an `if` without `else` on the second line -/
def src : Bytes := bytesOf "x = f(1, g(2))\nif x { y = [1, 2.5] }\n"
/-- the same program in another layout, with a comment -/
def src2 : Bytes := bytesOf "x=f(1,\n  g(2)) # c\n\nif x {\n y = [ 1 , 2.5 ] ; }"
/-- an oracle for `strconv.ParseFloat`: every float literal is `2.5` -/
def pf : Bytes → Option UInt64 := fun _ => some 4612811918334230528

/-- the expected tree: sites 1 (`f`) and 2 (`g`), the `if` on line 2, its `ElsePos` zero -/
def tree : List Node :=
  [.assign .eq [.ident [120] ⟨0, 1, 1⟩]
     [.call [102]
        [.intLit 1 ⟨6, 1, 7⟩,
         .call [103] [.intLit 2 ⟨11, 1, 12⟩] ⟨9, 1, 10⟩ ⟨10, 1, 11⟩ ⟨12, 1, 13⟩ 2]
        ⟨4, 1, 5⟩ ⟨5, 1, 6⟩ ⟨13, 1, 14⟩ 1]
     ⟨2, 1, 3⟩,
   .ifelse
     [(.ident [120] ⟨18, 2, 4⟩,
       some [.assign .eq [.ident [121] ⟨22, 2, 8⟩]
          [.list [.intLit 1 ⟨27, 2, 13⟩, .floatLit 4612811918334230528 ⟨30, 2, 16⟩] ⟨26, 2, 12⟩ ⟨33, 2, 19⟩]
          ⟨24, 2, 10⟩],
       ⟨15, 2, 1⟩)]
     none ⟨0, 0, 0⟩]

/-- the front end on the example text returns exactly `tree` (checked by the kernel) -/
theorem elab_example : elabSource pf src = some tree := by kernel_rfl

/-- numbered from 10: the sites are 11 and 12 -/
theorem elab_example_from_10 : (elabSource pf src 10).map sitesOfL = some [11, 12] := by decide +kernel

/-- the call sites, in walking order -/
theorem example_sites : sitesOfL tree = [1, 2] := by decide +kernel
theorem example_callCount : callCount tree = 2 := by decide +kernel

/-- all stored positions, in order (the `if` keyword: offset 15 = line 2, column 1) -/
theorem example_positions : allPosOfL tree =
    [⟨2, 1, 3⟩, ⟨0, 1, 1⟩, ⟨4, 1, 5⟩, ⟨5, 1, 6⟩, ⟨13, 1, 14⟩, ⟨6, 1, 7⟩, ⟨9, 1, 10⟩, ⟨10, 1, 11⟩, ⟨12, 1, 13⟩,
     ⟨11, 1, 12⟩, ⟨15, 2, 1⟩, ⟨18, 2, 4⟩, ⟨24, 2, 10⟩, ⟨22, 2, 8⟩, ⟨26, 2, 12⟩, ⟨33, 2, 19⟩, ⟨27, 2, 13⟩,
     ⟨30, 2, 16⟩] := by decide +kernel
theorem example_elseLess : elseLessL tree = [⟨0, 0, 0⟩] := by decide +kernel

/-- the hypotheses of A–E are met by the example: it parses … -/
theorem example_parses : ∃ pps n', parsePos src = some pps ∧ toNodes ⟨src, pf⟩ pps 0 = some (tree, n') :=
  elabSource_inv elab_example

/-- … so the theorems apply: shape (B) -/
theorem example_prog : ∀ n ∈ tree, C03.Prog n := elab_prog elab_example
theorem example_shaped : C03.ShapedL tree := elab_shaped elab_example
theorem example_noStmtInExpr : C14V2.NoStmtInExpr tree := elab_noStmtInExpr elab_example

/-- numbering (C), as the general theorem gives it -/
theorem example_sites' : sitesOfL tree = List.range' 1 (callCount tree) := elab_sites elab_example

/-- positions (D), as the general theorem gives it: e.g. the `if` keyword -/
theorem example_if_pos : ∃ i ∈ Lex.lexAll src, i.pos = 15 ∧ LnCol.spec src 15 = some ⟨2, 1⟩ := by
  obtain ⟨i, hi, hpos, _, lc, hs, _, hP, _⟩ :=
    elab_positions elab_example ⟨15, 2, 1⟩ (by rw [example_positions]; decide)
  have h15 : i.pos = 15 := by
    have : ((15 : Int)) = (i.pos : Int) := hpos
    omega
  refine ⟨i, hi, h15, ?_⟩
  rw [h15] at hs hP
  have : lc = ⟨2, 1⟩ := by
    cases lc with
    | mk ln col =>
      simp only [Pos.mk.injEq] at hP
      have h1 : (ln : Int) = 2 := hP.2.1.symm
      have h2 : (col : Int) = 1 := hP.2.2.symm
      congr <;> omega
  rw [this] at hs
  exact hs

/-- the position-free parse of the example -/
def ptree : List PT :=
  [.assign .eq [.ident false [120]]
     [.call false [102] [.num false [49], .call false [103] [.num false [50]]]],
   .ifelse [(.ident false [120],
      [.assign .eq [.ident false [121]] [.list [.num false [49], .num false [50, 46, 53]]]])] none]

theorem example_parse : Parse.parse src = some ptree := by kernel_rfl
theorem example_parse2 : Parse.parse src2 = some ptree := by kernel_rfl

/-- layout (E): the second text has the same position-free parse … -/
theorem example_same_parse : Parse.parse src2 = Parse.parse src := by rw [example_parse, example_parse2]

/-- … hence the same tree up to positions (here: by the general theorem) -/
theorem example_layout :
    (elabSource pf src2).map (List.map unpos) = some (tree.map unpos) := by
  rw [elab_depends_on_parse pf 0 example_same_parse, elab_example]
  rfl

/-- rejected scripts: a syntax error; a float literal `ParseFloat` refuses -/
theorem example_syntax_error : elabSource pf (bytesOf "x = ") = none := by kernel_rfl
theorem example_float_refused : elabSource (fun _ => none) src = none := by kernel_rfl

end Example

end Platypus.FrontEnd
