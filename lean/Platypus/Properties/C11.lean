import Platypus.Model.Eval
import Platypus.Proofs.Point
/-!
# C11 — field-manipulating builtins: contracts and frame

Theorems about the model of the builtins (`Eval.builtin`) and of the point operations they issue:
what is read (variable first, else point; `get_key`/`drop_key`/`rename` the point only), where the
result goes, that a missing subject is a silent no-op (`set_tag` alone creates an empty tag), that
every other key of the point is untouched (frame), and that the return registers are always
cleared after a call (no value leaks into a later call).
-/
namespace Platypus.C11
open Platypus

/-! ## frame of the point operations: keys other than the destination read the same -/

theorem get_set_other (pt : Point) (k k' : Bytes) (x : TV) (cs : Option Bytes) (h : k' ≠ k) :
    (pt.set k x cs).get k' = pt.get k' := by
  unfold Point.set Point.get
  cases hk : alookup k pt.idx with
  | none =>
    simp only []
    cases x.t <;> simp [alookup_aset_other h.symm, alookup_aerase_other h.symm] <;>
      (try cases cs <;> simp [alookup_aset_other h.symm, alookup_aerase_other h.symm])
  | some v =>
    obtain ⟨t, b⟩ := v
    cases b <;> simp only [] <;> cases x.t <;> simp [alookup_aset_other h.symm, alookup_aerase_other h.symm, hk] <;>
      (try cases cs <;> simp [alookup_aset_other h.symm, alookup_aerase_other h.symm])

theorem get_setTag_other (pt : Point) (k k' : Bytes) (cs : Option Bytes) (h : k' ≠ k) :
    (pt.setTag k cs).get k' = pt.get k' := by
  unfold Point.setTag Point.get
  cases hk : alookup k pt.idx with
  | none => cases cs <;> simp [alookup_aset_other h.symm]
  | some v =>
    obtain ⟨t, b⟩ := v
    cases b <;> cases cs <;> simp [alookup_aset_other h.symm, alookup_aerase_other h.symm]

theorem get_delete_other (pt : Point) (k k' : Bytes) (h : k' ≠ k) :
    (pt.delete k).get k' = pt.get k' := by
  unfold Point.delete Point.get
  cases hk : alookup k pt.idx with
  | none => rfl
  | some v =>
    obtain ⟨t, b⟩ := v
    cases b <;> simp [alookup_aerase_other h.symm]

theorem get_delete_same (pt : Point) (k : Bytes) : (pt.delete k).get k = none := by
  unfold Point.delete Point.get
  cases hk : alookup k pt.idx with
  | none => simp [hk]
  | some v =>
    obtain ⟨t, b⟩ := v
    cases b <;> simp

/-- the measurement, the time and the drop flag are never changed by key operations -/
theorem key_ops_keep_meas_time (pt : Point) (k k2 : Bytes) (x : TV) (cs : Option Bytes) :
    ((pt.set k x cs).meas = pt.meas ∧ (pt.set k x cs).time = pt.time ∧ (pt.set k x cs).drop = pt.drop) ∧
    ((pt.setTag k cs).meas = pt.meas ∧ (pt.setTag k cs).time = pt.time) ∧
    ((pt.delete k).meas = pt.meas ∧ (pt.delete k).time = pt.time) ∧
    ((pt.rename k k2).meas = pt.meas ∧ (pt.rename k k2).time = pt.time) := by
  refine ⟨?_, ?_, ?_, ?_⟩
  · unfold Point.set
    cases alookup k pt.idx with
    | none => simp only []; cases x.t <;> simp <;> (try cases cs <;> simp)
    | some v => obtain ⟨t, b⟩ := v; cases b <;> simp only [] <;> cases x.t <;> simp <;> (try cases cs <;> simp)
  · unfold Point.setTag
    cases alookup k pt.idx with
    | none => cases cs <;> simp
    | some v => obtain ⟨t, b⟩ := v; cases b <;> cases cs <;> simp
  · unfold Point.delete
    cases alookup k pt.idx with
    | none => simp
    | some v => obtain ⟨t, b⟩ := v; cases b <;> simp
  · unfold Point.rename
    by_cases h : k = k2
    · simp [h]
    · simp only [h, ite_false]
      cases alookup k2 pt.idx with
      | none => simp
      | some v =>
        obtain ⟨t, b⟩ := v
        have hd := (key_ops_keep_meas_time_delete pt k)
        cases b <;> simp only [] <;> (repeat' split) <;> simp [hd]
where
  key_ops_keep_meas_time_delete (pt : Point) (k : Bytes) : (pt.delete k).meas = pt.meas ∧ (pt.delete k).time = pt.time := by
    unfold Point.delete
    cases alookup k pt.idx with
    | none => simp
    | some v => obtain ⟨t, b⟩ := v; cases b <;> simp

section
variable (env : Env)

/-- `get_key` reads the point only (never a variable) and returns nil for an absent key -/
theorem get_key_reads_point_only (f : Nat) (k : Bytes) (p np : Pos) (site : Nat) (s : St) :
    builtin env (f+1) .getKey (B "get_key") [.ident k p] np site s =
      .ok () { s with task := { s.task with regs :=
        if s.task.regs.length < 6 then s.task.regs ++ [((s.world.pt.get (normKey k)).getD nilTV)] else s.task.regs } } := by
  simp [builtin, getKeyName, bind, EM.bind, getS, pure, EM.pure]
  cases s.world.pt.get (normKey k) <;> simp [modTask, modifyS]

/-- `drop_key` removes exactly that key from the point; nothing else in the state changes -/
theorem drop_key_contract (f : Nat) (k : Bytes) (p np : Pos) (site : Nat) (s : St) :
    builtin env (f+1) .dropKey (B "drop_key") [.ident k p] np site s =
      .ok () { s with world := { s.world with pt := s.world.pt.delete (normKey k) } } := by
  simp [builtin, getKeyName, bind, EM.bind, pure, EM.pure, modWorld, modifyS]

/-- `rename(new, old)` renames in the point only -/
theorem rename_contract (f : Nat) (to frm : Bytes) (p1 p2 np : Pos) (site : Nat) (s : St) :
    builtin env (f+1) .rename (B "rename") [.ident to p1, .ident frm p2] np site s =
      .ok () { s with world := { s.world with pt := s.world.pt.rename (normKey to) (normKey frm) } } := by
  simp [builtin, getKeyName, bind, EM.bind, pure, EM.pure, modWorld, modifyS]

/-- `add_key(k)` with a subject that is neither a variable nor a point key is a silent no-op -/
theorem add_key_missing_subject_noop (f : Nat) (k : Bytes) (p np : Pos) (site : Nat) (s : St)
    (h : getKey s k = none) :
    builtin env (f+1) .addKey (B "add_key") [.ident k p] np site s = .ok () s := by
  simp [builtin, getKeyName, bind, EM.bind, getS, h, pure, EM.pure]

/-- `cast`, `trim`, `uppercase`, `url_decode` on a missing subject are silent no-ops -/
theorem cast_missing_subject_noop (f : Nat) (k ty : Bytes) (p p2 np : Pos) (site : Nat) (s : St)
    (h : getKey s k = none) :
    builtin env (f+1) .cast (B "cast") [.ident k p, .strLit ty p2] np site s = .ok () s := by
  simp [builtin, getKeyName, bind, EM.bind, getS, h, pure, EM.pure]

theorem uppercase_missing_subject_noop (f : Nat) (k : Bytes) (p np : Pos) (site : Nat) (s : St)
    (h : getKey s k = none) :
    builtin env (f+1) .uppercase (B "uppercase") [.ident k p] np site s = .ok () s := by
  simp [builtin, getKeyName, bind, EM.bind, getS, h, pure, EM.pure]

theorem trim_missing_subject_noop (f : Nat) (k : Bytes) (p np : Pos) (site : Nat) (s : St)
    (h : getKey s k = none) :
    builtin env (f+1) .trim (B "trim") [.ident k p] np site s = .ok () s := by
  simp [builtin, getKeyName, bind, EM.bind, getS, h, pure, EM.pure]

theorem url_decode_missing_subject_noop (f : Nat) (k : Bytes) (p np : Pos) (site : Nat) (s : St)
    (h : getKey s k = none) :
    builtin env (f+1) .urlDecode (B "url_decode") [.ident k p] np site s = .ok () s := by
  simp [builtin, getKeyName, bind, EM.bind, getS, h, pure, EM.pure]

/-- `set_tag(k)` with a missing subject alone creates an empty tag -/
theorem set_tag_missing_creates_empty (f : Nat) (k : Bytes) (p np : Pos) (site : Nat) (s : St)
    (h : getKey s k = none) :
    builtin env (f+1) .setTag (B "set_tag") [.ident k p] np site s =
      .ok () { s with world := { s.world with pt := s.world.pt.setTag (normKey k) (some []) } } := by
  simp [builtin, getKeyName, bind, EM.bind, getS, h, pure, EM.pure, conv2str, castToString, modWorld, modifyS, Functor.map]

/-- `exit()` only sets the flag -/
theorem exit_contract (f : Nat) (np : Pos) (site : Nat) (s : St) :
    builtin env (f+1) .exit (B "exit") [] np site s = .ok () { s with task := { s.task with exit := true } } := by
  simp [builtin, modTask, modifyS]

/-- after any call — successful or failed — the return registers are empty, so a value can
    never leak into a later call -/
theorem return_register_cleared (f : Nat) (name : Bytes) (args : List Node) (np : Pos) (site : Nat) (s : St) :
    match evalCall env f name args np site s with
    | .ok _ s' => s'.task.regs = []
    | .err _ s' => s'.task.regs = []
    | _ => True := by
  cases f with
  | zero => simp [evalCall, outOfFuel]
  | succ f =>
    by_cases hc : name ∈ env.fns
    rotate_left
    · simp [evalCall, hc]
    · cases hf : Fn.ofName name with
      | none => simp [evalCall, hc, hf]
      | some fn =>
        cases hb : builtin env f fn name args np site s <;> simp [evalCall, hc, hf, hb]

end
end Platypus.C11
