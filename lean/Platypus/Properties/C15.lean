import Platypus.Model.Pools
import Platypus.Generated.PoolFacts
/-!
# C15 — each run depends only on its script, its functions and its input point

Abstract theorem: if the reset path assigns every field an operation reads, then whatever dirty
object the pool hands out, the operation computes the same result as on a fresh object
(`reset_establishes_fresh`), hence in every history — any interleaving of loads and runs, any
choice of recycled objects — every operation's result equals its result in the initial process
state (`history_independent`).
Regenerated facts: for each pooled struct of the source (runtime.Task, input.Point, input.TFMeta,
parser.parser, runtime.PlReg) every field is assigned on its reset path, or is a documented
exception with the reason it is never read before being written.
-/
namespace Platypus.C15
open Platypus.Pools Platypus.Generated

theorem reset_establishes_fresh (fields assigned : List String) (hcov : ∀ f ∈ fields, f ∈ assigned)
    (init : String → Nat) (op : Obj → Nat) (hr : ReadsOnly fields op) (d d' : Obj) :
    op (reset assigned init d) = op (reset assigned init d') := by
  apply hr
  intro f hf
  have : f ∈ assigned := hcov f hf
  simp [reset, this]

/-- every operation of every history yields what it yields when run first in a fresh process -/
theorem history_independent (fields assigned : List String) (hcov : ∀ f ∈ fields, f ∈ assigned)
    (ops : List Op) (hr : ∀ op ∈ ops, ReadsOnly fields op.compute) (pool : Pool) :
    runHistory assigned pool ops = ops.map (fun op => op.compute (reset assigned op.init fresh)) := by
  induction ops generalizing pool with
  | nil => rfl
  | cons op rest ih =>
    simp only [runHistory, stepOp, List.map_cons]
    congr 1
    · exact reset_establishes_fresh fields assigned hcov op.init op.compute (hr op (by simp)) _ _
    · exact ih (fun o ho => hr o (by simp [ho])) _

/-! ## regenerated facts (F4) -/

theorem extract_ok_F4 : extractOk_F4 = true := by decide

/-- runtime.Task: PutContext zeroes the whole struct, GetContext and InitCtx assign the rest -/
theorem task_reset_complete :
    taskAssignedByPutContext = ["*"] ∧
    taskFields.all (fun f => taskAssignedByGetContext.contains f || taskAssignedByInitCtx.contains f || f == "private") = true := by
  decide

/-- …and even without the zeroing, only `private` is left to it (set by the caller's options, nil otherwise) -/
theorem task_fields_known :
    taskFields = ["private", "Regs", "stackHeader", "stackCur", "funcCall", "funcCheck", "input", "loopBreak",
                  "loopContinue", "signal", "procExit", "callRef", "name"] := by decide

/-- input.Point: InitPt assigns every field -/
theorem point_reset_complete : pointFields.all (fun f => pointAssignedByInitPt.contains f) = true := by decide

/-- input.TFMeta: GetMeta assigns every field -/
theorem meta_reset_complete : metaFields.all (fun f => metaAssignedByGetMeta.contains f) = true := by decide

/-- parser.parser: newParser assigns every field except three that are written before they are
    read in every parse: `inject` (InjectItem(START_STMTS) before Parse), `lastClosing` (only ever
    written), `yyParser` (goyacc's Parse re-initialises its stack and look-ahead; `lval.item` is
    written by the first real Lex call before any constructor or diagnostic reads it) -/
theorem parser_reset_complete :
    parserFields.all (fun f => parserAssignedByNewParser.contains f || ["yyParser", "lastClosing", "inject"].contains f) = true := by
  decide

/-- runtime.PlReg: Reset zeroes the used prefix and the count; entries beyond `count` are never
    read (RunCallExpr reads R0 only when Count() > 0) -/
theorem plreg_reset : plregAssignedByReset.contains "count" = true := by decide

/-- v2 (runtimev2): a loaded script is plain data (name, statements, function table) and every
    `Run` and `Check` begins by making the task it works on — no task, frame or register outlives a
    run, and runtime.go holds no package-level state (the v2 interpreter model starts every run from
    `{ name, scopes := [[]] }`, which is what `NewTask` builds) -/
theorem v2_run_starts_from_a_new_task :
    v2ScriptFields = ["Name", "Stmts", "Fn"] ∧ v2RunMakesTask = true ∧ v2CheckMakesTask = true ∧
    v2RuntimeVars = [] ∧
    v2TaskFields = ["name", "private", "funcs", "Regs", "stackHeader", "stackCur", "loopBreak", "loopContinue",
                    "signal", "procExit"] := by decide

/-! non-vacuity: a two-field object, reset of both fields, a reader of both -/
example : (fun (o : Obj) => o "a" + o "b") (reset ["a", "b"] (fun _ => 7) (fun _ => 99)) = 14 := by
  simp [reset]

end Platypus.C15
