import Platypus.Proofs.ErrPosBuiltin
import Platypus.Proofs.ErrPosStart
import Platypus.Proofs.ErrPosCheck
import Platypus.Proofs.ErrPosV2
/-!
C01 (third sentence) and C17 (run-time clause): **where a run-time error points**.

For every environment (function table, bound scripts, signal, map orders, engine answers), every
script, every start state and every amount of fuel: when a run of the v1 interpreter model ends in
an error, the error's chain is *located* (`ErrPos.Located`):

* its outermost link names the running script, at a position the script's own tree designates —
  for the evaluation of a node: a position designated by *that node* (a stored token position of
  the node or of one of its sub-nodes, or `ast.NodeStartPos` of one of them);
* every link before it is either another link of the same script inside the same node (add_key's
  second argument is reported at its own position and again at the call), or the complete located
  chain of a script reached through `use()`, whose positions lie in the statements bound to that
  call site;
* the chain is never empty, so `file:ln:col: msg` always has a file and a position.

Nothing here says that the stored positions themselves are right: that every stored position is
the offset, line and column of the token it belongs to is `FrontEnd.elab_positions`, and that
`NodeStartPos` returns a stored position of the node is `start_is_stored` below.
-/
namespace Platypus.C17
open Platypus Platypus.ErrPos

/-- evaluating a node: a failure is located inside that node -/
theorem expression_error_inside_node (env : Env) (fuel : Nat) (n : Node) (s s' : St) (e : PlErr)
    (h : evalNode env fuel n s = .err e s') : Located env s.task.name (In n) e.chain := by
  have := (ihe_all env fuel).node n s
  unfold TrE at this
  rw [h] at this
  exact this.2

/-- running a statement (if / for / for-in / break / continue / expression statement) -/
theorem statement_error_inside_statement (env : Env) (fuel : Nat) (n : Node) (s s' : St) (e : PlErr)
    (h : runStmt env (evalNode env fuel) fuel n s = .err e s') : Located env s.task.name (In n) e.chain := by
  have := (mihe_all (env := env) (ev := evalNode env fuel) (ihe_all env fuel).node fuel).stmt n s
  unfold TrE at this
  rw [h] at this
  exact this.2

/-- `(*Script).Run`: a reported script error is located in the script -/
theorem runtime_error_located (env : Env) (fuel : Nat) (name : Bytes) (stmts : List Node) (w : World)
    (e : PlErr) (s' : St) (h : runScript env fuel name stmts w = .err e s') :
    Located env name (InL stmts) e.chain := by
  have := (mihe_all (env := env) (ev := evalNode env fuel) (ihe_all env fuel).node fuel).stmts stmts
    { task := { name := name, scopes := [[]] }, world := w }
  unfold TrE at this
  unfold runScript at h
  rw [h] at this
  exact this.2

/-- the error names the running script and a position inside one of its statements -/
theorem runtime_error_names_script_and_position (env : Env) (fuel : Nat) (name : Bytes)
    (stmts : List Node) (w : World) (e : PlErr) (s' : St)
    (h : runScript env fuel name stmts w = .err e s') :
    ∃ pre p stmt, e.chain = pre ++ [(name, p)] ∧ stmt ∈ stmts ∧ p ∈ posOf stmt := by
  obtain ⟨pre, p, hc, hp⟩ := (runtime_error_located env fuel name stmts w e s' h).last
  obtain ⟨n, hn, hpn⟩ := mem_posOfL hp
  exact ⟨pre, p, n, hc, hn, hpn⟩

/-- the root cause (the link rendered first) names the running script or a script it uses, at a
    position inside that script's statements -/
theorem runtime_error_root_cause (env : Env) (fuel : Nat) (name : Bytes) (stmts : List Node) (w : World)
    (e : PlErr) (s' : St) (h : runScript env fuel name stmts w = .err e s') :
    ∃ file p rest, e.chain = (file, p) :: rest ∧
      ((file = name ∧ p ∈ posOfL stmts) ∨
       ∃ site cstmts, env.bound site = some (file, cstmts) ∧ p ∈ posOfL cstmts) :=
  (runtime_error_located env fuel name stmts w e s' h).first

/-- without use() bindings every link names the running script -/
theorem runtime_error_single_script (env : Env) (hb : ∀ site, env.bound site = none) (fuel : Nat)
    (name : Bytes) (stmts : List Node) (w : World) (e : PlErr) (s' : St)
    (h : runScript env fuel name stmts w = .err e s') :
    ∀ link ∈ e.chain, link.1 = name ∧ link.2 ∈ posOfL stmts :=
  located_single_script hb (runtime_error_located env fuel name stmts w e s' h)

/-! ### the positions are stored token positions -/

/-- `ast.NodeStartPos` of a node is the stored position of one of its tokens (or `-1:-1`) -/
theorem node_start_is_stored (n : Node) : Node.start n ∈ storedOf n ∨ Node.start n = Pos.invalid :=
  start_stored n

/-- the position a run-time error reports for the running script is the stored position of a
    token of one of the script's statements, or the marker `-1:-1` (which `NodeStartPos` yields
    only for a left operand chain nested deeper than the model's bound of 10000, an index
    expression without object and brackets, an assignment without target or an if without branch:
    none of these is produced by the parser) -/
theorem runtime_error_position_is_token (env : Env) (fuel : Nat) (name : Bytes)
    (stmts : List Node) (w : World) (e : PlErr) (s' : St)
    (h : runScript env fuel name stmts w = .err e s') :
    ∃ pre p, e.chain = pre ++ [(name, p)] ∧ (p ∈ storedOfL stmts ∨ p = Pos.invalid) := by
  obtain ⟨pre, p, hc, hp⟩ := (runtime_error_located env fuel name stmts w e s' h).last
  exact ⟨pre, p, hc, posOfL_stored stmts p hp⟩

/-! ### the v2 interpreter -/

/-- v2 `RunExpr`: a failure is located inside the node -/
theorem expression_error_inside_node_v2 (env : Env) (fuel : Nat) (n : Node) (s s' : St) (e : PlErr)
    (h : V2.runExpr env fuel n s = .err e s') : Located env s.task.name (In n) e.chain := by
  have := (ih2_all env fuel).expr n s
  unfold TrE at this
  rw [h] at this
  exact this.2

/-- v2 `(*Script).Run`: the error names the running script at a stored token position of one of
    its statements (or `-1:-1`, see `runtime_error_position_is_token`) -/
theorem runtime_error_located_v2 (env : Env) (fuel : Nat) (name : Bytes) (stmts : List Node) (w : World)
    (e : PlErr) (s' : St) (h : V2.runScript2 env fuel name stmts w = .err e s') :
    Located env name (InL stmts) e.chain ∧
    ∃ pre p, e.chain = pre ++ [(name, p)] ∧ (p ∈ storedOfL stmts ∨ p = Pos.invalid) := by
  have := (ih2_all env fuel).stmts stmts { task := { name := name, scopes := [[]] }, world := w }
  unfold TrE at this
  unfold V2.runScript2 at h
  rw [h] at this
  obtain ⟨pre, p, hc, hp⟩ := this.2.last
  exact ⟨this.2, pre, p, hc, posOfL_stored stmts p hp⟩

/-! ### load-time check errors -/

/-- The check pass (v1 and v2 share it, C08): for every table of function checkers whose refusals
    point into the refused call (`FcheckOK`), every script and all fuel, a rejection carries a
    non-empty chain whose every link names the checked script at a position designated by the
    script's own statements. -/
theorem check_error_located (file : Bytes) (registered : Bytes → Bool)
    (fcheck : CallInfo → Option (CM Unit)) (hf : FcheckOK file fcheck) (fuel : Nat) (stmts : List Node)
    (s : CheckSt) (e : PlErr) (h : checkNodes file registered fcheck fuel stmts s = .err e) :
    e.chain ≠ [] ∧ ∀ link ∈ e.chain, link.1 = file ∧ link.2 ∈ posOfL stmts := by
  have := (cih_all (registered := registered) hf fuel).nodes stmts s
  rw [h] at this
  exact this

/-- checking one node: the rejection points into that node (the offender lies inside it) -/
theorem check_error_inside_node (file : Bytes) (registered : Bytes → Bool)
    (fcheck : CallInfo → Option (CM Unit)) (hf : FcheckOK file fcheck) (fuel : Nat) (n : Node)
    (s : CheckSt) (e : PlErr) (h : checkNode file registered fcheck fuel n s = .err e) :
    e.chain ≠ [] ∧ ∀ link ∈ e.chain, link.1 = file ∧ link.2 ∈ posOf n := by
  have := (cih_all (registered := registered) hf fuel).node n s
  rw [h] at this
  exact this

/-- `(*Script).Check` with the registered builtins: their `*Checking` functions satisfy the
    contract, so every load-time check error of a script is located in that script -/
theorem builtin_check_error_located (fuel : Nat) (oracle : Bytes → Option Bytes) (fns : List Bytes)
    (file : Bytes) (stmts : List Node) (e : PlErr) (h : checkScript fuel oracle fns file stmts = .err e) :
    e.chain ≠ [] ∧ ∀ link ∈ e.chain, link.1 = file ∧
      (link.2 ∈ storedOfL stmts ∨ link.2 = Pos.invalid) := by
  unfold checkScript at h
  obtain ⟨h1, h2⟩ := check_error_located file _ _ (builtin_fcheckOK oracle file) fuel stmts {} e h
  exact ⟨h1, fun l hl => ⟨(h2 l hl).1, posOfL_stored stmts _ (h2 l hl).2⟩⟩

/-! non-vacuity: a concrete failing run (`1 / z` with `z` undefined, in a script named `a`): the
    premise of the theorems holds, and the chain is the single link `(a, 2:1:3)`, the operator -/
def exDiv : List Node := [.arith .div (.intLit 1 ⟨0, 1, 1⟩) (.ident [122] ⟨4, 1, 5⟩) ⟨2, 1, 3⟩]
def exEnv0 : Env :=
  { bound := fun _ => none, fns := [], sigK := none, hasSignal := false, mapOrder := fun _ => 0,
    oracle := fun _ => none }

example : ∃ e s', runScript exEnv0 5 [97] exDiv {} = .err e s' ∧ e.chain = [([97], ⟨2, 1, 3⟩)] :=
  ⟨_, _, rfl, rfl⟩

/-- a concrete rejected script: a stray `break` at offset 6 -/
example : ∃ e, checkScript 5 (fun _ => none) [] [97] [.brk ⟨6, 2, 1⟩] = .err e ∧ e.chain = [([97], ⟨6, 2, 1⟩)] :=
  ⟨_, rfl, rfl⟩

end Platypus.C17
