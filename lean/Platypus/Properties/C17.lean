import Platypus.Proofs.LnCol
/-!
# C17 (lookup part): the two position-lookup routines are correct and agree

"its line and 1-based byte column are those of the offset, and the two position-lookup routines
agree on every offset of every text" — for every byte string `q` and every integer offset `pos`.
The specification `spec` is in `Platypus/Spec/LnColSpec.lean`.
-/
namespace Platypus.LnCol

theorem linear_correct (q : Bytes) (pos : Int) : linearLnCol q pos = spec q pos := by
  unfold linearLnCol spec
  split
  · rfl
  · rename_i h
    have h1 : pos.toNat ≤ q.length := by omega
    simp only [scan_spec]
    have : trail (q.take pos.toNat) ≤ (q.take pos.toNat).length := by
      unfold trail; have := (List.takeWhile_sublist (l := (q.take pos.toNat).reverse) (· ≠ NL)).length_le; simpa using this
    simp [List.length_take, Nat.min_eq_left h1] at this ⊢
    omega

theorem cache_correct (q : Bytes) (pos : Int) : cacheLnCol q pos = spec q pos := by
  unfold cacheLnCol spec
  by_cases hr : pos < 0 ∨ pos > (q.length : Int)
  · have : ((lineStarts q).toArray.size = 0 ∨ pos > ↑q.length ∨ pos < 0) := by
      rcases hr with h | h
      · exact Or.inr (Or.inr h)
      · exact Or.inr (Or.inl h)
    simp only [this, hr, ↓reduceIte]
  · have hsz : ¬ ((lineStarts q).toArray.size = 0 ∨ pos > ↑q.length ∨ pos < 0) := by
      simp [lineStarts]; omega
    simp only [hsz, hr, ↓reduceIte]
    have hp : pos.toNat ≤ q.length := by omega
    generalize hpn : pos.toNat = p at *
    -- split q at p
    have hq : q = q.take p ++ q.drop p := (List.take_append_drop p q).symm
    have hpre : (q.take p).length = p := by simp [List.length_take, Nat.min_eq_left hp]
    have hls : lineStarts q = lineStarts (q.take p) ++ lineStartsFrom p (q.drop p) := by
      conv => lhs; rw [hq]
      unfold lineStarts
      rw [lsf_append, hpre]; simp
    have hk : (lineStarts (q.take p)).length = (q.take p).count NL + 1 := by
      simp [lineStarts, lsf_length]
    have hb := bsearch_split (lineStarts q).toArray p ((q.take p).count NL + 1)
      (by simp [hls, hk])
      (by
        intro i hi
        have hi' : i < (lineStarts (q.take p)).length := by omega
        have hmem : (lineStarts (q.take p))[i] ∈ lineStarts (q.take p) := List.getElem_mem hi'
        have hv : (lineStarts q).toArray[i]! = (lineStarts (q.take p))[i] := by
          simp [hls, List.getElem?_append_left hi', hi']
        rw [hv]
        simp only [lineStarts, List.mem_cons] at hmem
        rcases hmem with h0 | h1
        · simp [lineStarts] at h0 ⊢; omega
        · have := lsf_bounds 0 (q.take p) _ h1; simp [lineStarts] at this ⊢; omega)
      (by
        intro i hi hi2
        have hi' : (lineStarts (q.take p)).length ≤ i := by omega
        have hsz2 : i < (lineStarts q).length := by simpa using hi2
        have hlen2 : i - (lineStarts (q.take p)).length < (lineStartsFrom p (q.drop p)).length := by
          rw [hls] at hsz2; simp at hsz2 ⊢; omega
        have hv : (lineStarts q).toArray[i]! = (lineStartsFrom p (q.drop p))[i - (lineStarts (q.take p)).length] := by
          simp only [List.getElem!_toArray, List.getElem!_eq_getElem?_getD]
          rw [hls, List.getElem?_append_right hi', List.getElem?_eq_getElem hlen2]; simp
        rw [hv]
        have := lsf_bounds p (q.drop p) _ (List.getElem_mem hlen2)
        omega)
      0 (lineStarts q).toArray.size (by omega) (by simp [hls, hk]) (Nat.le_refl _)
    rw [hb]
    simp only [Nat.add_sub_cancel]
    have hv : (lineStarts q).toArray[(q.take p).count NL]! = (lineStarts (q.take p))[(q.take p).count NL]! := by
      simp only [List.getElem!_toArray, List.getElem!_eq_getElem?_getD]
      rw [hls, List.getElem?_append_left (by omega)]
    rw [hv, ls_last, hpre]
    have htr : trail (q.take p) ≤ p := by
      have : trail (q.take p) ≤ (q.take p).length := by
        unfold trail; have := (List.takeWhile_sublist (l := (q.take p).reverse) (· ≠ NL)).length_le; simpa using this
      omega
    congr 2 <;> omega

/-- C17: the two lookup routines agree on every offset of every text. -/
theorem lookups_agree (q : Bytes) (pos : Int) : cacheLnCol q pos = linearLnCol q pos := by
  rw [cache_correct, linear_correct]


/- non-vacuity: concrete lookups -/
example : cacheLnCol [97, 10, 195, 169, 10, 97] 4 = some ⟨2, 3⟩ := by rw [cache_correct]; decide
example : spec [97, 10, 195, 169, 10, 97] 6 = some ⟨3, 2⟩ := by decide
example : spec [97] 2 = none := by decide

end Platypus.LnCol
