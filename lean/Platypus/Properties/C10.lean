import Platypus.Model.PointOps
import Platypus.Proofs.Point
/-!
# C10 — the point's key index always agrees with its tags and fields

`Inv` is the invariant; it holds initially (`init_inv`), is preserved by every point operation the
builtins issue (`set_inv`, `setTag_inv`, `delete_inv`, `rename_inv`), hence in every reachable
state (`reachable_inv`); under it every stored key reads back exactly (`read_back_field`,
`read_back_tag`), a read never invents a value (`get_sound`), and a key can be dropped or renamed
again (`delete_removes`, `rename_moves`).
-/
namespace Platypus.C10

open Platypus

/-- the tag of a scalar value as the interpreter assigns it -/
def scalarType : Val → DType
  | .nil => .nil | .bool _ => .bool | .int _ => .int | .float _ => .float | .str _ => .str | .ref _ => .invalid

def isScalar : Val → Bool
  | .ref _ => false
  | _ => true

/-- no key occurs twice in an association list -/
def NoDup {β} (m : List (Bytes × β)) : Prop := (m.map (·.1)).Nodup

structure Inv (pt : Point) : Prop where
  tagsIdx : ∀ k v, alookup k pt.tags = some v → alookup k pt.idx = some (.str, true)
  fieldsIdx : ∀ k v, alookup k pt.fields = some v → alookup k pt.idx = some (scalarType v, false)
  fieldsScalar : ∀ k v, alookup k pt.fields = some v → isScalar v = true
  ndTags : NoDup pt.tags
  ndFields : NoDup pt.fields
  ndIdx : NoDup pt.idx
  /-- an index entry flagged as a tag always carries dtype `str` (without this `set`/`setTag` on a
      key indexed as `(int, tag)` would break `tagsIdx`) -/
  tagIdxStr : ∀ k t, alookup k pt.idx = some (t, true) → t = .str

/-- a value/tag pair as the interpreter produces it for scalars; lists/maps carry any value -/
def WellTagged (x : TV) : Prop :=
  match x.t with
  | .bool | .int | .float | .str => scalarType x.v = x.t
  | _ => True

/-- never both a tag and a field -/
theorem inv_disjoint (pt : Point) (h : Inv pt) (k : Bytes) :
    ¬ ((alookup k pt.tags).isSome ∧ (alookup k pt.fields).isSome) := by
  intro ⟨ht, hf⟩
  cases h1 : alookup k pt.tags with
  | none => simp [h1] at ht
  | some s =>
    cases h2 : alookup k pt.fields with
    | none => simp [h2] at hf
    | some v =>
      have a := h.tagsIdx k s h1
      have b := h.fieldsIdx k v h2
      rw [a] at b; simp at b

/-- host input: disjoint keys, scalar field values, no duplicate keys -/
theorem init_inv (m : Bytes) (tags : List (Bytes × Bytes)) (fields : List (Bytes × Val)) (t : Int)
    (hnt : NoDup tags) (hnf : NoDup fields)
    (hdis : ∀ k, ¬ ((alookup k tags).isSome ∧ (alookup k fields).isSome))
    (hsc : ∀ k v, alookup k fields = some v → isScalar v = true) :
    Inv (Point.init m tags fields t) := by
  have hmem : ∀ k, k ∈ tags.map (·.1) → alookup k fields = none := by
    intro k hk
    have hd := hdis k
    rw [← alookup_isSome_iff] at hk
    cases hf : alookup k fields with
    | none => rfl
    | some v => simp [hk, hf] at hd
  have hmeta : ∀ v, isScalar v = true → Point.fieldMeta v = some (scalarType v, false) := by
    intro v hv; cases v <;> simp_all [Point.fieldMeta, scalarType, isScalar]
  refine ⟨?_, ?_, ?_, hnt, hnf, Point.init_idx_nodup _ _ _ hnf, ?_⟩
  · intro k v hv
    rw [Point.init_tags] at hv
    rw [Point.init_idx_lookup _ _ _ hnf, if_pos (mem_keys_of_alookup hv)]
  · intro k v hv
    rw [Point.init_fields] at hv
    have hk : k ∉ tags.map (·.1) := fun hk => by simp [hmem k hk] at hv
    rw [Point.init_idx_lookup _ _ _ hnf, if_neg hk, hv]
    exact hmeta v (hsc k v hv)
  · intro k v hv
    exact hsc k v hv
  · intro k t hk
    rw [Point.init_idx_lookup _ _ _ hnf] at hk
    split at hk
    · simp at hk; exact hk.symm
    · cases hf : alookup k fields with
      | none => simp [hf] at hk
      | some v => cases v <;> simp [hf, Point.fieldMeta] at hk

theorem set_inv (pt : Point) (h : Inv pt) (k : Bytes) (x : TV) (hx : WellTagged x) (cs : Option Bytes) :
    Inv (pt.set k x cs) := by
  by_cases htag : ∃ t, alookup k pt.idx = some (t, true)
  · -- the key is a tag: only the tags change, and its index entry is already `(str, tag)`
    obtain ⟨t, hi⟩ := htag
    have ht := h.tagIdxStr k t hi
    subst ht
    obtain ⟨hT, hF, hS, nT, nF, nI, hTS⟩ := h
    rcases Point.set_tag_cases pt k x cs hi with e | ⟨s, e⟩ | e <;> rw [e]
    · refine ⟨?_, hF, hS, nodup_aerase _ nT, nF, nI, hTS⟩
      dsimp only; grind [alookup_aerase]
    · refine ⟨?_, hF, hS, nodup_aset _ _ nT, nF, nI, hTS⟩
      dsimp only; grind [alookup_aset]
    · exact ⟨hT, hF, hS, nT, nF, nI, hTS⟩
  · -- otherwise one field and its index entry are written, with matching type
    have hnt : ∀ t, alookup k pt.idx ≠ some (t, true) := fun t e => htag ⟨t, e⟩
    obtain ⟨v, t, e, hv⟩ := Point.set_field_cases pt k x cs hnt
    have hsc : isScalar v = true ∧ t = scalarType v := by
      rcases hv with ⟨rfl, rfl⟩ | ⟨s, rfl, rfl⟩ | ⟨rfl, rfl, ht⟩
      · exact ⟨rfl, rfl⟩
      · exact ⟨rfl, rfl⟩
      · obtain ⟨xv, xt⟩ := x
        unfold WellTagged at hx
        simp only at ht hx ⊢
        rcases ht with rfl | rfl | rfl | rfl <;> simp only at hx <;>
          cases xv <;> simp_all [scalarType, isScalar]
    obtain ⟨hsv, rfl⟩ := hsc
    obtain ⟨hT, hF, hS, nT, nF, nI, hTS⟩ := h
    rw [e]
    refine ⟨?_, ?_, ?_, nT, nodup_aset _ _ nF, nodup_aset _ _ nI, ?_⟩ <;> dsimp only <;>
      grind [alookup_aset]

theorem setTag_inv (pt : Point) (h : Inv pt) (k : Bytes) (cs : Option Bytes) : Inv (pt.setTag k cs) := by
  obtain ⟨hT, hF, hS, nT, nF, nI, hTS⟩ := h
  obtain ⟨s, hc⟩ := Point.setTag_cases pt k cs
  rcases hc with ⟨hi, e⟩ | ⟨t, hi, e⟩ | ⟨t, hi, e⟩ <;> rw [e]
  · refine ⟨?_, ?_, hS, nodup_aset _ _ nT, nF, nodup_aset _ _ nI, ?_⟩ <;> dsimp only <;>
      grind [alookup_aset]
  · have ht := hTS k t hi
    subst ht
    refine ⟨?_, hF, hS, nodup_aset _ _ nT, nF, nI, hTS⟩
    dsimp only; grind [alookup_aset]
  · refine ⟨?_, ?_, ?_, nodup_aset _ _ nT, nodup_aerase _ nF, nodup_aset _ _ nI, ?_⟩ <;> dsimp only <;>
      grind [alookup_aset, alookup_aerase]

theorem delete_inv (pt : Point) (h : Inv pt) (k : Bytes) : Inv (pt.delete k) := by
  obtain ⟨hT, hF, hS, nT, nF, nI, hTS⟩ := h
  rcases Point.delete_cases pt k with ⟨_, e⟩ | ⟨t, hi, e⟩ | ⟨t, hi, e⟩ <;> rw [e]
  · exact ⟨hT, hF, hS, nT, nF, nI, hTS⟩
  · refine ⟨?_, ?_, hS, nodup_aerase _ nT, nF, nodup_aerase _ nI, ?_⟩ <;> dsimp only <;>
      grind [alookup_aerase]
  · refine ⟨?_, ?_, ?_, nT, nodup_aerase _ nF, nodup_aerase _ nI, ?_⟩ <;> dsimp only <;>
      grind [alookup_aerase]

theorem rename_inv (pt : Point) (h : Inv pt) (to frm : Bytes) : Inv (pt.rename to frm) := by
  by_cases hne : to = frm
  · subst hne; rw [Point.rename_same]; exact h
  · cases hi : alookup frm pt.idx with
    | none => rw [Point.rename_absent pt hi]; exact h
    | some p =>
      obtain ⟨t, b⟩ := p
      -- first the target key is deleted; in the resulting point `p1` it is unknown to the index
      have h1 := delete_inv pt h to
      have hto : alookup to (pt.delete to).idx = none := by simp [Point.delete_idx_lookup]
      have hfrm : alookup frm (pt.delete to).idx = some (t, b) := by
        simp [Point.delete_idx_lookup, hne, hi]
      have hc := Point.rename_cases pt hne hi
      dsimp only at hc
      generalize pt.delete to = p1 at h1 hto hfrm hc
      obtain ⟨hT, hF, hS, nT, nF, nI, hTS⟩ := h1
      rcases hc with ⟨rfl, v, hv, e⟩ | ⟨rfl, hv, e⟩ | ⟨rfl, v, hv, e⟩ | ⟨rfl, hv, e⟩ <;> rw [e]
      · refine ⟨?_, ?_, hS, nodup_aerase _ (nodup_aset _ _ nT), nF,
          nodup_aerase _ (nodup_aset _ _ nI), ?_⟩ <;> dsimp only <;>
          grind [alookup_aset, alookup_aerase]
      · refine ⟨?_, ?_, hS, nodup_aerase _ nT, nF,
          nodup_aerase _ (nodup_aset _ _ nI), ?_⟩ <;> dsimp only <;>
          grind [alookup_aset, alookup_aerase]
      · refine ⟨?_, ?_, ?_, nT, nodup_aerase _ (nodup_aset _ _ nF),
          nodup_aerase _ (nodup_aset _ _ nI), ?_⟩ <;> dsimp only <;>
          grind [alookup_aset, alookup_aerase]
      · refine ⟨?_, ?_, ?_, nT, nodup_aerase _ nF,
          nodup_aerase _ (nodup_aset _ _ nI), ?_⟩ <;> dsimp only <;>
          grind [alookup_aset, alookup_aerase]

/-- the operations builtins issue on the point -/
inductive PtOp
  | set (k : Bytes) (x : TV) (cs : Option Bytes) (hx : WellTagged x)
  | setTag (k : Bytes) (cs : Option Bytes)
  | delete (k : Bytes)
  | rename (to frm : Bytes)

def PtOp.apply (pt : Point) : PtOp → Point
  | .set k x cs _ => pt.set k x cs
  | .setTag k cs => pt.setTag k cs
  | .delete k => pt.delete k
  | .rename to frm => pt.rename to frm

/-- the invariant holds after any sequence of operations -/
theorem reachable_inv (pt : Point) (h : Inv pt) (ops : List PtOp) : Inv (ops.foldl PtOp.apply pt) := by
  induction ops generalizing pt with
  | nil => exact h
  | cons op ops ih =>
    rw [List.foldl_cons]
    apply ih
    cases op with
    | set k x cs hx => exact set_inv pt h k x hx cs
    | setTag k cs => exact setTag_inv pt h k cs
    | delete k => exact delete_inv pt h k
    | rename to frm => exact rename_inv pt h to frm

/-- a key present in the fields reads back with exactly the stored value and its type -/
theorem read_back_field (pt : Point) (h : Inv pt) (k : Bytes) (v : Val) (hv : alookup k pt.fields = some v) :
    pt.get k = some ⟨v, scalarType v⟩ := by
  have hi := h.fieldsIdx k v hv
  have hs := h.fieldsScalar k v hv
  cases v <;> simp_all [Point.get, scalarType, isScalar]

theorem read_back_tag (pt : Point) (h : Inv pt) (k : Bytes) (s : Bytes) (hv : alookup k pt.tags = some s) :
    pt.get k = some ⟨.str s, .str⟩ := by
  have hi := h.tagsIdx k s hv
  simp [Point.get, hi, hv]

/-- reading a key never returns a value the point does not hold -/
theorem get_sound (pt : Point) (h : Inv pt) (k : Bytes) (x : TV) (hg : pt.get k = some x) :
    x = ⟨.nil, .nil⟩ ∨ alookup k pt.fields = some x.v ∨ (∃ s, x = ⟨.str s, .str⟩ ∧ alookup k pt.tags = some s) := by
  have _ := h  -- not needed: `get` never invents a value, invariant or not
  unfold Point.get at hg
  split at hg
  · simp at hg
  · split at hg
    · cases hg; left; rfl
    · split at hg
      · split at hg
        · rename_i s hs
          cases hg; right; right; exact ⟨s, rfl, hs⟩
        · cases hg; left; rfl
      · split at hg
        · rename_i v hv
          cases hg; right; left; exact hv
        · cases hg; left; rfl

/-- a present key can be dropped: afterwards it is in neither map nor in the index -/
theorem delete_removes (pt : Point) (h : Inv pt) (k : Bytes) :
    alookup k (pt.delete k).tags = none ∧ alookup k (pt.delete k).fields = none ∧ alookup k (pt.delete k).idx = none := by
  obtain ⟨hT, hF, hS, nT, nF, nI, hTS⟩ := h
  have ht : alookup k pt.idx = none → alookup k pt.tags = none := by
    intro hi
    cases hk : alookup k pt.tags with
    | none => rfl
    | some s => rw [hT k s hk] at hi; simp at hi
  have hf : alookup k pt.idx = none → alookup k pt.fields = none := by
    intro hi
    cases hk : alookup k pt.fields with
    | none => rfl
    | some v => rw [hF k v hk] at hi; simp at hi
  rcases Point.delete_cases pt k with ⟨hi, e⟩ | ⟨t, hi, e⟩ | ⟨t, hi, e⟩ <;> rw [e] <;> try dsimp only
  · exact ⟨ht hi, hf hi, hi⟩
  · refine ⟨alookup_aerase_same _ _, ?_, alookup_aerase_same _ _⟩
    cases hk : alookup k pt.fields with
    | none => rfl
    | some v => rw [hF k v hk] at hi; simp at hi
  · refine ⟨?_, alookup_aerase_same _ _, alookup_aerase_same _ _⟩
    cases hk : alookup k pt.tags with
    | none => rfl
    | some s => rw [hT k s hk] at hi; simp at hi

/-- a present key can be renamed: the value moves, the old name disappears everywhere -/
theorem rename_moves (pt : Point) (h : Inv pt) (to frm : Bytes) (hne : to ≠ frm) (hpres : (alookup frm pt.idx).isSome) :
    let pt' := pt.rename to frm
    alookup frm pt'.tags = none ∧ alookup frm pt'.fields = none ∧ alookup frm pt'.idx = none ∧
    (∀ v, alookup frm pt.fields = some v → alookup to pt'.fields = some v) ∧
    (∀ s, alookup frm pt.tags = some s → alookup to pt'.tags = some s) := by
  intro pt'
  have hne' : frm ≠ to := fun e => hne e.symm
  cases hi : alookup frm pt.idx with
  | none => simp [hi] at hpres
  | some p =>
    obtain ⟨t, b⟩ := p
    have htn : b = false → alookup frm pt.tags = none := by
      intro hb
      cases hk : alookup frm pt.tags with
      | none => rfl
      | some s => rw [h.tagsIdx frm s hk] at hi; simp [hb] at hi
    have hfn : b = true → alookup frm pt.fields = none := by
      intro hb
      cases hk : alookup frm pt.fields with
      | none => rfl
      | some v => rw [h.fieldsIdx frm v hk] at hi; simp [hb] at hi
    have htg := Point.delete_tags_other pt hne
    have hfl := Point.delete_fields_other pt hne
    have hc := Point.rename_cases pt hne hi
    dsimp only at hc
    rcases hc with ⟨rfl, v, hv, e⟩ | ⟨rfl, hv, e⟩ | ⟨rfl, v, hv, e⟩ | ⟨rfl, hv, e⟩ <;>
      simp only [pt', e] <;> grind [alookup_aset, alookup_aerase]

/-- non-vacuity: a concrete point with a tag and a field (as `Point.init` builds it) satisfies `Inv`,
    and so does every point reached from it -/
example :
    let pt : Point := Point.init [109] [([116], [97])] [([102], .int 1), ([103], .str [98])] 0
    pt.tags = [([116], [97])] ∧ pt.fields = [([102], .int 1), ([103], .str [98])] ∧
    pt.idx = [([102], (.int, false)), ([103], (.str, false)), ([116], (.str, true))] ∧ Inv pt := by
  refine ⟨rfl, rfl, by decide, ?_⟩
  apply init_inv
  · simp [NoDup]
  · simp [NoDup]
  · intro k; simp [alookup_cons]; grind
  · intro k v; simp [alookup_cons]; grind [isScalar]

end Platypus.C10
