import Platypus.Proofs.ParsePosErase
import Platypus.Proofs.ParsePosFacts
import Platypus.Proofs.ParsePosOrder
/-!
# C17 (tree part): the positions stored in the syntax tree are the offsets of the tokens

"Each position stored in the syntax tree for a token - identifier, literal, operator, bracket,
keyword - equals that token's byte offset."

The model is `Platypus/Model/ParsePos.lean`: `parsePosItems`, a copy of the validated parser model
`Parse.parseItems` that additionally records, in trees `PP`, the positions the real parser stores
(`pkg/ast`, as dumped by `astdump.go`).  It is tied to the implementation by the differential check
of the driver (rendering: `Platypus/Model/ParsePosRender.lean`).  The specification
(`Platypus/Spec/PosFacts.lean`) lists, per node, the stored positions with the kind of token each must
be the offset of (`PP.posFacts`).

* `erase_parsePos`, `parsePos_of_parse`: forgetting the positions, the position-carrying parser IS the
  model parser — it accepts exactly the same item lists and builds the same trees;
* `positions_are_token_offsets`: every stored position is the `pos` of an item of the input whose
  `typ` is the kind expected for that field;
* `attr_starts`: the start of every attribute expression is the start of its object;
* `shapes`: kind fields and bracket lists are consistent;
* `positions_in_order`: when the offsets of the items increase strictly (they do for lexer output),
  every opening bracket is before its closing bracket, and a call's name before its parenthesis;
* `positions_source_ordered`: … and every node's own positions lie where its tokens stand relative
  to the positions stored in its subtrees (`PP.orderOk`, `Platypus/Spec/PosOrder.lean`): a binary
  operator between its operands (`bin_operator_between`), a unary operator before its operand, an
  assignment operator between its sides, the content of brackets between them, a sliced object before
  `[`, an attribute's object before the attribute, `in` between variable and iterated expression,
  `for` before its clauses and body;
* `example_positions`: the parser on the items of `x = a.b[1] + f(k = - 1)[2:]`, by evaluation.
-/
namespace Platypus.C17Tree
open Platypus.Lex (Tok Item)
open Platypus.Parse Platypus.ParsePos

/-- the position-carrying parser accepts only what the model parser accepts, and its trees are the
    model parser's trees once the positions are forgotten -/
theorem erase_parsePos {ts : List Item} {tps : List PP} (h : parsePosItems ts = some tps) :
    parseItems ts = some (tps.map PP.erase) := by
  rw [parseItems_eq, h]; rfl

/-- … and it accepts everything the model parser accepts -/
theorem parsePos_of_parse {ts : List Item} {ss : List PT} (h : parseItems ts = some ss) :
    ∃ tps, parsePosItems ts = some tps ∧ tps.map PP.erase = ss := by
  rw [parseItems_eq] at h
  cases h' : parsePosItems ts with
  | none => rw [h'] at h; cases h
  | some tps => rw [h'] at h; exact ⟨tps, rfl, by simpa using h⟩

/-- both directions in one equation -/
theorem parse_eq_erase (ts : List Item) :
    parseItems ts = (parsePosItems ts).map (List.map PP.erase) := parseItems_eq ts

/-- every position stored anywhere in a returned tree is the offset of an item of the input, and
    that item is of the token kind the field is for -/
theorem positions_are_token_offsets {ts : List Item} {tps : List PP} (h : parsePosItems ts = some tps) :
    ∀ tp ∈ tps, ∀ pk ∈ tp.posFacts, ∃ i ∈ ts, i.pos = pk.1 ∧ i.typ = pk.2 := by
  intro tp htp pk hpk
  obtain ⟨n, hn, hpk'⟩ := List.mem_flatMap.1 hpk
  exact (parsePosItems_ok h tp htp n hn).1 pk hpk'

/-- the start position of every attribute expression is `NodeStartPos` of its object -/
theorem attr_starts {ts : List Item} {tps : List PP} (h : parsePosItems ts = some tps) :
    ∀ tp ∈ tps, tp.attrStartOk :=
  fun tp htp n hn => (parsePosItems_ok h tp htp n hn).2.1

/-- the token kind recorded for a number literal's start is NUMBER or a folded sign (ADD, SUB), for a
    nil literal NIL or NULL; index expressions have one `[` and one `]` per index -/
theorem shapes {ts : List Item} {tps : List PP} (h : parsePosItems ts = some tps) :
    ∀ tp ∈ tps, ∀ n ∈ tp.nodes, n.shapeOk :=
  fun tp htp n hn => (parsePosItems_ok h tp htp n hn).2.2.1

/-- stored positions respect the source order: with strictly increasing item offsets, `lb < rb` /
    `lp < rp` for every list, map, paren, index, call and slice node, and `np < lp` for calls -/
theorem positions_in_order {ts : List Item} {tps : List PP} (hs : Sorted ts)
    (h : parsePosItems ts = some tps) : ∀ tp ∈ tps, tp.bracketsOrdered :=
  fun tp htp n hn => (parsePosItems_ok h tp htp n hn).2.2.2 hs

/-- stored positions respect the source order, node by node (see `PP.orderOk`) -/
theorem positions_source_ordered {ts : List Item} {tps : List PP} (hs : Sorted ts)
    (h : parsePosItems ts = some tps) : ∀ tp ∈ tps, tp.sourceOrdered :=
  parsePosItems_ordered hs h

/-- in particular: a binary node's operator position lies between the positions stored in its
    operands -/
theorem bin_operator_between {ts : List Item} {tps : List PP} (hs : Sorted ts)
    (h : parsePosItems ts = some tps) :
    ∀ tp ∈ tps, ∀ op l r p, PP.bin op l r p ∈ tp.nodes →
      (∀ q ∈ l.allPos, q < p) ∧ (∀ q ∈ r.allPos, p < q) :=
  fun tp htp _ _ _ _ hn => parsePosItems_ordered hs h tp htp _ hn

/-! ### non-vacuity: a concrete item list -/

/-- the items of `x = a.b[1] + f(k = - 1)[2:]` -/
def exItems : List Item :=
  [⟨.ID, 0, [120]⟩, ⟨.EQ, 2, [61]⟩, ⟨.ID, 4, [97]⟩, ⟨.DOT, 5, [46]⟩, ⟨.ID, 6, [98]⟩,
   ⟨.LEFT_BRACKET, 7, [91]⟩, ⟨.NUMBER, 8, [49]⟩, ⟨.RIGHT_BRACKET, 9, [93]⟩, ⟨.ADD, 11, [43]⟩,
   ⟨.ID, 13, [102]⟩, ⟨.LEFT_PAREN, 14, [40]⟩, ⟨.ID, 15, [107]⟩, ⟨.EQ, 17, [61]⟩, ⟨.SUB, 19, [45]⟩,
   ⟨.NUMBER, 21, [49]⟩, ⟨.RIGHT_PAREN, 22, [41]⟩, ⟨.LEFT_BRACKET, 23, [91]⟩, ⟨.NUMBER, 24, [50]⟩,
   ⟨.COLON, 25, [58]⟩, ⟨.RIGHT_BRACKET, 26, [93]⟩, ⟨.EOF, 27, []⟩]

/-- they are what the lexer model produces for that text -/
theorem exItems_lex : Lex.lexAll (bytesOf "x = a.b[1] + f(k = - 1)[2:]") = exItems := by decide +kernel

theorem exItems_sorted : Sorted exItems := by unfold Sorted; decide

/-- the tree with its positions: `=` at 2; the attribute expression starts at its object `a` (4);
    `b[1]` has its identifier at 6 and brackets at 7, 9; `+` at 11; the call has name 13 and
    parentheses 14, 22; the named argument's `=` at 17; the folded literal `- 1` starts at the sign
    (19, a SUB token), not at the digit (21); the slice brackets are at 23 and 26 -/
theorem example_positions :
    parsePosItems exItems = some
      [.assign .eq [.ident false [120] 0]
        [.bin .add
          (.attr (.ident false [97] 4) (.index (some (false, [98], 6)) [.num false [49] 8 .NUMBER] [7] [9]) 4)
          (.slice
            (.call false [102]
              [.assign .eq [.ident false [107] 15] [.num true [49] 19 .SUB] 17] 13 14 22)
            (some (.num false [50] 24 .NUMBER)) none none false 23 26)
          11]
        2] := by rfl

end Platypus.C17Tree
