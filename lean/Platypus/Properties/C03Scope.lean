import Platypus.Properties.C03
import Platypus.Proofs.ScopeEval
import Platypus.Proofs.ScopeLoops
/-!
# C03 (scoping part) — variables, blocks, reads, branch selection, loop counts

"An assignment updates the nearest enclosing variable of that name or else creates one local to
the current block, block-local variables vanish at block exit, and a name with no variable reads as
the input point's key of that name or nil."  "`for` and `for-in` run their bodies the specified
number of times in order (list order, string characters, every map key once)."  "`if/elif/else`
runs exactly the first branch whose condition is truthy."

1. *scope algebra* (`scopeGet_nearest`, `scopeSet_updates_nearest`, `scopeSet_creates_local`,
   `scopeGet_after_set`, `scopeGet_other`, `scopeSet_depth`, `scopeSet_through_block`);
2. *assignment* as `evalNode` performs it (`assign_sets_variable`, `compound_assign` and its three
   cases: variable / point key only / neither);
3. *blocks*: `block_exit_drops_locals`, `if_exit_drops_locals`, `for_exit_drops_locals`,
   `forin_exit_drops_locals` for the machine generic in the evaluator (hypothesis `Closed ev C`),
   and for the real evaluator on every program whose expressions are statement-free (`Prog`,
   `closed_evalNode`, `*_eval`, `script_keeps_one_scope`);
4. *reading* (`ident_reads_variable`, `unset_name_reads_point`);
5. *branch selection* (`if_runs_first_truthy_branch`, `if_runs_else`, `condTrue_table`);
6. *loops* as unrolling equations (`forin_list_*`, `forin_string_*`, `forin_map_*`,
   `permute_perm`, `mapKeyOrder_perm`);
7. three kernel-evaluated programs (`ScopeExample`, `example_block_scope`, `example_loop_scope`,
   `example_point_key_and_compound`).
-/
namespace Platypus.C03
open Platypus Platypus.MachineProofs Platypus.ScopeProofs

/-! ## 1. the scope stack -/

/-- lookup returns the innermost binding: if the scopes in front of `sc` do not bind `k` and `sc`
    binds it to `v`, the stack reads `v` for `k` — whatever the scopes behind `sc` hold -/
theorem scopeGet_nearest (pre : Scopes) (sc : List (Bytes × TV)) (post : Scopes) (k : Bytes) (v : TV)
    (hpre : ∀ p ∈ pre, alookup k p = none) (h : alookup k sc = some v) :
    scopeGet (pre ++ sc :: post) k = some v :=
  scopeGet_append pre sc post k v hpre h

/-- a name reads as unbound exactly if no scope of the stack binds it -/
theorem scopeGet_unbound_iff (scs : Scopes) (k : Bytes) :
    scopeGet scs k = none ↔ ∀ sc ∈ scs, alookup k sc = none :=
  scopeGet_eq_none_iff scs k

/-- `(*Stack).Set` on a bound name updates the nearest enclosing variable and nothing else: the
    stack splits as `pre ++ sc :: post` where no scope of `pre` binds `k` and `sc` binds it; the
    result is the same stack with `sc` replaced by `aset k v sc`, in which `k` now reads `v`, every
    other name reads as before and the names (and their order) are those of `sc`. -/
theorem scopeSet_updates_nearest (scs : Scopes) (k : Bytes) (v : TV) (h : scopeGet scs k ≠ none) :
    ∃ pre sc post old, scs = pre ++ sc :: post ∧ (∀ p ∈ pre, alookup k p = none) ∧
      alookup k sc = some old ∧
      scopeSet scs k v = pre ++ aset k v sc :: post ∧
      akeys (aset k v sc) = akeys sc ∧
      (∀ k', alookup k' (aset k v sc) = if k = k' then some v else alookup k' sc) := by
  cases hg : scopeGet scs k with
  | none => exact absurd hg h
  | some old =>
    obtain ⟨pre, sc, post, e, h1, h2⟩ := scopeGet_split hg
    have hs : (alookup k sc).isSome := by simp [h2]
    refine ⟨pre, sc, post, old, e, h1, h2, ?_, akeys_aset_bound v hs, fun k' => alookup_aset k' k v sc⟩
    have hh : scopeHas scs k = true := by rw [scopeHas_eq, hg]; rfl
    rw [scopeSet_of_has v hh, e]
    exact scopeUpdate_split pre sc post k v h1 hs

/-- `(*Stack).Set` on an unbound name creates the variable in the innermost scope only (appended
    after the names that scope already has); every other scope is untouched -/
theorem scopeSet_creates_local (sc : List (Bytes × TV)) (rest : Scopes) (k : Bytes) (v : TV)
    (h : scopeGet (sc :: rest) k = none) :
    scopeSet (sc :: rest) k v = (sc ++ [(k, v)]) :: rest := by
  have hh : scopeHas (sc :: rest) k = false := by rw [scopeHas_eq, h]; rfl
  rw [scopeSet_of_not_has v hh]
  have : alookup k sc = none := (scopeGet_eq_none_iff _ k).1 h sc (by simp)
  rw [aset_unbound v this]

/-- an empty stack stays empty (there is no current scope to create the variable in) -/
theorem scopeSet_empty (k : Bytes) (v : TV) : scopeSet [] k v = [] := rfl

/-- read after write: the assigned name reads the assigned value -/
theorem scopeGet_after_set (scs : Scopes) (hne : scs ≠ []) (k : Bytes) (v : TV) :
    scopeGet (scopeSet scs k v) k = some v :=
  scopeGet_scopeSet_same hne k v

/-- every other name reads the same before and after an assignment -/
theorem scopeGet_other (scs : Scopes) (k k' : Bytes) (v : TV) (hne : k ≠ k') :
    scopeGet (scopeSet scs k v) k' = scopeGet scs k' :=
  scopeGet_scopeSet_other hne scs v

/-- an assignment never changes the number of scopes -/
theorem scopeSet_depth (scs : Scopes) (k : Bytes) (v : TV) : (scopeSet scs k v).length = scs.length :=
  scopeSet_length scs k v

/-- an assignment inside a block to a name that only an *enclosing* scope binds goes through to
    that scope: after the block's scope `sc` is popped, the remaining stack is the outer stack
    with the assignment applied — updates to outer variables persist -/
theorem scopeSet_through_block (sc : List (Bytes × TV)) (outer : Scopes) (k : Bytes) (v : TV)
    (hin : alookup k sc = none) (hout : scopeGet outer k ≠ none) :
    scopeSet (sc :: outer) k v = sc :: scopeSet outer k v := by
  have h1 : scopeHas outer k = true := by
    rw [scopeHas_eq]; cases h : scopeGet outer k with
    | none => exact absurd h hout
    | some w => rfl
  have h2 : scopeHas (sc :: outer) k = true := by simp [scopeHas, h1]
  rw [scopeSet_of_has v h2, scopeSet_of_has v h1]
  simp [scopeUpdate, hin]

/-! ## 4. reading a name -/

/-- the state `s` with the variable `k` assigned (`ctx.SetVarb`): `_` stands for `message` -/
def setVar (s : St) (k : Bytes) (v : TV) : St :=
  { s with task := { s.task with scopes := scopeSet s.task.scopes (normKey k) v } }

theorem setVarb_apply (k : Bytes) (v : TV) (s : St) : setVarb k v s = .ok () (setVar s k v) := rfl

/-- `ctx.GetKey`: the variable if some scope binds the (normalised) name … -/
theorem getKey_variable (s : St) (k : Bytes) (v : TV) (h : scopeGet s.task.scopes (normKey k) = some v) :
    getKey s k = some v := by
  simp [getKey, h]

/-- … otherwise the point's key of that name (none if the point has no such key) -/
theorem getKey_point (s : St) (k : Bytes) (h : scopeGet s.task.scopes (normKey k) = none) :
    getKey s k = s.world.pt.get (normKey k) := by
  simp [getKey, h]

section
variable (env : Env)

/-- an identifier evaluates, without changing the state, to `GetKey` of its name, nil if absent -/
theorem evalNode_ident (f : Nat) (k : Bytes) (p : Pos) (s : St) :
    evalNode env (f+1) (.ident k p) s = .ok ((getKey s k).getD nilTV) s := by
  simp only [evalNode, bind, EM.bind, getS]
  cases getKey s k <;> rfl

/-- a name with a variable reads the innermost variable of that name, whatever the point holds -/
theorem ident_reads_variable (f : Nat) (k : Bytes) (p : Pos) (s : St) (v : TV)
    (h : scopeGet s.task.scopes (normKey k) = some v) :
    evalNode env (f+1) (.ident k p) s = .ok v s := by
  rw [evalNode_ident, getKey_variable s k v h]; rfl

/-- a name with no variable reads as the input point's key of that name, or nil -/
theorem unset_name_reads_point (f : Nat) (k : Bytes) (p : Pos) (s : St)
    (h : scopeGet s.task.scopes (normKey k) = none) :
    evalNode env (f+1) (.ident k p) s = .ok ((s.world.pt.get (normKey k)).getD nilTV) s := by
  rw [evalNode_ident, getKey_point s k h]

/-! ## 2. the assignment expression -/

/-- `x = e`: `e` is evaluated first; the value is stored with `(*Stack).Set` under the normalised
    name (`_` is `message`) in the state `e` left behind, and is the value of the expression.
    Nothing else of the state changes (`setVar`).  By `scopeSet_updates_nearest` /
    `scopeSet_creates_local` this updates the nearest enclosing variable or else creates one in the
    current scope. -/
theorem assign_sets_variable (f : Nat) (x : Bytes) (px : Pos) (e : Node) (p : Pos) (s s1 : St) (v : TV)
    (he : evalNode env f e s = .ok v s1) :
    evalNode env (f+2) (.assign .eq [.ident x px] [e] p) s = .ok v (setVar s1 x v) := by
  simp only [evalNode, evalAssign, bind_apply, he, rbind_ok, AsOp.arith, setVarb_apply, pure_apply]

/-- an error of the right-hand side is the error of the assignment; nothing is assigned -/
theorem assign_rhs_error (f : Nat) (op : AsOp) (x : Bytes) (px : Pos) (e : Node) (p : Pos) (s s1 : St)
    (er : PlErr) (he : evalNode env f e s = .err er s1) :
    evalNode env (f+2) (.assign op [.ident x px] [e] p) s = .err er s1 := by
  simp only [evalNode, evalAssign, bind_apply, he, rbind_err]

/-- `x op= e`: `e` is evaluated first, then the current value of `x` is read with `GetKey`
    (variable first, else the point's key).  If there is none, nothing is assigned and the
    expression is nil; otherwise the operator is applied and the result is stored *as a variable*;
    an operator error is a run error at the assignment's position. -/
theorem compound_assign (f : Nat) (op : AsOp) (aop : AOp) (x : Bytes) (px : Pos) (e : Node) (p : Pos)
    (s s1 : St) (rv : TV) (hop : op.arith = some aop) (he : evalNode env f e s = .ok rv s1) :
    evalNode env (f+2) (.assign op [.ident x px] [e] p) s =
      match getKey s1 x with
      | none => .ok nilTV s1
      | some lv =>
        match arith aop lv rv with
        | .ok v => .ok v (setVar s1 x v)
        | .error m => .err (PlErr.new s1.task.name p m) s1 := by
  simp only [evalNode, evalAssign, bind_apply, he, rbind_ok, hop, getS_apply]
  cases getKey s1 x with
  | none => rfl
  | some lv =>
    simp only []
    cases arith aop lv rv with
    | ok v => simp only [bind_apply, setVarb_apply, rbind_ok, pure_apply]
    | error m => rfl

/-- `x op= e` when `x` is a variable: the nearest enclosing variable is read and updated -/
theorem compound_assign_variable (f : Nat) (op : AsOp) (aop : AOp) (x : Bytes) (px : Pos) (e : Node) (p : Pos)
    (s s1 : St) (rv lv v : TV) (hop : op.arith = some aop) (he : evalNode env f e s = .ok rv s1)
    (hx : scopeGet s1.task.scopes (normKey x) = some lv) (ha : arith aop lv rv = .ok v) :
    evalNode env (f+2) (.assign op [.ident x px] [e] p) s = .ok v (setVar s1 x v) := by
  rw [compound_assign env f op aop x px e p s s1 rv hop he, getKey_variable s1 x lv hx]
  simp only [ha]

/-- `x op= e` when `x` is no variable but a key of the point: the *point's* value is read, and the
    result is stored in a **new variable local to the current scope** — the point is not written
    (`world` unchanged); from then on `x` reads the variable, which shadows the point's key. -/
theorem compound_assign_point_key (f : Nat) (op : AsOp) (aop : AOp) (x : Bytes) (px : Pos) (e : Node) (p : Pos)
    (s s1 : St) (rv lv v : TV) (sc : List (Bytes × TV)) (rest : Scopes)
    (hop : op.arith = some aop) (he : evalNode env f e s = .ok rv s1)
    (hsc : s1.task.scopes = sc :: rest)
    (hx : scopeGet s1.task.scopes (normKey x) = none) (hp : s1.world.pt.get (normKey x) = some lv)
    (ha : arith aop lv rv = .ok v) :
    evalNode env (f+2) (.assign op [.ident x px] [e] p) s = .ok v (setVar s1 x v) ∧
      (setVar s1 x v).world = s1.world ∧
      (setVar s1 x v).task.scopes = (sc ++ [(normKey x, v)]) :: rest ∧
      getKey (setVar s1 x v) x = some v := by
  have hs : (setVar s1 x v).task.scopes = (sc ++ [(normKey x, v)]) :: rest := by
    show scopeSet s1.task.scopes (normKey x) v = _
    rw [hsc] at hx ⊢
    exact scopeSet_creates_local sc rest _ v hx
  refine ⟨?_, rfl, hs, ?_⟩
  · rw [compound_assign env f op aop x px e p s s1 rv hop he, getKey_point s1 x hx, hp]
    simp only [ha]
  · apply getKey_variable
    show scopeGet (scopeSet s1.task.scopes (normKey x) v) (normKey x) = some v
    exact scopeGet_scopeSet_same (by rw [hsc]; simp) _ v

/-- `x op= e` when `x` is neither a variable nor a key of the point: **nothing is assigned**, the
    expression is nil and there is no error — the state is the one `e` left behind -/
theorem compound_assign_undefined (f : Nat) (op : AsOp) (aop : AOp) (x : Bytes) (px : Pos) (e : Node) (p : Pos)
    (s s1 : St) (rv : TV) (hop : op.arith = some aop) (he : evalNode env f e s = .ok rv s1)
    (hx : scopeGet s1.task.scopes (normKey x) = none) (hp : s1.world.pt.get (normKey x) = none) :
    evalNode env (f+2) (.assign op [.ident x px] [e] p) s = .ok nilTV s1 := by
  rw [compound_assign env f op aop x px e p s s1 rv hop he, getKey_point s1 x hx, hp]

end

/-! ## 3. blocks -/

/-- the statement nodes of `Proofs/Scope.lean` are those of `C03.isStmtNode` -/
theorem isStmt_eq (n : Node) : isStmt n = isStmtNode n := by cases n <;> rfl

/-- a block as `runIfs` and `forLoop` run it: push a scope, run the statements, pop the scope -/
def runBlockU (env : Env) (ev : Node → EM TV) (f : Nat) (b : List Node) : EM Unit := do
  pushScope; runStmts env ev f b; popScope

/-- same depth and the same names bound: what `KeysEq` says about reading names -/
theorem keysEq_reads {A B : Scopes} (h : KeysEq A B) :
    B.length = A.length ∧ ∀ k, scopeGet B k = none ↔ scopeGet A k = none :=
  ⟨h.length.symm, fun k => (h.scopeGet_none_iff k).symm⟩

section
variable (env : Env) (ev : Node → EM TV) (C : Node → Prop)

/-- **Block-local variables vanish at block exit** (machine generic in the evaluator).
    Let `C` be a class of nodes closed under the machine's descent whose expressions `ev` evaluates
    changing the scope stack at most like an assignment (`Closed ev C`; for `C = everything` this
    is just `∀ e, ScopeStepAt ev e`).  If a block of `C`-statements run from `s` ends successfully in
    `s'`, then `s'` has the same number of scopes as `s`, and every scope binds exactly the same
    names as before (`KeysEq`): whatever was created inside is gone, nothing outside was created
    or removed (values of outer variables may have changed). -/
theorem block_keeps_scope_names (hcl : Closed ev C) (f : Nat) (b : List Node) (hb : ∀ n ∈ b, C n)
    (s s' : St) (u : Unit) (h : runBlockU env ev f b s = .ok u s') :
    KeysEq s.task.scopes s'.task.scopes := by
  have := KeysM.block ((mouter_all (env := env) hcl f).stmts b hb) s
  unfold runBlockU at h
  rw [h] at this
  exact this

/-- `block_keeps_scope_names`, in terms of what names read: the number of scopes is the same, and
    a name is unbound after the block exactly if it was unbound before — in particular every
    variable created inside the block has vanished. -/
theorem block_exit_drops_locals (hcl : Closed ev C) (f : Nat) (b : List Node) (hb : ∀ n ∈ b, C n)
    (s s' : St) (u : Unit) (h : runBlockU env ev f b s = .ok u s') :
    s'.task.scopes.length = s.task.scopes.length ∧
      ∀ k, scopeGet s'.task.scopes k = none ↔ scopeGet s.task.scopes k = none :=
  keysEq_reads (block_keeps_scope_names env ev C hcl f b hb s s' u h)

/-- the special case "every node": for an evaluator that is scope-safe on every expression
    (`∀ e, ScopeStepAt ev e`) the block theorem holds for every block -/
theorem block_exit_drops_locals_all (hev : ∀ e, ScopeStepAt ev e) (f : Nat) (b : List Node)
    (s s' : St) (u : Unit) (h : runBlockU env ev f b s = .ok u s') :
    s'.task.scopes.length = s.task.scopes.length ∧
      ∀ k, scopeGet s'.task.scopes k = none ↔ scopeGet s.task.scopes k = none :=
  block_exit_drops_locals env ev _ (Closed.all hev) f b (fun _ _ => trivial) s s' u h

/-- the same for a whole `if/elif/else` statement: also the names its *conditions* create vanish -/
theorem if_exit_drops_locals (hcl : Closed ev C) (f : Nat) (ifs els p) (hC : C (.ifelse ifs els p))
    (s s' : St) (v : TV) (h : runStmt env ev (f+1) (.ifelse ifs els p) s = .ok v s') :
    KeysEq s.task.scopes s'.task.scopes ∧ s'.task.scopes.length = s.task.scopes.length ∧
      ∀ k, scopeGet s'.task.scopes k = none ↔ scopeGet s.task.scopes k = none := by
  have := ifelse_keys (env := env) hcl (mouter_all hcl f) ifs els p hC s
  rw [h] at this
  exact ⟨this, keysEq_reads this⟩

/-- the same for a whole `for init; cond; step { body }` statement: the names created by `init`,
    `cond`, `step` and the body are all gone after the loop -/
theorem for_exit_drops_locals (hcl : Closed ev C) (f : Nat) (ini c l body p) (hC : C (.forS ini c l body p))
    (s s' : St) (v : TV) (h : runStmt env ev (f+1) (.forS ini c l body p) s = .ok v s') :
    KeysEq s.task.scopes s'.task.scopes ∧ s'.task.scopes.length = s.task.scopes.length ∧
      ∀ k, scopeGet s'.task.scopes k = none ↔ scopeGet s.task.scopes k = none := by
  have := forS_keys (env := env) hcl (mouter_all hcl f) ini c l body p hC s
  rw [h] at this
  exact ⟨this, keysEq_reads this⟩

/-- the same for a whole `for x in e { body }` statement: the loop variable (unless an enclosing
    variable of that name exists, which is then the one assigned) and the body's names are gone -/
theorem forin_exit_drops_locals (hcl : Closed ev C) (f : Nat) (var iter body p1 p2)
    (hC : C (.forIn var iter body p1 p2))
    (s s' : St) (v : TV) (h : runStmt env ev (f+1) (.forIn var iter body p1 p2) s = .ok v s') :
    KeysEq s.task.scopes s'.task.scopes ∧ s'.task.scopes.length = s.task.scopes.length ∧
      ∀ k, scopeGet s'.task.scopes k = none ↔ scopeGet s.task.scopes k = none := by
  have := forIn_keys (env := env) hcl (mouter_all hcl f) var iter body p1 p2 hC s
  rw [h] at this
  exact ⟨this, keysEq_reads this⟩

/-- in between — a statement list run *in* the current scope (no push): same depth, and every
    scope **but the current one** binds the same names; the current scope may have gained names
    (or, inside `for-in`, been cleared) -/
theorem stmts_keep_outer_scopes (hcl : Closed ev C) (f : Nat) (b : List Node) (hb : ∀ n ∈ b, C n)
    (s s' : St) (u : Unit) (h : runStmts env ev f b s = .ok u s') :
    s'.task.scopes.length = s.task.scopes.length ∧
      (scopeKeys s'.task.scopes).tail = (scopeKeys s.task.scopes).tail := by
  have := (mouter_all (env := env) hcl f).stmts b hb s
  rw [h] at this
  exact ⟨this.1.symm, this.2.symm⟩

end

/-! ### the real evaluator -/

/-- programs as the grammar shapes them: every expression the machine hands to the evaluator is
    statement-free (`SFree`), recursively through `if`, `for` and `for-in` -/
inductive Prog : Node → Prop
  | expr {e} : SFree e → Prog e
  | brk (p) : Prog (.brk p)
  | cont (p) : Prog (.cont p)
  | ifelse {ifs : List (Node × Option (List Node) × Pos)} {els : Option (List Node)} (p) :
      (∀ x ∈ ifs, Prog x.1) → (∀ x ∈ ifs, ∀ blk, x.2.1 = some blk → ∀ n ∈ blk, Prog n) →
      (∀ blk, els = some blk → ∀ n ∈ blk, Prog n) → Prog (.ifelse ifs els p)
  | forS {ini c l : Option Node} {body : Option (List Node)} (p) :
      (∀ n, ini = some n → Prog n) → (∀ n, c = some n → Prog n) → (∀ n, l = some n → Prog n) →
      (∀ blk, body = some blk → ∀ n ∈ blk, Prog n) → Prog (.forS ini c l body p)
  | forIn (var) {iter} {body : Option (List Node)} (p1 p2) :
      Prog iter → (∀ blk, body = some blk → ∀ n ∈ blk, Prog n) → Prog (.forIn var iter body p1 p2)

/-- on statement-free expressions the v1 evaluator `evalNode` — assignments, operators, indexing,
    slices, every builtin call including `use()` (fresh task for the callee, the caller's task
    restored) — changes the scope stack at most like an assignment: same depth, same names in every
    scope but the innermost.  This holds for successful runs and for runs ending in an error. -/
theorem evalNode_scope_step (env : Env) (f : Nat) (e : Node) (he : SFree e) :
    ScopeStepAt (evalNode env f) e ∧ AllM (evalNode env f e) :=
  ⟨((eouter_all env f).node e he).outer, (eouter_all env f).node e he⟩

/-- the programs `Prog` are closed under the machine's descent and scope-safe for `evalNode` -/
theorem closed_evalNode (env : Env) (f : Nat) : Closed (evalNode env f) Prog := by
  refine ⟨?_, ?_, ?_, ?_⟩
  · intro e he hs
    cases he with
    | expr h => exact (evalNode_scope_step env f e h).1
    | brk p => simp [isStmt] at hs
    | cont p => simp [isStmt] at hs
    | ifelse p h1 h2 h3 => simp [isStmt] at hs
    | forS p h1 h2 h3 h4 => simp [isStmt] at hs
    | forIn v p1 p2 h1 h2 => simp [isStmt] at hs
  · intro ifs els p h
    cases h with
    | expr h => cases h
    | ifelse p h1 h2 h3 => exact ⟨fun x hx => ⟨h1 x hx, h2 x hx⟩, h3⟩
  · intro ini c l body p h
    cases h with
    | expr h => cases h
    | forS p h1 h2 h3 h4 => exact ⟨h1, h2, h3, h4⟩
  · intro var iter body p1 p2 h
    cases h with
    | expr h => cases h
    | forIn v p1 p2 h1 h2 => exact ⟨h1, h2⟩

/-- **block-local variables vanish at block exit, for the real evaluator**: for every environment,
    fuels, state and block of grammar-shaped statements -/
theorem block_exit_drops_locals_eval (env : Env) (g f : Nat) (b : List Node) (hb : ∀ n ∈ b, Prog n)
    (s s' : St) (u : Unit) (h : runBlockU env (evalNode env g) f b s = .ok u s') :
    KeysEq s.task.scopes s'.task.scopes ∧ s'.task.scopes.length = s.task.scopes.length ∧
      ∀ k, scopeGet s'.task.scopes k = none ↔ scopeGet s.task.scopes k = none :=
  ⟨block_keeps_scope_names env _ Prog (closed_evalNode env g) f b hb s s' u h,
   block_exit_drops_locals env _ Prog (closed_evalNode env g) f b hb s s' u h⟩

/-- every `if`, `for` and `for-in` statement of a grammar-shaped program, run by the machine over
    the real evaluator, leaves every scope with exactly the names it had -/
theorem stmt_exit_drops_locals_eval (env : Env) (g f : Nat) (n : Node) (hn : Prog n) (hs : isStmt n = true)
    (s s' : St) (v : TV) (h : runStmt env (evalNode env g) (f+1) n s = .ok v s') :
    KeysEq s.task.scopes s'.task.scopes := by
  have hcl := closed_evalNode env g
  cases n <;> simp [isStmt] at hs
  case ifelse ifs els p => exact (if_exit_drops_locals env _ Prog hcl f ifs els p hn s s' v h).1
  case forS ini c l body p => exact (for_exit_drops_locals env _ Prog hcl f ini c l body p hn s s' v h).1
  case forIn var iter body p1 p2 => exact (forin_exit_drops_locals env _ Prog hcl f var iter body p1 p2 hn s s' v h).1
  case brk p =>
    simp only [runStmt, bind_apply, modTask_apply, rbind_ok, pure_apply] at h
    cases h; exact KeysEq.refl _
  case cont p =>
    simp only [runStmt, bind_apply, modTask_apply, rbind_ok, pure_apply] at h
    cases h; exact KeysEq.refl _

/-- a whole script (`(*Script).Run`, which starts with one empty scope) ends with one scope -/
theorem script_keeps_one_scope (env : Env) (fuel : Nat) (name : Bytes) (stmts : List Node) (w : World)
    (hp : ∀ n ∈ stmts, Prog n) (s' : St) (u : Unit) (h : runScript env fuel name stmts w = .ok u s') :
    s'.task.scopes.length = 1 := by
  have := stmts_keep_outer_scopes env _ Prog (closed_evalNode env fuel) fuel stmts hp _ s' u h
  exact this.1

/-! ## 5. truthiness and branch selection -/

/-- a branch as `runIfs` runs it: the block in a scope of its own; a missing block is a no-op -/
def runBranch (env : Env) (ev : Node → EM TV) (f : Nat) (blk : Option (List Node)) : EM TV :=
  match blk with
  | some b => do pushScope; runStmts env ev f b; popScope; pure voidTV
  | none => pure voidTV

/-- `SkipConds env ev f pre s f' s'`: starting in `s` with fuel `f`, the conditions of the branches
    `pre` are evaluated one after the other (each in the state the previous one left), every one of
    them is falsy, and the evaluation ends in `s'` with fuel `f'` left (one unit per condition) -/
inductive SkipConds (env : Env) (ev : Node → EM TV) :
    Nat → List (Node × Option (List Node) × Pos) → St → Nat → St → Prop
  | nil (f s) : SkipConds env ev f [] s f s
  | cons {f c blk p rest s v s1 f' s'} : runStmt env ev f c s = .ok v s1 →
      condTrue s1.world.heap v = false → SkipConds env ev f rest s1 f' s' →
      SkipConds env ev (f+1) ((c, blk, p) :: rest) s f' s'

section
variable (env : Env) (ev : Node → EM TV)

/-- without (further) conditions the `else` block runs, if there is one -/
theorem runIfs_else (f : Nat) (els : Option (List Node)) :
    runIfs env ev (f+1) [] els = runBranch env ev f els := by
  cases els <;> simp only [runIfs, runBranch]

/-- one `if`/`elif`: the condition is evaluated; if its value is truthy the branch runs and
    *neither the remaining conditions nor the else block are looked at*; if it is falsy the
    remaining branches are tried in the state the condition left; an error of the condition is the
    error of the statement -/
theorem runIfs_branch (f : Nat) (c : Node) (blk : Option (List Node)) (p : Pos)
    (rest : List (Node × Option (List Node) × Pos)) (els : Option (List Node)) (s : St) :
    runIfs env ev (f+1) ((c, blk, p) :: rest) els s =
      match runStmt env ev f c s with
      | .ok v s1 => if condTrue s1.world.heap v then runBranch env ev f blk s1 else runIfs env ev f rest els s1
      | .err e s1 => .err e s1
      | .panic m => .panic m
      | .fuel => .fuel
      | .need q => .need q := by
  simp only [runIfs, bind_apply]
  cases runStmt env ev f c s with
  | ok v s1 =>
    simp only [rbind_ok]
    rw [bind_apply, getS_apply, rbind_ok]
    cases hct : condTrue s1.world.heap v
    · simp only [Bool.false_eq_true, if_false]
    · simp only [if_true]; cases blk <;> rfl
  | err e s1 => rfl
  | panic m => rfl
  | fuel => rfl
  | need q => rfl

/-- conditions that evaluate falsy are skipped -/
theorem runIfs_skip {f pre s f' s'} (h : SkipConds env ev f pre s f' s')
    (rest : List (Node × Option (List Node) × Pos)) (els : Option (List Node)) :
    runIfs env ev f (pre ++ rest) els s = runIfs env ev f' rest els s' := by
  induction h with
  | nil f s => rfl
  | cons hc hf _ ih =>
    rw [List.cons_append, runIfs_branch, hc]
    simp only [hf, Bool.false_eq_true, if_false]
    exact ih

/-- **`if/elif/else` runs exactly the first branch whose condition is truthy**: if the conditions
    of the branches `pre` evaluate falsy (in order, each in the state left by the previous one) and
    the next condition `c` evaluates to a truthy value, the statement runs the block of `c` — in
    the state `c` left — and nothing else: the result does not depend on the later branches `post`
    or on the else block, whose conditions are never evaluated. -/
theorem if_runs_first_truthy_branch {f pre s f' s'} (h : SkipConds env ev f pre s (f'+1) s')
    (c : Node) (blk : Option (List Node)) (p : Pos) (post : List (Node × Option (List Node) × Pos))
    (els : Option (List Node)) (v : TV) (s1 : St)
    (hc : runStmt env ev f' c s' = .ok v s1) (ht : condTrue s1.world.heap v = true) :
    runIfs env ev f (pre ++ (c, blk, p) :: post) els s = runBranch env ev f' blk s1 := by
  rw [runIfs_skip env ev h, runIfs_branch, hc]
  simp only [ht, if_true]

/-- if every condition evaluates falsy, the else block runs (in the state the last condition
    left); without an else block nothing runs -/
theorem if_runs_else {f ifs s f' s'} (h : SkipConds env ev f ifs s (f'+1) s') (els : Option (List Node)) :
    runIfs env ev f ifs els s = runBranch env ev f' els s' := by
  have := runIfs_skip env ev h [] els
  rw [List.append_nil] at this
  rw [this, runIfs_else]

end

/-- the documented truthiness table on literal values: `0`, `0.0` (either sign), `""`, `nil`, the
    empty list and the empty map are false; `false` is false, `true` is true; non-zero numbers,
    non-empty strings, lists and maps are true.  (The general case analysis on type tags is
    `C02Facts.condTrue_cases_match` / `condTrue_default_false`.) -/
theorem condTrue_table (h : Heap) (a : Nat) :
    condTrue h ⟨.int 0, .int⟩ = false ∧ condTrue h ⟨.int 1, .int⟩ = true ∧
    condTrue h ⟨.str [], .str⟩ = false ∧ condTrue h ⟨.str [48], .str⟩ = true ∧
    condTrue h ⟨.bool false, .bool⟩ = false ∧ condTrue h ⟨.bool true, .bool⟩ = true ∧
    condTrue h ⟨.nil, .nil⟩ = false ∧
    (h.get? a = some (.list []) → condTrue h ⟨.ref a, .list⟩ = false) ∧
    (∀ x xs, h.get? a = some (.list (x :: xs)) → condTrue h ⟨.ref a, .list⟩ = true) ∧
    (h.get? a = some (.map []) → condTrue h ⟨.ref a, .map⟩ = false) ∧
    (∀ x xs, h.get? a = some (.map (x :: xs)) → condTrue h ⟨.ref a, .map⟩ = true) := by
  refine ⟨rfl, rfl, rfl, rfl, rfl, rfl, rfl, ?_, ?_, ?_, ?_⟩
  · intro e; simp [condTrue, listLen, e]
  · intro x xs e; simp [condTrue, listLen, e]
  · intro e; simp [condTrue, mapLen?, e]
  · intro x xs e; simp [condTrue, mapLen?, e]

/-! ## 6. loops -/

/-- the body of a `for-in` iteration: the statements, run in the loop's own scope (no further push) -/
def loopBody (env : Env) (ev : Node → EM TV) (f : Nat) (body : Option (List Node)) : EM Unit :=
  match body with
  | some b => runStmts env ev f b
  | none => pure ()

/-- the body of a `for` iteration: the statements in a block scope of their own -/
def forBody (env : Env) (ev : Node → EM TV) (f : Nat) (body : Option (List Node)) : EM Unit :=
  match body with
  | some b => runBlockU env ev f b
  | none => pure ()

/-- the condition of a `for` loop: absent means true -/
def forCond (env : Env) (ev : Node → EM TV) (f : Nat) (c : Option Node) : EM Bool :=
  match c with
  | some cn => do
    let v ← runStmt env ev f cn
    let s ← getS
    pure (condTrue s.world.heap v)
  | none => pure true

/-- the step clause of a `for` loop -/
def forStep (env : Env) (ev : Node → EM TV) (f : Nat) (l : Option Node) : EM Unit :=
  match l with
  | some ln => do let _ ← runStmt env ev f ln
  | none => pure ()

/-- the state with the innermost scope emptied (`clearScope`) -/
def clearSt (s : St) : St :=
  { s with task := { s.task with scopes := match s.task.scopes with | [] => [] | _ :: r => [] :: r } }

/-- the element a list iteration reads at index `i`: read *live* from the heap at iteration time -/
def liveElem (s : St) (a i : Nat) : TV :=
  detect s.world.heap (match s.world.heap.get? a with | some (.list xs) => xs.getD i .nil | _ => .nil)

/-- the order in which a map iteration started in state `s` visits the keys: the permutation of the
    sorted keys that the order oracle selects for this iteration -/
def mapKeyOrder (env : Env) (s : St) (kvs : List (Bytes × Val)) : List Bytes :=
  permute (kvs.length + 1) (akeys (sortKeys kvs)) (env.mapOrder s.world.mapIters)

section
variable (env : Env) (ev : Node → EM TV)

/-- **`for init; cond; step { body }`** — one round of the loop (after `init`), as an unrolling
    equation: poll for exit; evaluate the condition (absent = true) and stop if it is falsy; run
    the body in a block scope of its own; then the loop tail `MachineProofs.loopTail` — a pending
    `break` is consumed and ends the loop, a pending `continue` is consumed, exit ends the loop
    (`loopTail_brk`, `loopTail_cont`, `loopTail_clr`) — and otherwise the step clause runs and the
    loop goes round again.  So the body runs once per round for as long as the condition holds. -/
theorem for_runs_while_condition_holds (f : Nat) (c l : Option Node) (body : Option (List Node)) :
    forLoop env ev (f+1) c l body = (do
      if (← procExit env) then return voidTV
      let go ← forCond env ev f c
      if !go then return voidTV
      forBody env ev f body
      loopTail env (do forStep env ev f l; forLoop env ev f c l body)) := by
  rw [forLoop.eq_def]
  cases c <;> cases l <;> cases body <;>
    simp only [forBody, forCond, forStep, runBlockU, loopTail, em_bind_assoc, em_pure_bind] <;> rfl

/-- iteration over precomputed items (the keys of a map) is over when no item is left -/
theorem forin_items_done (f : Nat) (var : Node) (pos : Pos) (body : Option (List Node)) :
    forInItems env ev (f+1) var pos [] none body = pure voidTV := by
  rw [forInItems.eq_def]; rfl

/-- **iteration over items, in order**: with items `x :: r` left, the loop scope is cleared, the
    loop variable is assigned `x` (`setVarb`: the nearest enclosing variable of that name, else a
    new one in the loop scope), the body runs once, and — unless `break`, exit or an error
    intervenes (`loopTail`) — the iteration continues with the remaining items `r`. -/
theorem forin_items_runs_each_item_in_order (f : Nat) (name : Bytes) (pv pos : Pos) (x : TV) (r : List TV)
    (body : Option (List Node)) (hx : x.t ≠ .invalid) :
    forInItems env ev (f+1) (.ident name pv) pos (x :: r) none body = (do
      clearScope
      setVarb name x
      loopBody env ev f body
      loopTail env (forInItems env ev f (.ident name pv) pos r none body)) := by
  rw [forInItems.eq_def]
  simp only [em_pure_bind, hx, if_false]
  cases body <;> rfl

/-- every `for-in` iteration over items or list elements starts with an *empty* loop scope: what
    the previous iteration's body created there is gone before the loop variable is assigned, so
    the next iteration does not see it -/
theorem forin_iteration_starts_fresh (name : Bytes) (x : TV) (s : St) :
    (do clearScope; setVarb name x : EM Unit) s = .ok () (setVar (clearSt s) name x) ∧
      (clearSt s).task.scopes.head? = (if s.task.scopes = [] then none else some []) ∧
      (clearSt s).task.scopes.tail = s.task.scopes.tail := by
  refine ⟨rfl, ?_, ?_⟩ <;> cases h : s.task.scopes <;> simp [clearSt, h]

/-- a list iteration is over when the index has reached the length the list had at the start -/
theorem forin_list_done (f : Nat) (var : Node) (pos : Pos) (items : List TV) (a i n : Nat)
    (body : Option (List Node)) (hi : ¬ i < n) :
    forInItems env ev (f+1) var pos items (some (a, i, n)) body = pure voidTV := by
  rw [forInItems.eq_def]
  simp only [hi, if_false, em_pure_bind]

/-- **`for x in list` binds `x` to each element in list order**: at index `i < n` (`n` = the length
    at the start) the loop scope is cleared, the loop variable is assigned the element at index `i`
    as the heap holds it *now* (`liveElem`), the body runs once, and — unless `break`, exit or an
    error intervenes — the iteration continues at index `i+1`. -/
theorem forin_list_runs_each_element_in_order (f : Nat) (name : Bytes) (pv pos : Pos) (items : List TV)
    (a i n : Nat) (body : Option (List Node)) (s : St) (hi : i < n) (hx : (liveElem s a i).t ≠ .invalid) :
    forInItems env ev (f+1) (.ident name pv) pos items (some (a, i, n)) body s = (do
      clearScope
      setVarb name (liveElem s a i)
      loopBody env ev f body
      loopTail env (forInItems env ev f (.ident name pv) pos [] (some (a, i + 1, n)) body)) s := by
  rw [forInItems.eq_def]
  simp only [hi, if_true]
  rw [bind_apply, bind_apply, getS_apply, rbind_ok, pure_apply, rbind_ok]
  unfold liveElem at hx ⊢
  cases hh : s.world.heap.get? a with
  | none =>
    rw [hh] at hx; dsimp only at hx ⊢
    rw [if_neg hx]; cases body <;> rfl
  | some o =>
    rw [hh] at hx
    cases o <;> dsimp only at hx ⊢ <;> rw [if_neg hx] <;> cases body <;> rfl

/-- an element the heap no longer resolves (a dangling reference) is an `inner-type` error at the
    iterable's position, raised after the loop scope has been cleared -/
theorem forin_list_bad_element (f : Nat) (var : Node) (pos : Pos) (items : List TV)
    (a i n : Nat) (body : Option (List Node)) (s : St) (hi : i < n) (hx : (liveElem s a i).t = .invalid) :
    forInItems env ev (f+1) var pos items (some (a, i, n)) body s =
      .err (PlErr.new s.task.name pos "inner-type") (clearSt s) := by
  rw [forInItems.eq_def]
  simp only [hi, if_true]
  rw [bind_apply, bind_apply, getS_apply, rbind_ok, pure_apply, rbind_ok]
  unfold liveElem at hx
  cases hh : s.world.heap.get? a with
  | none =>
    rw [hh] at hx; dsimp only at hx ⊢
    rw [if_pos hx]; rfl
  | some o =>
    rw [hh] at hx
    cases o <;> dsimp only at hx ⊢ <;> rw [if_pos hx] <;> rfl

/-- `for x in <list>` starts at index 0 and runs to the length the list has at the start -/
theorem forin_list_entry (f : Nat) (var : Node) (a : Nat) (pos : Pos) (body : Option (List Node)) (s : St)
    (xs : List Val) (h : s.world.heap.get? a = some (.list xs)) :
    Platypus.forIn env ev (f+1) var ⟨.ref a, .list⟩ pos body s =
      forInItems env ev f var pos [] (some (a, 0, xs.length)) body s := by
  simp only [Platypus.forIn, bind_apply, getS_apply, rbind_ok, h]

/-- `for x in <string>` iterates over the UTF-8 characters of the string (`Utf8.runesOf`: an invalid
    byte yields U+FFFD and is one character, as in Go's `range`) -/
theorem forin_string_entry (f : Nat) (var : Node) (b : Bytes) (pos : Pos) (body : Option (List Node)) :
    Platypus.forIn env ev (f+1) var ⟨.str b, .str⟩ pos body = forInStr env ev f var (Utf8.runesOf b) body := by
  simp only [Platypus.forIn]

/-- a string iteration is over when no character is left -/
theorem forin_string_done (f : Nat) (var : Node) (body : Option (List Node)) :
    forInStr env ev (f+1) var [] body = pure voidTV := by
  simp only [forInStr]

/-- **`for x in string` runs the body once per character, in order**: with characters `r :: rest`
    left, the loop variable is assigned the string `r`, the body runs once, *then* the loop scope is
    cleared, and — unless `break`, exit or an error intervenes — the iteration continues with `rest`. -/
theorem forin_string_runs_each_character (f : Nat) (name : Bytes) (pv : Pos) (r : Bytes) (rest : List Bytes)
    (body : Option (List Node)) :
    forInStr env ev (f+1) (.ident name pv) (r :: rest) body = (do
      setVarb name ⟨.str r, .str⟩
      loopBody env ev f body
      clearScope
      loopTail env (forInStr env ev f (.ident name pv) rest body)) := by
  rw [forInStr.eq_def]
  cases body <;> rfl

/-- the characters of a string: nothing for the empty string; otherwise the first decoded
    character followed by the characters of the rest — their concatenation covers the string -/
theorem string_characters (s r : Bytes) (w : Nat) (h : Utf8.decode s = some (r, w)) :
    Utf8.runesOf [] = [] ∧ Utf8.runesOf s = r :: Utf8.runesOf (s.drop w) ∧ 1 ≤ w :=
  ⟨rfl, runesOf_cons h, (decode_width_pos h).1⟩

/-- an ASCII string has one character per byte -/
theorem ascii_characters (b : UInt8) (rest : Bytes) (h : b < 0x80) :
    Utf8.runesOf (b :: rest) = [b] :: Utf8.runesOf rest := by
  rw [runesOf_cons (decode_ascii b rest h)]; rfl

/-- `for k in <map>` iterates over precomputed string items: the map's keys in the order
    `mapKeyOrder` (chosen by the order oracle for this iteration; the iteration counter advances) -/
theorem forin_map_entry (f : Nat) (var : Node) (a : Nat) (pos : Pos) (body : Option (List Node)) (s : St)
    (kvs : List (Bytes × Val)) (h : s.world.heap.get? a = some (.map kvs)) :
    Platypus.forIn env ev (f+1) var ⟨.ref a, .map⟩ pos body s =
      forInItems env ev f var pos ((mapKeyOrder env s kvs).map fun k => (⟨.str k, .str⟩ : TV)) none body
        { s with world := { s.world with mapIters := s.world.mapIters + 1 } } := by
  simp only [Platypus.forIn, bind_apply, getS_apply, rbind_ok, h, modWorld_apply, mapKeyOrder]

/-- **every map key once**: whatever the order oracle answers, the keys a map iteration visits are
    a permutation of the map's keys (each key of the map exactly as often as the map has it —
    once, the heap's maps having unique keys) -/
theorem mapKeyOrder_perm (env : Env) (s : St) (kvs : List (Bytes × Val)) :
    (mapKeyOrder env s kvs).Perm (akeys kvs) := by
  have h1 : (akeys (sortKeys kvs)).Perm (akeys kvs) := (sortKeys_perm kvs).map _
  refine (permute_perm _ _ _ ?_).trans h1
  rw [h1.length_eq]; simp [akeys]

/-- anything but a string, a list or a map is not iterable -/
theorem forin_not_iterable (f : Nat) (var : Node) (it : TV) (pos : Pos) (body : Option (List Node)) (s : St)
    (h1 : it.t ≠ .str) (h2 : it.t ≠ .list) (h3 : it.t ≠ .map) :
    Platypus.forIn env ev (f+1) var it pos body s = .err (PlErr.new s.task.name pos "not-iterable") s := by
  obtain ⟨v, t⟩ := it
  cases t <;> simp_all [Platypus.forIn, runErr_apply]

end

/-- `permute` with enough fuel yields a permutation, whatever the code -/
theorem permute_is_permutation {α} (f : Nat) (xs : List α) (code : Nat) (h : xs.length ≤ f) :
    (permute f xs code).Perm xs := permute_perm f xs code h

/-! ## 7. non-vacuity: concrete programs run by the model (kernel-evaluated) -/

namespace ScopeExample
def x : Bytes := [120]
def y : Bytes := [121]
def z : Bytes := [122]
def i : Bytes := [105]
def k : Bytes := [107]
def u : Bytes := [117]
def pName : Bytes := [112]              -- the probe `p`
def p0 : Pos := ⟨0, 1, 1⟩
/-- renderings of probe arguments: `int=i<n>` and `nil=n` -/
def rInt (d : UInt8) : Bytes := [105, 110, 116, 61, 105, d]
def rNil : Bytes := [110, 105, 108, 61, 110]
/-- only the probe `p` is registered; no signal -/
def env : Env :=
  { bound := fun _ => none, fns := [pName], sigK := none, hasSignal := false, mapOrder := fun _ => 0,
    oracle := fun _ => none }
def asg (k : Bytes) (e : Node) : Node := .assign .eq [.ident k p0] [e] p0
def probe (args : List Node) : Node := .call pName args p0 p0 p0 0

/-- `x = 1; if true { y = 2; x = 3; p(x, y) }; p(x, y)` -/
def prog1 : List Node :=
  [ asg x (.intLit 1 p0),
    .ifelse [(.boolLit true p0,
        some [asg y (.intLit 2 p0), asg x (.intLit 3 p0), probe [.ident x p0, .ident y p0]], p0)] none p0,
    probe [.ident x p0, .ident y p0] ]

/-- `for i = 0; i < 2; i = i + 1 { p(i, z); z = 1; p(z) }; p(i, z)` -/
def prog2 : List Node :=
  [ .forS (some (asg i (.intLit 0 p0))) (some (.cond .lt (.ident i p0) (.intLit 2 p0) p0))
      (some (asg i (.arith .add (.ident i p0) (.intLit 1 p0) p0)))
      (some [probe [.ident i p0, .ident z p0], asg z (.intLit 1 p0), probe [.ident z p0]]) p0,
    probe [.ident i p0, .ident z p0] ]

/-- a point with the int field `k = 5` -/
def pt : Point := Point.init [109] [] [(k, .int 5)] 7
/-- `p(k, u); u += 1; p(u); k += 1; p(k)` -/
def prog3 : List Node :=
  [ probe [.ident k p0, .ident u p0],
    .assign .addEq [.ident u p0] [.intLit 1 p0] p0,
    probe [.ident u p0],
    .assign .addEq [.ident k p0] [.intLit 1 p0] p0,
    probe [.ident k p0] ]

set_option hygiene false in
/-- build a `Prog` / `SFree` derivation for a concrete syntax tree -/
macro "prog_shape_step" : tactic => `(tactic| first
  | (refine List.forall_mem_cons.2 ⟨?_, ?_⟩)
  | (intro _ h; cases h; done)
  | (intro _ h; cases h)
  | apply Prog.ifelse | apply Prog.forS | apply Prog.forIn | apply Prog.brk | apply Prog.cont
  | (apply Prog.expr; constructor)
  | constructor)
macro "prog_shape" : tactic => `(tactic| repeat' prog_shape_step)

theorem prog1_shaped : ∀ n ∈ prog1, Prog n := by unfold prog1 asg probe; prog_shape
theorem prog2_shaped : ∀ n ∈ prog2, Prog n := by unfold prog2 asg probe; prog_shape
theorem prog3_shaped : ∀ n ∈ prog3, Prog n := by unfold prog3 probe; prog_shape
end ScopeExample

open ScopeExample in
/-- (i) `x = 1; if true { y = 2; x = 3; p(x, y) }; p(x, y)`: inside the block the probe sees
    `x = 3, y = 2`; after the block it sees `x = 3` (the update of the outer variable persists) and
    `y = nil` (the block-local variable has vanished); the script ends with the single scope
    `[x ↦ 3]`.  (The trace is newest first.) -/
theorem example_block_scope :
    (match runScript env 20 [] prog1 {} with
     | .ok _ s => some (s.task.scopes, s.world.trace)
     | _ => none)
    = some ([[(x, ⟨.int 3, .int⟩)]],
        [.probe pName [rInt 51, rNil], .probe pName [rInt 51, rInt 50]]) := by decide +kernel

open ScopeExample in
/-- (ii) `for i = 0; i < 2; i = i + 1 { p(i, z); z = 1; p(z) }; p(i, z)`: in both iterations the
    first probe sees `z = nil` — the `z` created by the previous iteration is not seen — and the
    second sees `z = 1`; after the loop both `i` and `z` are nil and the scope is empty. -/
theorem example_loop_scope :
    (match runScript env 20 [] prog2 {} with
     | .ok _ s => some (s.task.scopes, s.world.trace)
     | _ => none)
    = some ([[]],
        [.probe pName [rNil, rNil],
         .probe pName [rInt 49], .probe pName [rInt 49, rNil],
         .probe pName [rInt 49], .probe pName [rInt 48, rNil]]) := by decide +kernel

open ScopeExample in
/-- (iii) on a point with `k = 5`: `p(k, u)` sees the point's `5` and nil; `u += 1` assigns nothing
    (`u` still nil); `k += 1` creates the *variable* `k = 6`, which the last probe sees, while the
    point still has `k = 5`. -/
theorem example_point_key_and_compound :
    (match runScript env 20 [] prog3 { pt := pt } with
     | .ok _ s => some (s.task.scopes, s.world.trace, s.world.pt.get k)
     | _ => none)
    = some ([[(k, ⟨.int 6, .int⟩)]],
        [.probe pName [rInt 54], .probe pName [rNil], .probe pName [rInt 53, rNil]],
        some ⟨.int 5, .int⟩) := by decide +kernel

open ScopeExample in
/-- the theorems apply to these programs: they are grammar-shaped, so `script_keeps_one_scope`
    (and with it the block theorems it rests on) holds for their runs -/
example (s' : St) (u : Unit) (h : runScript env 20 [] prog2 {} = .ok u s') : s'.task.scopes.length = 1 :=
  script_keeps_one_scope env 20 [] prog2 {} prog2_shaped s' u h

end Platypus.C03
