import Platypus.Properties.C08
import Platypus.Generated.CheckTable
/-!
# C08 — facts about the builtin checker table
-/
namespace Platypus.C08
open Platypus

theorem delta_keeps_loops (d : Delta) (s : CheckSt) : (d.apply s).loops = s.loops := by
  cases d <;> rfl

/-- the registered builtins' checkers never touch the loop counter: hypothesis `hinv` of
    `check_sound` holds for the real table -/
theorem builtinCheck_keeps_loops (oracle : Bytes → Option Bytes) (file : Bytes) (c : CallInfo) (s s' : CheckSt)
    (h : builtinCheck oracle file c s = .ok () s') : s'.loops = s.loops := by
  unfold builtinCheck at h
  cases hd : builtinCheckD oracle file c s with
  | ok d => rw [hd] at h; simp at h; rw [← h]; exact delta_keeps_loops d s
  | err e => rw [hd] at h; simp at h
  | need q => rw [hd] at h; simp at h

/-- `check_sound` instantiated with the builtin table -/
theorem check_sound_builtins (oracle : Bytes → Option Bytes) (file : Bytes) (fns : List Bytes)
    (fuel : Nat) (stmts : List Node) (st st' : CheckSt)
    (h : checkNodes file (fun n => fns.contains n) (fun c => some (builtinCheck oracle file c)) fuel stmts st = .ok () st')
    (hloops : st.loops = 0) :
    (∀ k, ∀ c ∈ allCallsL k stmts, fns.contains c.name = true ∧ Accepted (fun c => some (builtinCheck oracle file c)) c) ∧
    (∀ k, structOkL k 0 stmts = true) :=
  check_sound file _ _
    (fun c chk s s' hc hs => by
      have : chk = builtinCheck oracle file c := (Option.some.inj hc).symm
      subst this
      exact builtinCheck_keeps_loops oracle file c s s' hs)
    fuel stmts st st' h hloops

end Platypus.C08

/-! ## regenerated facts: the traversal table of both check passes (F3) -/
namespace Platypus.C08
open Platypus.Generated

theorem extract_ok_F3 : extractOk_F3 = true := by decide

/-- every child field of every node kind is handed to the check pass, as the model's `checkNode`
    does: (checker function, field) pairs extracted from checkstmt.go -/
def expectedVisits : List (String × String) :=
  [("RunArithmeticExprCheck", "LHS"), ("RunArithmeticExprCheck", "RHS"),
   ("RunAssignmentExprCheck", "LHS[]"), ("RunAssignmentExprCheck", "RHS[]"),
   ("RunAttrExprCheck", "Attr"), ("RunAttrExprCheck", "Obj"),
   ("RunCallExprCheck", "Param"),
   ("RunConditionExprCheck", "LHS"), ("RunConditionExprCheck", "RHS"),
   ("RunForInStmtCheck", "Body.Stmts"), ("RunForInStmtCheck", "Iter"),
   ("RunForStmtCheck", "Body.Stmts"), ("RunForStmtCheck", "Cond"), ("RunForStmtCheck", "Init"), ("RunForStmtCheck", "Loop"),
   ("RunIfElseStmtCheck", "Else.Stmts"), ("RunIfElseStmtCheck", "IfList[].Block.Stmts"), ("RunIfElseStmtCheck", "IfList[].Condition"),
   ("RunInExprCheck", "LHS"), ("RunInExprCheck", "RHS"),
   ("RunIndexExprGetCheck", "Index[]"),
   ("RunListInitExprCheck", "List[]"),
   ("RunMapInitExprCheck", "KeyValeList[][0]"), ("RunMapInitExprCheck", "KeyValeList[][1]"),
   ("RunParenExprCheck", "Param"),
   ("RunSliceExprCheck", "End"), ("RunSliceExprCheck", "Obj"), ("RunSliceExprCheck", "Start"), ("RunSliceExprCheck", "Step"),
   ("RunUnaryExprCheck", "RHS")]

theorem visits_match_model : checkVisitsV1.map (fun (f, fld, _) => (f, fld)) = expectedVisits := by decide

/-- a visit is unconditional or guarded by the non-nilness of *that very field* (or of the block
    holding its statements) — never by another field (the `a[::f()]` defect) -/
theorem guards_are_own_field :
    checkVisitsV1.all (fun (_, fld, g) => g == "" || g == fld || g ++ ".Stmts" == fld) = true := by decide

theorem dispatch_complete :
    checkDispatchV1.map (·.1) =
      ["TypeArithmeticExpr", "TypeAssignmentExpr", "TypeAttrExpr", "TypeBreakStmt", "TypeCallExpr", "TypeConditionalExpr",
       "TypeContinueStmt", "TypeForInStmt", "TypeForStmt", "TypeIfelseStmt", "TypeInExpr", "TypeIndexExpr", "TypeListLiteral",
       "TypeMapLiteral", "TypeParenExpr", "TypeSliceExpr", "TypeUnaryExpr"] := by decide

/-- the v2 check pass is the same traversal -/
theorem v2_pass_equals_v1 : checkVisitsV2 = checkVisitsV1 ∧ checkDispatchV2 = checkDispatchV1 := by decide

end Platypus.C08
