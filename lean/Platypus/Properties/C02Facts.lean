import Platypus.Model.Ast
import Platypus.Generated.OpTables
/-!
# C02/C03/C18 — regenerated facts: the operator decision tables of the source

`Platypus/Generated/OpTables.lean` is rewritten from /repo's `runtime.go` and `runtimev2/run.go`
on every check.  These theorems (complete case analysis over the finite `DType`/operator types)
tie the model's tables to what the code says now.
-/
namespace Platypus.C02Facts
open Platypus.Generated

def goName : DType → String
  | .invalid => "Invalid" | .void => "Void" | .nil => "Nil" | .bool => "Bool" | .int => "Int"
  | .float => "Float" | .str => "String" | .list => "List" | .map => "Map"

theorem extract_ok : extractOk_F1 = true := by decide

theorem arithType_matches_source : ∀ t : DType, arithType t = arithTypeTrueV1.contains (goName t) := by
  intro t; cases t <;> decide

theorem cmpType_matches_source : ∀ t : DType, cmpType t = cmpTypeTrueV1.contains (goName t) := by
  intro t; cases t <;> decide

/-- dtypes without a case in `condTrue` are falsy for every value -/
theorem condTrue_default_false (h : Heap) (v : Val) :
    ∀ t : DType, condTrueCasesV1.contains (goName t) = false → condTrue h ⟨v, t⟩ = false := by
  intro t; cases t <;> simp [condTrue, goName, condTrueCasesV1]

/-- …and every dtype the model treats specially has a case in the source -/
theorem condTrue_cases_match : ∀ t : DType,
    condTrueCasesV1.contains (goName t) = (match t with | .str | .bool | .int | .float | .list | .map => true | _ => false) := by
  intro t; cases t <;> decide

def asName : AsOp → String
  | .eq => "EQ" | .addEq => "ADDEQ" | .subEq => "SUBEQ" | .mulEq => "MULEQ" | .divEq => "DIVEQ" | .modEq => "MODEQ"
def aName : AOp → String
  | .add => "ADD" | .sub => "SUB" | .mul => "MUL" | .div => "DIV" | .mod => "MOD"

theorem assign2arith_matches_source : ∀ op : AsOp,
    (op.arith.map aName) = (assign2arithV1.find? (·.1 == asName op)).map (·.2) := by
  intro op; cases op <;> decide

/-- the v2 interpreter has the same tables as v1 -/
theorem v2_tables_equal_v1 :
    arithTypeTrueV2 = arithTypeTrueV1 ∧ cmpTypeTrueV2 = cmpTypeTrueV1 ∧
    condTrueCasesV2 = condTrueCasesV1 ∧ assign2arithV2 = assign2arithV1 := by decide

end Platypus.C02Facts
