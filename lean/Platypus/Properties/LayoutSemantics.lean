import Platypus.Proofs.UnposBuiltin2
import Platypus.Proofs.UnposV2
import Platypus.Proofs.UnposCheck
import Platypus.Properties.FrontEnd
/-!
# What a script does is independent of its layout

Positions stored in the tree (`Pos` fields of `Node`) influence nothing but the positions reported
in errors.  For the v1 interpreter (`runScript`), the v2 interpreter (`V2.runScript2`) and the
load-time check (`checkScript`): two statement lists that are the same trees up to stored positions
(`ns.map unpos = ns'.map unpos`), run in environments that are equal up to the positions in the
scripts bound to `use()` sites (`EnvSim`), give results that are equal up to the positions in the
error (`ResSim` / `CResSim`): the same outcome kind, the same value, the *equal* final state (task,
point, heap, poll count, map-iteration count, trace), the same error message, the same files in the
error chain in the same order (hence the same chain length), the same panic message, the same engine
question.  With the front-end theorems (`Properties/FrontEnd.lean`): two source texts with the same
position-free parse — in particular two layouts of the same statements, or a text with and without
comments — behave the same.

Definitions (in `Platypus/Proofs/UnposSim.lean`, `UnposCheck.lean`, namespace
`Platypus.LayoutSemantics`): `SameTree`, `SameTrees`, `ErrSim`, `ResSim`, `Sim`, `EnvSim`, `unposEnv`,
`CResSim`, `CSim`.  Neither the run-time state `St` (= `Task` × `World`) nor the check state
`CheckSt` stores a position, so states are related by equality.

Proof (helper files `Platypus/Proofs/Unpos*.lean`): one induction on fuel per interpreter carrying
"the function on `x` and on `unpos x` are `Sim`" through every evaluator function and every
registered function; the two-tree statement follows because `ResSim` is an equivalence.
No position-dependence was found: a `Pos` only ever reaches `runErr`, `PlErr.new`, `PlErr.append`.
-/
set_option linter.unusedVariables false
namespace Platypus.LayoutSemantics
open Platypus Platypus.Elab Platypus.FrontEnd Platypus.Parse Platypus.ParsePos
open Platypus.Lex (Tok Item)

/-! ## A. the relations -/

/-- `SameTree` is an equivalence relation (it is equality of the position-free trees) -/
theorem SameTree.refl (a : Node) : SameTree a a := rfl
theorem SameTree.symm {a b : Node} (h : SameTree a b) : SameTree b a := Eq.symm h
theorem SameTree.trans {a b c : Node} (h : SameTree a b) (h' : SameTree b c) : SameTree a c := Eq.trans h h'

/-- a tree and its position-free copy are the same tree -/
theorem sameTree_unpos (a : Node) : SameTree a (unpos a) := by
  unfold SameTree
  exact (unpos_idem a).symm

/-- an error with every position forgotten -/
def PlErr.unpos (e : PlErr) : PlErr := ⟨e.chain.map fun p => (p.1, Pos.invalid), e.msg⟩

/-- a result with every position in its error forgotten -/
def Res.unpos {α} : Res α → Res α
  | .err e s => .err (PlErr.unpos e) s
  | r => r

/-- `ErrSim` is: equal after forgetting the positions -/
theorem errSim_iff (e e' : PlErr) : ErrSim e e' ↔ PlErr.unpos e = PlErr.unpos e' := by
  obtain ⟨c, m⟩ := e
  obtain ⟨c', m'⟩ := e'
  simp only [ErrSim, PlErr.unpos, PlErr.mk.injEq]
  constructor
  · rintro ⟨h1, h2⟩
    refine ⟨?_, h1⟩
    have := congrArg (List.map fun f : Bytes => (f, Pos.invalid)) h2
    rw [List.map_map, List.map_map] at this
    exact this
  · rintro ⟨h1, h2⟩
    refine ⟨h2, ?_⟩
    have := congrArg (List.map fun p : Bytes × Pos => p.1) h1
    rw [List.map_map, List.map_map] at this
    exact this

/-- `ResSim` is: equal after forgetting the positions in the error — same kind of outcome, same value,
    same final state, same message, same files, same panic text, same engine question -/
theorem resSim_iff {α} (r r' : Res α) : ResSim r r' ↔ Res.unpos r = Res.unpos r' := by
  cases r <;> cases r' <;> simp [ResSim, Res.unpos, errSim_iff]

/-- kind of outcome of a run -/
inductive Kind | ok | err | panic | fuel | need deriving DecidableEq, Repr

def Res.kind {α} : Res α → Kind
  | .ok _ _ => .ok | .err _ _ => .err | .panic _ => .panic | .fuel => .fuel | .need _ => .need
/-- the state in which a run ended (successfully or with a script error) -/
def Res.final {α} : Res α → Option St
  | .ok _ s => some s | .err _ s => some s | _ => none
/-- the error message of a failed run -/
def Res.errMsg {α} : Res α → Option String
  | .err e _ => some e.msg | _ => none
/-- the files of the error chain of a failed run, innermost first -/
def Res.errFiles {α} : Res α → Option (List Bytes)
  | .err e _ => some (e.chain.map (·.1)) | _ => none

/-- what similar results have in common: outcome kind, final state (hence final point, heap, trace
    = probe events and output, poll count), error message, files of the error chain -/
theorem ResSim.observables {α} {r r' : Res α} (h : ResSim r r') :
    Res.kind r = Res.kind r' ∧ Res.final r = Res.final r' ∧ Res.errMsg r = Res.errMsg r' ∧
      Res.errFiles r = Res.errFiles r' := by
  cases r <;> cases r' <;> first | exact h.elim | skip
  · obtain ⟨rfl, rfl⟩ := h; exact ⟨rfl, rfl, rfl, rfl⟩
  · obtain ⟨⟨h1, h2⟩, rfl⟩ := h
    exact ⟨rfl, rfl, congrArg some h1, congrArg some h2⟩
  · exact ⟨rfl, rfl, rfl, rfl⟩
  · exact ⟨rfl, rfl, rfl, rfl⟩
  · exact ⟨rfl, rfl, rfl, rfl⟩

/-- a successful run is matched by a successful run with the same final state -/
theorem ResSim.ok_left {α} {r' : Res α} {a : α} {s : St} (h : ResSim (.ok a s) r') : r' = .ok a s := by
  cases r' <;> first | exact h.elim | skip
  obtain ⟨rfl, rfl⟩ := h; rfl

/-- a failed run is matched by a failed run with the same final state, the same message, the same
    files in the chain and the same chain length -/
theorem ResSim.err_left {α} {r' : Res α} {e : PlErr} {s : St} (h : ResSim (.err e s) r') :
    ∃ e', r' = .err e' s ∧ e'.msg = e.msg ∧ e'.chain.map (·.1) = e.chain.map (·.1) ∧
      e'.chain.length = e.chain.length := by
  cases r' <;> first | exact h.elim | skip
  obtain ⟨he, rfl⟩ := h
  exact ⟨_, rfl, he.1.symm, he.2.symm, he.length.symm⟩

/-! ## B. the interpreters and the check on trees -/

/-- **v1 expression evaluation is layout independent**: the same tree up to positions, evaluated
    from the same state in environments equal up to positions, gives the same value and state, or
    errors with the same message and files and the same state -/
theorem eval_layout_independent (env env' : Env) (h : EnvSim env env') (fuel : Nat) (n n' : Node)
    (hn : SameTree n n') (s : St) : ResSim (evalNode env fuel n s) (evalNode env' fuel n' s) :=
  evalNode_sim env env' h fuel n n' hn s

/-- **a v1 run is layout independent**: two scripts that are the same trees up to stored positions,
    run on the same world in environments that are equal up to the positions in the scripts bound to
    `use()` sites, end with results equal up to the positions in the error: same outcome kind, equal
    final state (point, heap, trace, poll count, task), same error message, same files in the chain -/
theorem run_layout_independent (env env' : Env) (h : EnvSim env env') (fuel : Nat) (name : Bytes)
    (ns ns' : List Node) (hs : ns.map unpos = ns'.map unpos) (w : World) :
    ResSim (runScript env fuel name ns w) (runScript env' fuel name ns' w) :=
  runScript_sim env env' h fuel name ns ns' hs w

/-- … the observable parts of a v1 run, spelled out: outcome kind, final state, error message and
    the files of the error chain are equal -/
theorem run_layout_observables (env env' : Env) (h : EnvSim env env') (fuel : Nat) (name : Bytes)
    (ns ns' : List Node) (hs : ns.map unpos = ns'.map unpos) (w : World) :
    Res.kind (runScript env fuel name ns w) = Res.kind (runScript env' fuel name ns' w) ∧
    Res.final (runScript env fuel name ns w) = Res.final (runScript env' fuel name ns' w) ∧
    Res.errMsg (runScript env fuel name ns w) = Res.errMsg (runScript env' fuel name ns' w) ∧
    Res.errFiles (runScript env fuel name ns w) = Res.errFiles (runScript env' fuel name ns' w) :=
  (run_layout_independent env env' h fuel name ns ns' hs w).observables

/-- … a successful v1 run stays successful, with the same final state (final point, trace, poll count) -/
theorem run_layout_ok (env env' : Env) (h : EnvSim env env') (fuel : Nat) (name : Bytes)
    (ns ns' : List Node) (hs : ns.map unpos = ns'.map unpos) (w : World) (s : St)
    (hr : runScript env fuel name ns w = .ok () s) : runScript env' fuel name ns' w = .ok () s := by
  have := run_layout_independent env env' h fuel name ns ns' hs w
  rw [hr] at this
  exact this.ok_left

/-- … a failing v1 run fails with the same message, files, chain length and final state -/
theorem run_layout_err (env env' : Env) (h : EnvSim env env') (fuel : Nat) (name : Bytes)
    (ns ns' : List Node) (hs : ns.map unpos = ns'.map unpos) (w : World) (e : PlErr) (s : St)
    (hr : runScript env fuel name ns w = .err e s) :
    ∃ e', runScript env' fuel name ns' w = .err e' s ∧ e'.msg = e.msg ∧
      e'.chain.map (·.1) = e.chain.map (·.1) ∧ e'.chain.length = e.chain.length := by
  have := run_layout_independent env env' h fuel name ns ns' hs w
  rw [hr] at this
  exact this.err_left

/-- a v1 run is the run of the position-free script in the position-free environment, up to error
    positions (the one-sided form from which the two-sided one follows) -/
theorem run_unpos (env : Env) (fuel : Nat) (name : Bytes) (ns : List Node) (w : World) :
    ResSim (runScript env fuel name ns w) (runScript (unposEnv env) fuel name (ns.map unpos) w) :=
  runScript_unpos env fuel name ns w

/-- **a v2 run is layout independent** (as `run_layout_independent`, for `runScript2`) -/
theorem run2_layout_independent (env env' : Env) (h : EnvSim env env') (fuel : Nat) (name : Bytes)
    (ns ns' : List Node) (hs : ns.map unpos = ns'.map unpos) (w : World) :
    ResSim (V2.runScript2 env fuel name ns w) (V2.runScript2 env' fuel name ns' w) :=
  runScript2_sim env env' h fuel name ns ns' hs w

/-- … the observable parts of a v2 run -/
theorem run2_layout_observables (env env' : Env) (h : EnvSim env env') (fuel : Nat) (name : Bytes)
    (ns ns' : List Node) (hs : ns.map unpos = ns'.map unpos) (w : World) :
    Res.kind (V2.runScript2 env fuel name ns w) = Res.kind (V2.runScript2 env' fuel name ns' w) ∧
    Res.final (V2.runScript2 env fuel name ns w) = Res.final (V2.runScript2 env' fuel name ns' w) ∧
    Res.errMsg (V2.runScript2 env fuel name ns w) = Res.errMsg (V2.runScript2 env' fuel name ns' w) ∧
    Res.errFiles (V2.runScript2 env fuel name ns w) = Res.errFiles (V2.runScript2 env' fuel name ns' w) :=
  (run2_layout_independent env env' h fuel name ns ns' hs w).observables

/-- **the load-time check is layout independent**: the same scripts are accepted, with the same
    check state (pattern scopes, `use()` call sites in order, compiled grok sites — no position is
    stored there); a rejected script is rejected with the same message and the same files in the chain -/
theorem check_layout_independent (fuel : Nat) (oracle : Bytes → Option Bytes) (fns : List Bytes) (file : Bytes)
    (ns ns' : List Node) (hs : ns.map unpos = ns'.map unpos) :
    CResSim (checkScript fuel oracle fns file ns) (checkScript fuel oracle fns file ns') :=
  checkScript_sim fuel oracle fns file ns ns' hs

/-- … accepted together, with the same resulting check state -/
theorem check_layout_ok (fuel : Nat) (oracle : Bytes → Option Bytes) (fns : List Bytes) (file : Bytes)
    (ns ns' : List Node) (hs : ns.map unpos = ns'.map unpos) (cs : CheckSt)
    (hr : checkScript fuel oracle fns file ns = .ok () cs) : checkScript fuel oracle fns file ns' = .ok () cs := by
  have := check_layout_independent fuel oracle fns file ns ns' hs
  rw [hr] at this
  cases h : checkScript fuel oracle fns file ns' <;> rw [h] at this <;> first | exact this.elim | skip
  obtain ⟨_, rfl⟩ := this
  rfl

/-- … rejected together, with the same message, files and chain length -/
theorem check_layout_err (fuel : Nat) (oracle : Bytes → Option Bytes) (fns : List Bytes) (file : Bytes)
    (ns ns' : List Node) (hs : ns.map unpos = ns'.map unpos) (e : PlErr)
    (hr : checkScript fuel oracle fns file ns = .err e) :
    ∃ e', checkScript fuel oracle fns file ns' = .err e' ∧ e'.msg = e.msg ∧
      e'.chain.map (·.1) = e.chain.map (·.1) ∧ e'.chain.length = e.chain.length := by
  have := check_layout_independent fuel oracle fns file ns ns' hs
  rw [hr] at this
  cases h : checkScript fuel oracle fns file ns' <;> rw [h] at this <;> first | exact this.elim | skip
  exact ⟨_, rfl, this.1.symm, this.2.symm, this.length.symm⟩

/-- the check pass with an arbitrary table of function checkers that does not look at positions
    (`FcheckOk`: on an argument list and on the position-free list the checker of a function is
    present or absent together and, when present, similar) -/
theorem check_layout_independent_table (file : Bytes) (registered : Bytes → Bool)
    (fcheck : CallInfo → Option (CM Unit)) (hf : FcheckOk fcheck) (fuel : Nat) (ns ns' : List Node)
    (hs : ns.map unpos = ns'.map unpos) (cs : CheckSt) :
    CResSim (checkNodes file registered fcheck fuel ns cs) (checkNodes file registered fcheck fuel ns' cs) := by
  have h1 := (ksim_all (file := file) (registered := registered) hf fuel).nodes ns cs
  have h2 := (ksim_all (file := file) (registered := registered) hf fuel).nodes ns' cs
  rw [unposL_eq_map] at h1 h2
  rw [hs] at h1
  exact h1.trans h2.symm

/-! ## C. source texts -/

/-- two source texts with the same position-free parse, both accepted by the front end, elaborate to
    the same trees up to stored positions -/
theorem elab_same_trees (pf : Bytes → Option UInt64) {src1 src2 : Bytes} (s0 : Nat)
    (hp : Parse.parse src1 = Parse.parse src2) {ns1 ns2 : List Node}
    (h1 : elabSource pf src1 s0 = some ns1) (h2 : elabSource pf src2 s0 = some ns2) :
    ns1.map unpos = ns2.map unpos := by
  have := elab_depends_on_parse pf s0 hp
  rw [h1, h2] at this
  simpa using this

/-- … and the front end accepts both or rejects both -/
theorem elab_same_parse_accepts (pf : Bytes → Option UInt64) {src1 src2 : Bytes} (s0 : Nat)
    (hp : Parse.parse src1 = Parse.parse src2) :
    (elabSource pf src1 s0).isSome = (elabSource pf src2 s0).isSome := by
  have := congrArg Option.isSome (elab_depends_on_parse pf s0 hp)
  simpa using this

/-- **v1, source level**: two texts with the same position-free parse (in particular: two layouts of
    the same program) behave the same when run — up to the positions in the error -/
theorem run_source_layout_independent (pf : Bytes → Option UInt64) {src1 src2 : Bytes} (s0 : Nat)
    (hp : Parse.parse src1 = Parse.parse src2) {ns1 ns2 : List Node}
    (h1 : elabSource pf src1 s0 = some ns1) (h2 : elabSource pf src2 s0 = some ns2)
    (env env' : Env) (he : EnvSim env env') (fuel : Nat) (name : Bytes) (w : World) :
    ResSim (runScript env fuel name ns1 w) (runScript env' fuel name ns2 w) :=
  run_layout_independent env env' he fuel name ns1 ns2 (elab_same_trees pf s0 hp h1 h2) w

/-- … in one environment -/
theorem run_source_layout_independent' (pf : Bytes → Option UInt64) {src1 src2 : Bytes} (s0 : Nat)
    (hp : Parse.parse src1 = Parse.parse src2) {ns1 ns2 : List Node}
    (h1 : elabSource pf src1 s0 = some ns1) (h2 : elabSource pf src2 s0 = some ns2)
    (env : Env) (fuel : Nat) (name : Bytes) (w : World) :
    ResSim (runScript env fuel name ns1 w) (runScript env fuel name ns2 w) :=
  run_source_layout_independent pf s0 hp h1 h2 env env (EnvSim.refl env) fuel name w

/-- **v2, source level** -/
theorem run2_source_layout_independent (pf : Bytes → Option UInt64) {src1 src2 : Bytes} (s0 : Nat)
    (hp : Parse.parse src1 = Parse.parse src2) {ns1 ns2 : List Node}
    (h1 : elabSource pf src1 s0 = some ns1) (h2 : elabSource pf src2 s0 = some ns2)
    (env env' : Env) (he : EnvSim env env') (fuel : Nat) (name : Bytes) (w : World) :
    ResSim (V2.runScript2 env fuel name ns1 w) (V2.runScript2 env' fuel name ns2 w) :=
  run2_layout_independent env env' he fuel name ns1 ns2 (elab_same_trees pf s0 hp h1 h2) w

/-- **check, source level** -/
theorem check_source_layout_independent (pf : Bytes → Option UInt64) {src1 src2 : Bytes} (s0 : Nat)
    (hp : Parse.parse src1 = Parse.parse src2) {ns1 ns2 : List Node}
    (h1 : elabSource pf src1 s0 = some ns1) (h2 : elabSource pf src2 s0 = some ns2)
    (fuel : Nat) (oracle : Bytes → Option Bytes) (fns : List Bytes) (file : Bytes) :
    CResSim (checkScript fuel oracle fns file ns1) (checkScript fuel oracle fns file ns2) :=
  check_layout_independent fuel oracle fns file ns1 ns2 (elab_same_trees pf s0 hp h1 h2)

/-- an environment whose `use()` sites are bound to the elaborations of library texts: replacing
    every library text by one with the same position-free parse gives an `EnvSim` environment -/
theorem envSim_of_sources (pf : Bytes → Option UInt64) (env : Env) (lib lib' : Nat → Option (Bytes × Bytes × Nat))
    (hl : ∀ site, match lib site, lib' site with
      | none, none => True
      | some (nm, src, s0), some (nm', src', s0') => nm = nm' ∧ s0 = s0' ∧ Parse.parse src = Parse.parse src'
      | _, _ => False) :
    EnvSim
      { env with bound := fun site => (lib site).bind fun (nm, src, s0) => (elabSource pf src s0).map fun ns => (nm, ns) }
      { env with bound := fun site => (lib' site).bind fun (nm, src, s0) => (elabSource pf src s0).map fun ns => (nm, ns) } := by
  refine ⟨fun site => ?_, rfl, rfl, rfl, rfl, rfl, rfl⟩
  have := hl site
  dsimp only
  cases h1 : lib site with
  | none =>
    cases h2 : lib' site with
    | none => rfl
    | some b => rw [h1, h2] at this; exact this.elim
  | some a =>
    cases h2 : lib' site with
    | none => rw [h1, h2] at this; exact this.elim
    | some b =>
      obtain ⟨nm, src, s0⟩ := a
      obtain ⟨nm', src', s0'⟩ := b
      rw [h1, h2] at this
      obtain ⟨rfl, rfl, hp⟩ := this
      have hd := elab_depends_on_parse pf s0 hp
      simp only [Option.bind_some]
      cases e1 : elabSource pf src s0 <;> cases e2 : elabSource pf src' s0 <;> rw [e1, e2] at hd <;>
        simp_all

/-- **layout**: two texts whose items spell the same statements `ss` (C06: line ends, blanks,
    separator runs, any admissible layout) behave the same under v1 -/
theorem run_spelling_independent (pf : Bytes → Option UInt64) {src1 src2 : Bytes} {ss : List PT} (s0 : Nat)
    (hp1 : PProg ss (Lex.lexAll src1)) (hp2 : PProg ss (Lex.lexAll src2)) {ns1 ns2 : List Node}
    (h1 : elabSource pf src1 s0 = some ns1) (h2 : elabSource pf src2 s0 = some ns2)
    (env env' : Env) (he : EnvSim env env') (fuel : Nat) (name : Bytes) (w : World) :
    ResSim (runScript env fuel name ns1 w) (runScript env' fuel name ns2 w) := by
  have := elab_layout_irrelevant pf s0 hp1 hp2
  rw [h1, h2] at this
  exact run_layout_independent env env' he fuel name ns1 ns2 (by simpa using this) w

/-- … under v2 -/
theorem run2_spelling_independent (pf : Bytes → Option UInt64) {src1 src2 : Bytes} {ss : List PT} (s0 : Nat)
    (hp1 : PProg ss (Lex.lexAll src1)) (hp2 : PProg ss (Lex.lexAll src2)) {ns1 ns2 : List Node}
    (h1 : elabSource pf src1 s0 = some ns1) (h2 : elabSource pf src2 s0 = some ns2)
    (env env' : Env) (he : EnvSim env env') (fuel : Nat) (name : Bytes) (w : World) :
    ResSim (V2.runScript2 env fuel name ns1 w) (V2.runScript2 env' fuel name ns2 w) := by
  have := elab_layout_irrelevant pf s0 hp1 hp2
  rw [h1, h2] at this
  exact run2_layout_independent env env' he fuel name ns1 ns2 (by simpa using this) w

/-- … under the check -/
theorem check_spelling_independent (pf : Bytes → Option UInt64) {src1 src2 : Bytes} {ss : List PT} (s0 : Nat)
    (hp1 : PProg ss (Lex.lexAll src1)) (hp2 : PProg ss (Lex.lexAll src2)) {ns1 ns2 : List Node}
    (h1 : elabSource pf src1 s0 = some ns1) (h2 : elabSource pf src2 s0 = some ns2)
    (fuel : Nat) (oracle : Bytes → Option Bytes) (fns : List Bytes) (file : Bytes) :
    CResSim (checkScript fuel oracle fns file ns1) (checkScript fuel oracle fns file ns2) := by
  have := elab_layout_irrelevant pf s0 hp1 hp2
  rw [h1, h2] at this
  exact check_layout_independent fuel oracle fns file ns1 ns2 (by simpa using this)

/-- **comments**: the item list with its COMMENT items removed (or: with comments inserted anywhere)
    elaborates to a script that behaves the same under v1, v2 and the check; the positions may be
    looked up in different texts (`c.src`, `c'.src`) -/
theorem comments_irrelevant (c c' : Cfg) (hpf : c.pf = c'.pf) (ts : List Item) (s0 : Nat) {ns1 ns2 : List Node}
    (h1 : elabItems c (ts.filter fun i => i.typ ≠ .COMMENT) s0 = some ns1) (h2 : elabItems c' ts s0 = some ns2)
    (env env' : Env) (he : EnvSim env env') (fuel : Nat) (name : Bytes) (w : World)
    (oracle : Bytes → Option Bytes) (fns : List Bytes) :
    ResSim (runScript env fuel name ns1 w) (runScript env' fuel name ns2 w) ∧
    ResSim (V2.runScript2 env fuel name ns1 w) (V2.runScript2 env' fuel name ns2 w) ∧
    CResSim (checkScript fuel oracle fns name ns1) (checkScript fuel oracle fns name ns2) := by
  have := elabItems_comments_irrelevant hpf ts s0
  rw [h1, h2] at this
  have hs : ns1.map unpos = ns2.map unpos := by simpa using this
  exact ⟨run_layout_independent env env' he fuel name ns1 ns2 hs w,
    run2_layout_independent env env' he fuel name ns1 ns2 hs w,
    check_layout_independent fuel oracle fns name ns1 ns2 hs⟩

/-- … and the front end accepts the item list with and without its comments together -/
theorem comments_irrelevant_accepts (c c' : Cfg) (hpf : c.pf = c'.pf) (ts : List Item) (s0 : Nat) :
    (elabItems c (ts.filter fun i => i.typ ≠ .COMMENT) s0).isSome = (elabItems c' ts s0).isSome := by
  have := congrArg Option.isSome (elabItems_comments_irrelevant hpf ts s0)
  simpa using this

/-! ## D. non-vacuity: two layouts of one program with a run-time error, evaluated by the kernel -/

namespace Example

/-- a library script that divides by zero (the parser refuses a literal zero divisor) … -/
def lib1 : Bytes := bytesOf "zero = 0\nx = 1 / zero\n"
/-- … and another layout of it: no blanks, a comment, empty lines, indentation, no final newline -/
def lib2 : Bytes := bytesOf "zero=0 # comment\n\n\n   x = 1/zero"
/-- a main script: a probe, `use("lib")`, a probe that is never reached … -/
def main1 : Bytes := bytesOf "p(1)\nuse(\"lib\")\np(2)\n"
/-- … and another layout of it -/
def main2 : Bytes := bytesOf "p( 1 ) # first\n\n  use( \"lib\" ); p(2)"

def pf : Bytes → Option UInt64 := fun _ => none

/-- the `use` call is the second call expression of `main`: site 2 is bound to the library -/
def envOf (lib : Bytes) : Env :=
  { bound := fun s => if s = 2 then (elabSource pf lib).map (fun ns => (B "lib", ns)) else none,
    fns := [B "p", B "use"], sigK := none, hasSignal := false, mapOrder := fun _ => 0,
    oracle := fun _ => none }

/-- v1 runs of the two layouts (main and library both re-laid out) -/
def run1 : Option (Res Unit) := (elabSource pf main1).map fun ns => runScript (envOf lib1) 50 (B "main") ns {}
def run2 : Option (Res Unit) := (elabSource pf main2).map fun ns => runScript (envOf lib2) 50 (B "main") ns {}

def libTree : List PT :=
  [.assign .eq [.ident false (B "zero")] [.num false (B "0")],
   .assign .eq [.ident false (B "x")] [.bin .div (.num false (B "1")) (.ident false (B "zero"))]]
def mainTree : List PT :=
  [.call false (B "p") [.num false (B "1")], .call false (B "use") [.str false (B "\"lib\"")],
   .call false (B "p") [.num false (B "2")]]

/-- the texts have the same position-free parse -/
theorem lib1_parse : Parse.parse lib1 = some libTree := by kernel_rfl
theorem lib2_parse : Parse.parse lib2 = some libTree := by kernel_rfl
theorem main1_parse : Parse.parse main1 = some mainTree := by kernel_rfl
theorem main2_parse : Parse.parse main2 = some mainTree := by kernel_rfl
theorem lib_same_parse : Parse.parse lib1 = Parse.parse lib2 := by rw [lib1_parse, lib2_parse]
theorem main_same_parse : Parse.parse main1 = Parse.parse main2 := by rw [main1_parse, main2_parse]

/-- what is compared of a failed run or check -/
structure Summary where
  msg : String
  chain : List (Bytes × Pos)
  trace : List Event
  exit : Bool
  deriving DecidableEq, Repr

def errSummary {α} : Res α → Option Summary
  | .err e s => some ⟨e.msg, e.chain, s.world.trace, s.task.exit⟩
  | _ => none

def cerrSummary {α} : CRes α → Option Summary
  | .err e => some ⟨e.msg, e.chain, [], false⟩
  | _ => none

/-- both runs end in an error with the same message and the same files (the library, then the
    caller), at different positions: line 2 column 7 / line 2 column 1 in the first layout,
    line 4 column 9 / line 3 column 3 in the second; the first probe has happened, the second not -/
theorem runs_fail :
    (run1.bind errSummary, run2.bind errSummary) =
      (some ⟨"int-div-zero", [(B "lib", ⟨15, 2, 7⟩), (B "main", ⟨5, 2, 1⟩)], [.probe (B "p") [B "int=i1"]], true⟩,
       some ⟨"int-div-zero", [(B "lib", ⟨27, 4, 9⟩), (B "main", ⟨18, 3, 3⟩)], [.probe (B "p") [B "int=i1"]], true⟩) := by
  decide +kernel

/-- the final state of both runs -/
def finalSt : St :=
  { task := { name := B "main", scopes := [[]], brk := false, cont := false, exit := true, regs := [] },
    world := { heap := [], pt := {}, polls := 0, mapIters := 0, trace := [.probe (B "p") [B "int=i1"]] } }

/-- the final states are equal (kernel evaluation of both runs) -/
theorem final_state1 : run1.bind Res.final = some finalSt := by kernel_rfl
theorem final_state2 : run2.bind Res.final = some finalSt := by kernel_rfl
theorem final_states_equal : run1.bind Res.final = run2.bind Res.final := by rw [final_state1, final_state2]

/-- the two environments are equal up to the positions in the bound library -/
theorem envs_sim : EnvSim (envOf lib1) (envOf lib2) := by
  refine ⟨fun site => ?_, rfl, rfl, rfl, rfl, rfl, rfl⟩
  have hd := elab_depends_on_parse pf 0 lib_same_parse
  simp only [envOf]
  split
  · cases e1 : elabSource pf lib1 <;> cases e2 : elabSource pf lib2 <;> rw [e1, e2] at hd <;> simp_all
  · rfl

/-- the same conclusion from the general theorem, without evaluating anything: whatever the two
    elaborations are, whatever the fuel and the world, the runs are similar -/
theorem runs_similar {ns1 ns2 : List Node} (h1 : elabSource pf main1 = some ns1) (h2 : elabSource pf main2 = some ns2)
    (fuel : Nat) (w : World) :
    ResSim (runScript (envOf lib1) fuel (B "main") ns1 w) (runScript (envOf lib2) fuel (B "main") ns2 w) :=
  run_source_layout_independent pf 0 main_same_parse h1 h2 _ _ envs_sim fuel (B "main") w

/-- v2 on the two layouts of the library: the same error at different positions -/
theorem runs2_fail :
    (((elabSource pf lib1).map fun ns => V2.runScript2 (envOf lib1) 50 (B "lib") ns {}).bind errSummary,
     ((elabSource pf lib2).map fun ns => V2.runScript2 (envOf lib1) 50 (B "lib") ns {}).bind errSummary) =
      (some ⟨"int-div-zero", [(B "lib", ⟨15, 2, 7⟩)], [], true⟩,
       some ⟨"int-div-zero", [(B "lib", ⟨27, 4, 9⟩)], [], true⟩) := by
  decide +kernel

/-- the check on two layouts of `x = 1; break`: rejected with the same message at different positions -/
theorem checks_fail :
    (((elabSource pf (bytesOf "x = 1\nbreak\n")).map fun ns => checkScript 50 (fun _ => none) [] (B "main") ns).bind cerrSummary,
     ((elabSource pf (bytesOf "x=1;   break # c")).map fun ns => checkScript 50 (fun _ => none) [] (B "main") ns).bind cerrSummary) =
      (some ⟨"break-not-in-loop", [(B "main", ⟨6, 2, 1⟩)], [], false⟩,
       some ⟨"break-not-in-loop", [(B "main", ⟨7, 1, 8⟩)], [], false⟩) := by
  decide +kernel

/-- the check accepts both layouts of the main script and records the same `use()` site -/
theorem checks_accept :
    (match (elabSource pf main1).map (fun ns => checkScript 50 (fun _ => none) [B "p", B "use"] (B "main") ns),
           (elabSource pf main2).map (fun ns => checkScript 50 (fun _ => none) [B "p", B "use"] (B "main") ns) with
     | some (.ok _ c1), some (.ok _ c2) => some (c1.callRef, c2.callRef, c1.loops, c2.loops)
     | _, _ => none)
    = some ([2], [2], 0, 0) := by decide +kernel

end Example

end Platypus.LayoutSemantics
