import Platypus.Properties.C10
import Platypus.Properties.C08
import Platypus.Properties.C01Defs
import Platypus.Model.Eval
import Platypus.Proofs.PanicMain
import Platypus.Proofs.PanicBytes
/-!
# C01 — running a loaded script never crashes the host process

Every Go operation of the interpreter that can panic (unchecked type assertion, index, missing
argument, accessor on the wrong node kind) is an explicit `.panic` result in the model, guarded
exactly as the Go code guards it.  `no_panic`: for every script whose calls have the argument
counts the load-time checkers demand and whose for-in variables are identifiers (both guaranteed
by the check pass), every well-tagged initial world, every signal, every map order, every engine
oracle and every fuel, the run ends with `ok`, a script error, `fuel` or an engine question —
never with `panic`.

## Representable inputs

The model carries integers as unbounded `Int` (`Val.int`, `Node.intLit`); the implementation carries
`int64`.  An integer outside the int64 range therefore cannot occur in any input of the
implementation: not as a literal (the parser produces `int64`), not in the initial point or heap,
not in an engine answer.  `IntsRepresentable` states this representation invariant for the inputs
of a run; every input the harness produces satisfies it (it builds literals, points and engine
answers from Go `int64` values).  `model_needs_int64_inputs` records that the hypothesis is needed
*in the model*: with an (unrepresentable) literal below `-2^63` as a slice bound the model's
wrap-around arithmetic yields an index outside the list.  This is a remark on the model's value
domain, not a defect of the property.

Inside the proof only the lower bound `minI64 ≤ i` is used, and only it is an invariant of the
model (`len` of a sequence of `2^63` elements, which exists mathematically, exceeds `maxI64`);
values above `maxI64` are harmless for the slice computation (`PanicProofs.indices_clamp`).

Proof: `Platypus/Proofs/Panic*.lean` — `GS` (state invariant: well-tagged scopes/registers, C10's
point invariant, no integer below int64 anywhere), `HeapLe` (heap objects keep their kind), a Hoare
logic `Tr` for the `EM` monad, the generic statement machine (`mih_all`), the evaluator and the 26
builtins (`ih_all`), by induction on fuel.
-/
namespace Platypus.C01
open Platypus

/-- a value agrees with the tag carried beside it, for the tags the interpreter asserts on -/
def WTV (h : Heap) (x : TV) : Prop :=
  ((x.t = .int ∨ x.t = .float ∨ x.t = .bool ∨ x.t = .str) → C10.scalarType x.v = x.t) ∧
  (x.t = .list → ∃ a xs, x.v = .ref a ∧ h.get? a = some (.list xs)) ∧
  (x.t = .map → ∃ a kvs, x.v = .ref a ∧ h.get? a = some (.map kvs))

/-- every variable of every scope and every register is well tagged; the point satisfies C10's invariant -/
def WTState (s : St) : Prop :=
  (∀ sc ∈ s.task.scopes, ∀ kv ∈ sc, WTV s.world.heap kv.2) ∧
  (∀ r ∈ s.task.regs, WTV s.world.heap r) ∧
  C10.Inv s.world.pt

/-- argument counts the run-time code relies on (established by the `*Checking` functions) -/
def argsOk (c : CallInfo) : Bool :=
  match Fn.ofName c.name with
  | some .len | some .loadJson | some .trim | some .uppercase | some .urlDecode => decide (c.args.length ≥ 1)
  | some .grok => decide (c.args.length ≥ 2)
  | _ => true

/-- what the load-time check guarantees about a script -/
def Checked (stmts : List Node) : Prop :=
  (∀ k, ∀ c ∈ C08.allCallsL k stmts, argsOk c = true) ∧ (∀ k, C08.structOkL k 0 stmts = true)

def isPanic {α} : Res α → Bool
  | .panic _ => true
  | _ => false

/-! ### input well-formedness: integers are int64 -/

/-- an integer value is representable (Go `int64`) -/
def valI64 : Val → Prop
  | .int i => inI64 i
  | _ => True

def objI64 : Obj → Prop
  | .list xs => ∀ x ∈ xs, valI64 x
  | .map kvs => ∀ kv ∈ kvs, valI64 kv.2

/-- every integer literal of the script, wherever it occurs, is an int64 -/
def LitsI64 (stmts : List Node) : Prop := ∀ k, ∀ v ∈ allIntLitsL k stmts, inI64 v

/-- an engine answer, when read back as a value (`cast`, `load_json`, `grok` do that), contains
    int64 integers only: the value itself and every object allocated for it -/
def AnsI64 (a : Bytes) : Prop :=
  ∀ n h v h' rest, unrender n h (unhex (splitAnswer a).2) = some (v, h', rest) →
    valI64 v ∧ ∀ o ∈ h'.drop h.length, objI64 o

/-- the inputs of a run are representable in the implementation: all integers are int64 —
    literals of the script and of the scripts bound to `use()` sites, the initial heap and point
    fields, the engine answers -/
structure IntsRepresentable (env : Env) (stmts : List Node) (w : World) : Prop where
  lits : LitsI64 stmts
  bound : ∀ site cname cstmts, env.bound site = some (cname, cstmts) → LitsI64 cstmts
  heap : ∀ o ∈ w.heap, objI64 o
  fields : ∀ kv ∈ w.pt.fields, valI64 kv.2
  answers : ∀ q a, env.oracle q = some a → AnsI64 a

/-! ### bridges to the proof's vocabulary -/

theorem wtv_iff (h : Heap) (x : TV) : WTV h x ↔ PanicProofs.WTV h x := Iff.rfl

theorem argsOk_eq (c : CallInfo) : argsOk c = PanicProofs.argsOk c := by
  unfold argsOk PanicProofs.argsOk
  cases Fn.ofName c.name with
  | none => rfl
  | some fn => cases fn <;> rfl

theorem valLo_of_valI64 {v : Val} (h : valI64 v) : valLo v := by
  cases v <;> first | trivial | exact h.1

theorem objLo_of_objI64 {o : Obj} (h : objI64 o) : objLo o := by
  cases o with
  | list xs => exact fun x hx => valLo_of_valI64 (h x hx)
  | map kvs => exact fun kv hkv => valLo_of_valI64 (h kv hkv)

theorem ansLo_of_ansI64 {a : Bytes} (h : AnsI64 a) : AnsLo a := by
  intro n hp v h' rest hu
  obtain ⟨hv, ho⟩ := h n hp v h' rest hu
  refine ⟨valLo_of_valI64 hv, ?_⟩
  intro hlo o hmem
  obtain ⟨l, rfl⟩ := (PanicProofs.unrender_ext_all n).1 _ _ _ _ _ hu
  rcases List.mem_append.1 hmem with hm | hm
  · exact hlo o hm
  · exact objLo_of_objI64 (ho o (by simpa using hm))

theorem ckL_of_checked {stmts : List Node} (hc : Checked stmts) (hl : LitsI64 stmts) :
    PanicProofs.CkL stmts := by
  intro k
  exact ⟨fun c hcm => by rw [← argsOk_eq]; exact hc.1 k c hcm, ⟨0, hc.2 k⟩, fun v hv => (hl k v hv).1⟩

theorem gs_of_wtstate {name : Bytes} {w : World}
    (hw : WTState { task := { name := name, scopes := [[]] }, world := w })
    (hh : ∀ o ∈ w.heap, objI64 o) (hf : ∀ kv ∈ w.pt.fields, valI64 kv.2) :
    PanicProofs.GS { task := { name := name, scopes := [[]] }, world := w } :=
  ⟨by simp, by simp, hw.2.2, fun o ho => objLo_of_objI64 (hh o ho), fun kv hkv => valLo_of_valI64 (hf kv hkv)⟩

/-! ### the property -/

theorem no_panic (env : Env) (fuel : Nat) (name : Bytes) (stmts : List Node) (w : World)
    (hc : Checked stmts)
    (hb : ∀ site cname cstmts, env.bound site = some (cname, cstmts) → Checked cstmts)
    (hw : WTState { task := { name := name, scopes := [[]] }, world := w })
    (hi : IntsRepresentable env stmts w) :
    isPanic (runScript env fuel name stmts w) = false := by
  have hyp : PanicProofs.Hyp env :=
    ⟨fun site cname cstmts h => ckL_of_checked (hb site cname cstmts h) (hi.bound site cname cstmts h),
     fun q a h => ansLo_of_ansI64 (hi.answers q a h)⟩
  have h := PanicProofs.runScript_safe hyp fuel name stmts w (ckL_of_checked hc hi.lits)
    (gs_of_wtstate hw hi.heap hi.fields)
  cases hr : runScript env fuel name stmts w with
  | panic m => rw [hr] at h; exact h.elim
  | _ => rfl

/-- the run also keeps the state well formed: on `ok` and on a script error the final state is
    well tagged again (so a host may run the next script on it) -/
theorem run_preserves_wtstate (env : Env) (fuel : Nat) (name : Bytes) (stmts : List Node) (w : World)
    (hc : Checked stmts)
    (hb : ∀ site cname cstmts, env.bound site = some (cname, cstmts) → Checked cstmts)
    (hw : WTState { task := { name := name, scopes := [[]] }, world := w })
    (hi : IntsRepresentable env stmts w) :
    ∀ s', (runScript env fuel name stmts w = .ok () s' ∨ ∃ e, runScript env fuel name stmts w = .err e s') →
      WTState s' := by
  have hyp : PanicProofs.Hyp env :=
    ⟨fun site cname cstmts h => ckL_of_checked (hb site cname cstmts h) (hi.bound site cname cstmts h),
     fun q a h => ansLo_of_ansI64 (hi.answers q a h)⟩
  have h := PanicProofs.runScript_safe hyp fuel name stmts w (ckL_of_checked hc hi.lits)
    (gs_of_wtstate hw hi.heap hi.fields)
  intro s' hr
  have hgs : PanicProofs.GS s' := by
    rcases hr with hr | ⟨e, hr⟩ <;> rw [hr] at h <;> exact h.1
  exact ⟨fun sc hsc kv hkv => (hgs.scopes sc hsc kv hkv).1, fun r hr => (hgs.regs r hr).1, hgs.inv⟩

/-- `no_panic` without the representation invariant, as a proposition about the model -/
def no_panic_full : Prop :=
  ∀ (env : Env) (fuel : Nat) (name : Bytes) (stmts : List Node) (w : World),
    Checked stmts →
    (∀ site cname cstmts, env.bound site = some (cname, cstmts) → Checked cstmts) →
    WTState { task := { name := name, scopes := [[]] }, world := w } →
    isPanic (runScript env fuel name stmts w) = false

/-- `l = [1]; l[-13835058055282163712::-1]` — the start bound `-2^64 + 2^62` is not an int64 -/
def unrepresentableScript : List Node :=
  let p := Pos.invalid
  [ .assign .eq [.ident [108] p] [.list [.intLit 1 p] p p] p,
    .slice (.ident [108] p) (some (.intLit (-13835058055282163712) p)) none (some (.intLit (-1) p)) true p p ]

/-- no bound scripts, no registered functions, no signal, no engine -/
def emptyEnv : Env :=
  { bound := fun _ => none, fns := [], sigK := none, hasSignal := false, mapOrder := fun _ => 0,
    oracle := fun _ => none }

/-- remark on the model: its integers are unbounded, so the representation invariant has to be
    stated.  With a literal below `-2^63` (which no parser output and no Go value can be) the
    model's `wrap64 (start + len)` lands above the list and the model reports the Go index panic. -/
theorem model_needs_int64_inputs : ¬ no_panic_full := by
  intro h
  have hchk : Checked unrepresentableScript := by
    refine ⟨fun k c hc => ?_, fun k => ?_⟩
    · rcases k with _ | _ | _ | _ | _ | _ | _ | k <;>
        simp [unrepresentableScript, C08.allCallsL, C08.allCalls, C08.allCallsO] at hc
    · rcases k with _ | _ | _ | _ | _ | _ | _ | k <;>
        simp [unrepresentableScript, C08.structOkL, C08.structOk, C08.structOkO]
  have hw : WTState { task := { name := [], scopes := [[]] }, world := {} } := by
    refine ⟨by simp, by simp, ?_⟩
    constructor <;> simp [C10.NoDup]
  have := h emptyEnv 10 [] unrepresentableScript {} hchk (fun _ _ _ h => by simp [emptyEnv] at h) hw
  revert this
  decide

/-- the builtin checkers establish `argsOk` -/
theorem accepted_argsOk (oracle : Bytes → Option Bytes) (file : Bytes) (c : CallInfo) (s s' : CheckSt)
    (h : builtinCheck oracle file c s = .ok () s') : argsOk c = true := by
  rw [argsOk_eq]
  exact PanicProofs.accepted_argsOk oracle file c s s' h

/-! ### non-vacuity

A concrete run meeting every hypothesis of `no_panic`: the script
`l = [1, 2]; p(l[5:2], len("x"))` (a slice whose bounds lie outside the list, a call of `len`),
a point with a tag and two fields, a non-empty heap, a signal, and an engine that answers. -/

def exPos : Pos := ⟨0, 1, 1⟩

def exScript : List Node :=
  [ .assign .eq [.ident [108] exPos] [.list [.intLit 1 exPos, .intLit 2 exPos] exPos exPos] exPos,
    .call (B "p")
      [ .slice (.ident [108] exPos) (some (.intLit 5 exPos)) (some (.intLit 2 exPos)) none false exPos exPos,
        .call (B "len") [.strLit [120] exPos] exPos exPos exPos 2 ] exPos exPos exPos 1 ]

def exWorld : World :=
  { heap := [.list [.int 7]],
    pt := Point.init [109] [([116], [97])] [([102], .int 1), ([103], .str [98])] 0 }

/-- the engine answers one query with `ok:4142` -/
def exEnv : Env :=
  { bound := fun _ => none, fns := [B "p", B "len"], sigK := some 3, hasSignal := true,
    mapOrder := fun _ => 0,
    oracle := fun q => if q = [1] then some [111, 107, 58, 52, 49, 52, 50] else none }

theorem allCalls_strLit (k : Nat) (v : Bytes) (p : Pos) : C08.allCalls k (.strLit v p) = [] := by
  cases k <;> simp [C08.allCalls]
theorem allCallsL_nil (k : Nat) : C08.allCallsL k [] = [] := by
  cases k <;> simp [C08.allCallsL]
theorem structOk_strLit (k d : Nat) (v : Bytes) (p : Pos) : C08.structOk k d (.strLit v p) = true := by
  cases k <;> simp [C08.structOk]
theorem structOkL_nil (k d : Nat) : C08.structOkL k d [] = true := by
  cases k <;> simp [C08.structOkL]
theorem allIntLits_strLit (k : Nat) (v : Bytes) (p : Pos) : allIntLits k (.strLit v p) = [] := by
  cases k <;> simp [allIntLits]
theorem allIntLitsL_nil (k : Nat) : allIntLitsL k [] = [] := by
  cases k <;> simp [allIntLitsL]

theorem exScript_checked : Checked exScript := by
  refine ⟨fun k c hc => ?_, fun k => ?_⟩
  · have key : c.name = [112] ∧ c.args.length = 2 ∨ c.name = [108, 101, 110] ∧ c.args.length = 1 := by
      rcases k with _ | _ | _ | _ | _ | _ | _ | k <;>
        simp [exScript, C08.allCallsL, C08.allCalls, C08.allCallsO, PanicProofs.B_p, PanicProofs.B_len,
          allCalls_strLit, allCallsL_nil] at hc
      all_goals first
        | (rcases hc with rfl | rfl <;> simp)
        | (subst hc; simp)
    unfold argsOk
    rw [PanicProofs.ofName_eq]
    rcases key with ⟨h1, h2⟩ | ⟨h1, h2⟩ <;> rw [h1] <;> simp [PanicProofs.ofNameB, h2]
  · rcases k with _ | _ | _ | _ | _ | _ | _ | k <;>
      simp [exScript, C08.structOkL, C08.structOk, C08.structOkO, structOk_strLit, structOkL_nil]

theorem exScript_lits : LitsI64 exScript := by
  intro k v hv
  have key : v = 1 ∨ v = 2 ∨ v = 5 := by
    rcases k with _ | _ | _ | _ | _ | _ | _ | k <;>
      simp [exScript, allIntLitsL, allIntLits, allIntLitsO, allIntLits_strLit, allIntLitsL_nil] at hv
    all_goals omega
  unfold inI64 minI64 maxI64
  omega

theorem exWorld_wt : WTState { task := { name := [], scopes := [[]] }, world := exWorld } := by
  refine ⟨by simp, by simp, ?_⟩
  apply C10.init_inv
  · simp [C10.NoDup]
  · simp [C10.NoDup]
  · intro k; simp [alookup_cons]; grind
  · intro k v; simp [alookup_cons]; grind [C10.isScalar]

theorem exInputs : IntsRepresentable exEnv exScript exWorld := by
  refine ⟨exScript_lits, fun _ _ _ h => by simp [exEnv] at h, ?_, ?_, ?_⟩
  · intro o ho
    simp [exWorld] at ho
    subst ho
    intro x hx
    simp at hx
    subst hx
    show inI64 7
    unfold inI64 minI64 maxI64; omega
  · intro kv hkv
    simp [exWorld, Point.init] at hkv
    rcases hkv with rfl | rfl
    · show inI64 1
      unfold inI64 minI64 maxI64; omega
    · trivial
  · intro q a h
    simp only [exEnv] at h
    split at h
    · cases h
      intro n hp v h' rest hu
      have e : unhex (splitAnswer [111, 107, 58, 52, 49, 52, 50]).2 = [65, 66] := by decide
      rw [e] at hu
      cases n <;> simp [unrender] at hu
    · cases h

/-- … hence this run does not panic (for any fuel) -/
example (fuel : Nat) : isPanic (runScript exEnv fuel [] exScript exWorld) = false :=
  no_panic exEnv fuel [] exScript exWorld exScript_checked (fun _ _ _ h => by simp [exEnv] at h)
    exWorld_wt exInputs

#print axioms no_panic
#print axioms accepted_argsOk
#print axioms model_needs_int64_inputs

end Platypus.C01
