import Platypus.Model.Check
import Platypus.Proofs.Check
/-!
# C08 — load-time checking rejects every invalid construct wherever it occurs

`allCalls` enumerates every call node of a tree by plain recursion over *all* children of every
node kind (conditions, loop headers, list and map elements, index expressions, every slice bound
and the step, call arguments, named arguments, both sides of assignments, …).
`check_sound`: if the check pass accepts (and the function checkers leave the loop counter alone,
which `check_sound_full_false` shows to be necessary for the break/continue part), every call node anywhere in the tree names a registered
function that has a checker, and that checker accepted the call; every break/continue lies inside
a loop; no map literal has a non-string literal key; every for-in variable is an identifier.
`check_complete`: conversely, for a table of state-independent checkers, a tree all of whose
constructs are valid is accepted.  Both hold for arbitrary registered function tables.

Proofs: `soundAll` / `completeAll` state the property for the six mutually recursive functions of
the pass at once, generalised over the loop depth, and are proved by induction on the check fuel
from the per-equation step lemmas of `Platypus/Proofs/Check.lean` (`acc_…`: acceptance of a node
gives acceptance of its children; `tr_…`: passes that accept-or-run-out-of-fuel compose); the
enumeration fuel `k` is handled by a case split at every node.
-/
namespace Platypus.C08
open Platypus Platypus.CheckProofs

mutual
/-- every call node of a tree, at any depth and in any position -/
def allCalls : Nat → Node → List CallInfo
  | 0, _ => []
  | f+1, n => match n with
    | .list xs _ _ => allCallsL f xs
    | .map kvs _ _ => allCallsKV f kvs
    | .paren e _ _ => allCalls f e
    | .attr o a _ => allCallsO f o ++ allCallsO f a
    | .index _ idx _ _ => allCallsL f idx
    | .unary _ e _ => allCalls f e
    | .arith _ l r _ => allCalls f l ++ allCalls f r
    | .cond _ l r _ => allCalls f l ++ allCalls f r
    | .inE l r _ => allCalls f l ++ allCalls f r
    | .assign _ lhs rhs _ => allCallsL f lhs ++ allCallsL f rhs
    | .call name args np _ _ site => ⟨name, args, np, site⟩ :: allCallsL f args
    | .slice o a b c _ _ _ => allCalls f o ++ allCallsO f a ++ allCallsO f b ++ allCallsO f c
    | .ifelse ifs els _ => allCallsIfs f ifs ++ allCallsOB f els
    | .forS a b c body _ => allCallsO f a ++ allCallsO f b ++ allCallsO f c ++ allCallsOB f body
    | .forIn v it body _ _ => allCalls f v ++ allCalls f it ++ allCallsOB f body
    | _ => []
def allCallsL : Nat → List Node → List CallInfo
  | 0, _ => []
  | _, [] => []
  | f+1, n :: r => allCalls f n ++ allCallsL f r
def allCallsO : Nat → Option Node → List CallInfo
  | 0, _ => []
  | _, none => []
  | f+1, some n => allCalls f n
def allCallsOB : Nat → Option (List Node) → List CallInfo
  | 0, _ => []
  | _, none => []
  | f+1, some b => allCallsL f b
def allCallsKV : Nat → List (Node × Node) → List CallInfo
  | 0, _ => []
  | _, [] => []
  | f+1, (k, v) :: r => allCalls f k ++ allCalls f v ++ allCallsKV f r
def allCallsIfs : Nat → List (Node × Option (List Node) × Pos) → List CallInfo
  | 0, _ => []
  | _, [] => []
  | f+1, (c, b, _) :: r => allCalls f c ++ allCallsOB f b ++ allCallsIfs f r
end

mutual
/-- structural validity other than calls: break/continue only with `depth > 0` enclosing loops,
    map literal keys are not non-string literals, for-in variables are identifiers -/
def structOk : Nat → Nat → Node → Bool
  | 0, _, _ => true
  | f+1, depth, n => match n with
    | .list xs _ _ => structOkL f depth xs
    | .map kvs _ _ => structOkKV f depth kvs
    | .paren e _ _ => structOk f depth e
    | .attr o a _ => structOkO f depth o && structOkO f depth a
    | .index _ idx _ _ => structOkL f depth idx
    | .unary _ e _ => structOk f depth e
    | .arith _ l r _ | .cond _ l r _ | .inE l r _ => structOk f depth l && structOk f depth r
    | .assign _ lhs rhs _ => structOkL f depth lhs && structOkL f depth rhs
    | .call _ args _ _ _ _ => structOkL f depth args
    | .slice o a b c _ _ _ => structOk f depth o && structOkO f depth a && structOkO f depth b && structOkO f depth c
    | .ifelse ifs els _ => structOkIfs f depth ifs && structOkOB f depth els
    | .forS a b c body _ => structOkO f depth a && structOkO f depth b && structOkOB f (depth + 1) body && structOkO f (depth + 1) c
    | .forIn v it body _ _ => (match v with | .ident _ _ => true | _ => false) && structOk f depth it && structOkOB f (depth + 1) body
    | .brk _ | .cont _ => decide (depth > 0)
    | _ => true
def structOkL : Nat → Nat → List Node → Bool
  | 0, _, _ => true
  | _, _, [] => true
  | f+1, d, n :: r => structOk f d n && structOkL f d r
def structOkO : Nat → Nat → Option Node → Bool
  | 0, _, _ => true
  | _, _, none => true
  | f+1, d, some n => structOk f d n
def structOkOB : Nat → Nat → Option (List Node) → Bool
  | 0, _, _ => true
  | _, _, none => true
  | f+1, d, some b => structOkL f d b
def structOkKV : Nat → Nat → List (Node × Node) → Bool
  | 0, _, _ => true
  | _, _, [] => true
  | f+1, d, (k, v) :: r => !isMapKeyLit k && structOk f d k && structOk f d v && structOkKV f d r
def structOkIfs : Nat → Nat → List (Node × Option (List Node) × Pos) → Bool
  | 0, _, _ => true
  | _, _, [] => true
  | f+1, d, (c, b, _) :: r => structOk f d c && structOkOB f d b && structOkIfs f d r
end

/-- the checker of call `c` exists and accepted it in some state of the pass -/
def Accepted (fcheck : CallInfo → Option (CM Unit)) (c : CallInfo) : Prop :=
  ∃ chk s s', fcheck c = some chk ∧ chk s = .ok () s'

/-! ### soundness -/

@[simp] theorem allCalls_ident (k : Nat) (nm : Bytes) (p : Pos) : allCalls k (.ident nm p) = [] := by
  cases k <;> simp [allCalls]

section
variable (file : Bytes) (registered : Bytes → Bool) (fcheck : CallInfo → Option (CM Unit))

/-- what soundness says about one position of the tree that the pass checked at loop depth `d`:
    `calls k` / `sok k d` are the enumerations of that position at enumeration depth `k` -/
def Good (d : Nat) (calls : Nat → List CallInfo) (sok : Nat → Nat → Bool) : Prop :=
  (∀ k, ∀ c ∈ calls k, registered c.name = true ∧ Accepted fcheck c) ∧
  (LoopsInv fcheck → ∀ k, sok k d = true)

/-- soundness of the six mutually recursive functions of the pass at check fuel `f` -/
def SoundAll (f : Nat) : Prop :=
  (∀ d n, AccAt fcheck d (checkNode file registered fcheck f n) →
    Good registered fcheck d (allCalls · n) (structOk · · n)) ∧
  (∀ d n, AccAt fcheck d (checkNodes file registered fcheck f n) →
    Good registered fcheck d (allCallsL · n) (structOkL · · n)) ∧
  (∀ d n, AccAt fcheck d (checkOpt file registered fcheck f n) →
    Good registered fcheck d (allCallsO · n) (structOkO · · n)) ∧
  (∀ d n, AccAt fcheck d (checkOptBlock file registered fcheck f n) →
    Good registered fcheck d (allCallsOB · n) (structOkOB · · n)) ∧
  (∀ d n, AccAt fcheck d (checkMap file registered fcheck f n) →
    Good registered fcheck d (allCallsKV · n) (structOkKV · · n)) ∧
  (∀ d n, AccAt fcheck d (checkIfs file registered fcheck f n) →
    Good registered fcheck d (allCallsIfs · n) (structOkIfs · · n))

/-- from the `Good` facts of the children (in the context) to the `Good` fact of the parent:
    case split on the enumeration depth, unfold the enumerations one step -/
local macro "good_close" : tactic =>
  `(tactic| (
    simp only [Good] at *
    refine ⟨fun k c hc => ?_, fun H k => ?_⟩
    · cases k <;>
        (try simp only [allCalls, allCallsL, allCallsO, allCallsOB, allCallsKV, allCallsIfs,
          allCalls_ident, List.mem_append, List.mem_cons, List.not_mem_nil] at hc) <;>
        grind
    · cases k <;>
        (try simp only [structOk, structOkL, structOkO, structOkOB, structOkKV, structOkIfs,
          Bool.and_eq_true, Bool.not_eq_true', decide_eq_true_eq]) <;>
        grind))

theorem soundAll : ∀ f, SoundAll file registered fcheck f := by
  intro f
  induction f with
  | zero =>
    exact ⟨fun _ _ h => (acc_node_zero h).elim, fun _ _ h => (acc_nodes_zero h).elim,
      fun _ _ h => (acc_opt_zero h).elim, fun _ _ h => (acc_optBlock_zero h).elim,
      fun _ _ h => (acc_map_zero h).elim, fun _ _ h => (acc_ifs_zero h).elim⟩
  | succ f ih =>
    have ihn := ih.1; have ihl := ih.2.1; have iho := ih.2.2.1; have ihb := ih.2.2.2.1
    have ihm := ih.2.2.2.2.1; have ihi := ih.2.2.2.2.2
    refine ⟨?_, ?_, ?_, ?_, ?_, ?_⟩
    · intro d n h
      cases n
      case list => have := ihl _ _ (acc_list h); good_close
      case map => have := ihm _ _ (acc_map h); good_close
      case paren => have := ihn _ _ (acc_paren h); good_close
      case unary => have := ihn _ _ (acc_unary h); good_close
      case index => have := ihl _ _ (acc_index h); good_close
      case attr =>
        obtain ⟨h1, h2⟩ := acc_attr h
        have := iho _ _ h1; have := iho _ _ h2; good_close
      case inE =>
        obtain ⟨h1, h2⟩ := acc_inE h
        have := ihn _ _ h1; have := ihn _ _ h2; good_close
      case arith =>
        obtain ⟨h1, h2⟩ := acc_arith h
        have := ihn _ _ h1; have := ihn _ _ h2; good_close
      case cond =>
        obtain ⟨h1, h2⟩ := acc_cond h
        have := ihn _ _ h1; have := ihn _ _ h2; good_close
      case assign =>
        obtain ⟨h1, h2⟩ := acc_assign h
        have := ihl _ _ h1; have := ihl _ _ h2; good_close
      case call =>
        obtain ⟨hr, hacc, h1⟩ := acc_call h
        change Accepted fcheck _ at hacc
        have := ihl _ _ h1; good_close
      case slice =>
        obtain ⟨h1, h2, h3, h4⟩ := acc_slice h
        have := ihn _ _ h1; have := iho _ _ h2; have := iho _ _ h3; have := iho _ _ h4; good_close
      case ifelse =>
        obtain ⟨h1, h2⟩ := acc_ifelse h
        have := ihi _ _ h1; have := ihb _ _ h2; good_close
      case forS =>
        obtain ⟨h1, h2, h3, h4⟩ := acc_forS h
        have := iho _ _ h1; have := iho _ _ h2; have := ihb _ _ h3; have := iho _ _ h4; good_close
      case forIn =>
        obtain ⟨⟨nm, q, rfl⟩, h1, h2⟩ := acc_forIn h
        have := ihn _ _ h1; have := ihb _ _ h2; good_close
      case brk => have := acc_brk h; good_close
      case cont => have := acc_cont h; good_close
      all_goals good_close
    · intro d n h
      cases n
      case nil => good_close
      case cons =>
        obtain ⟨h1, h2⟩ := acc_nodes_cons h
        have := ihn _ _ h1; have := ihl _ _ h2; good_close
    · intro d n h
      cases n
      case none => good_close
      case some => have := ihn _ _ (acc_opt_some h); good_close
    · intro d n h
      cases n
      case none => good_close
      case some => have := ihl _ _ (acc_optBlock_some h); good_close
    · intro d n h
      rcases n with _ | ⟨⟨k, v⟩, r⟩
      · good_close
      · obtain ⟨hk, h1, h2, h3⟩ := acc_map_cons h
        have := ihn _ _ h1; have := ihn _ _ h2; have := ihm _ _ h3; good_close
    · intro d n h
      rcases n with _ | ⟨⟨c, b, p⟩, r⟩
      · good_close
      · obtain ⟨h1, h2, h3⟩ := acc_ifs_cons h
        have := ihn _ _ h1; have := ihb _ _ h2; have := ihi _ _ h3; good_close

end

/-- **soundness**: an accepted script has only registered, checker-accepted calls — wherever they
    occur — and is structurally valid.  `k` is any enumeration depth (the enumerations are
    fuel-indexed because `Node` is a nested inductive; `∀ k` covers the whole tree).
    `hinv` (the function checkers leave the loop counter `ctxCheck.forstmt` alone) is needed for
    the structural part only: a checker that sets `loops := 1` would make the pass accept a
    top-level `break` after its call.  The calls part holds without it (`check_sound_calls`). -/
theorem check_sound (file : Bytes) (registered : Bytes → Bool) (fcheck : CallInfo → Option (CM Unit))
    (hinv : ∀ c chk s s', fcheck c = some chk → chk s = .ok () s' → s'.loops = s.loops)
    (fuel : Nat) (stmts : List Node) (st st' : CheckSt)
    (h : checkNodes file registered fcheck fuel stmts st = .ok () st') (hloops : st.loops = 0) :
    (∀ k, ∀ c ∈ allCallsL k stmts, registered c.name = true ∧ Accepted fcheck c) ∧
    (∀ k, structOkL k 0 stmts = true) := by
  have g := (soundAll file registered fcheck fuel).2.1 0 stmts ⟨st, st', h, fun _ => hloops⟩
  exact ⟨g.1, g.2 hinv⟩

/-- `check_sound` as originally stated, without the hypothesis on the checkers -/
def check_sound_full : Prop :=
  ∀ (file : Bytes) (registered : Bytes → Bool) (fcheck : CallInfo → Option (CM Unit))
    (fuel : Nat) (stmts : List Node) (st st' : CheckSt),
    checkNodes file registered fcheck fuel stmts st = .ok () st' → st.loops = 0 →
    (∀ k, ∀ c ∈ allCallsL k stmts, registered c.name = true ∧ Accepted fcheck c) ∧
    (∀ k, structOkL k 0 stmts = true)

/-- … is false: with a checker that sets the loop counter, the pass accepts `f(); break` at top level -/
theorem check_sound_full_false : ¬ check_sound_full := by
  intro h
  have := (h [] (fun _ => true) (fun _ => some (cMod fun s => { s with loops := 1 })) 3
    [.call [102] [] Pos.invalid Pos.invalid Pos.invalid 0, .brk Pos.invalid] {} { loops := 1 } rfl rfl).2 3
  simp [structOkL, structOk] at this

/-- the calls part of soundness, for arbitrary checkers and any initial state -/
theorem check_sound_calls (file : Bytes) (registered : Bytes → Bool) (fcheck : CallInfo → Option (CM Unit))
    (fuel : Nat) (stmts : List Node) (st st' : CheckSt)
    (h : checkNodes file registered fcheck fuel stmts st = .ok () st') :
    ∀ k, ∀ c ∈ allCallsL k stmts, registered c.name = true ∧ Accepted fcheck c :=
  ((soundAll file registered fcheck fuel).2.1 _ stmts (AccAt.of_ok h)).1

/-! ### completeness -/

/-- a checker that does not depend on (or change) the state of the pass -/
def Stateless (fcheck : CallInfo → Option (CM Unit)) (valid : CallInfo → Bool) : Prop :=
  ∀ c, ∃ chk, fcheck c = some chk ∧ ∀ s, (valid c = true → chk s = .ok () s) ∧ (valid c = false → ∃ e, chk s = .err e)

section
variable (file : Bytes) (registered : Bytes → Bool) (fcheck : CallInfo → Option (CM Unit))
  (valid : CallInfo → Bool)

/-- the hypotheses of completeness for one position of the tree at loop depth `d` -/
def Valid (d : Nat) (calls : Nat → List CallInfo) (sok : Nat → Nat → Bool) : Prop :=
  (∀ k, ∀ c ∈ calls k, registered c.name = true ∧ valid c = true) ∧ (∀ k, sok k d = true)

/-- completeness of the six mutually recursive functions of the pass at check fuel `f` -/
def CompleteAll (f : Nat) : Prop :=
  (∀ d n, Valid registered valid d (allCalls · n) (structOk · · n) →
    Tr d d (checkNode file registered fcheck f n)) ∧
  (∀ d n, Valid registered valid d (allCallsL · n) (structOkL · · n) →
    Tr d d (checkNodes file registered fcheck f n)) ∧
  (∀ d n, Valid registered valid d (allCallsO · n) (structOkO · · n) →
    Tr d d (checkOpt file registered fcheck f n)) ∧
  (∀ d n, Valid registered valid d (allCallsOB · n) (structOkOB · · n) →
    Tr d d (checkOptBlock file registered fcheck f n)) ∧
  (∀ d n, Valid registered valid d (allCallsKV · n) (structOkKV · · n) →
    Tr d d (checkMap file registered fcheck f n)) ∧
  (∀ d n, Valid registered valid d (allCallsIfs · n) (structOkIfs · · n) →
    Tr d d (checkIfs file registered fcheck f n))

/-- from the `Valid` fact `hv` of the parent to the `Valid` fact of a child: the child's
    enumerations at depth `k` are part of the parent's at depth `k + 1` -/
local macro "valid_child" hv:ident : tactic =>
  `(tactic| (
    refine ⟨fun k c hc => ($hv).1 (k+1) c ?_, fun k => ?_⟩
    · simp only [allCalls, allCallsL, allCallsO, allCallsOB, allCallsKV, allCallsIfs,
        List.mem_append, List.mem_cons]
      simp only [hc, true_or, or_true]
    · have hk := ($hv).2 (k+1)
      simp only [structOk, structOkL, structOkO, structOkOB, structOkKV, structOkIfs,
        Bool.and_eq_true] at hk
      grind))

theorem completeAll (hs : Stateless fcheck valid) : ∀ f, CompleteAll file registered fcheck valid f := by
  intro f
  induction f with
  | zero =>
    exact ⟨fun _ _ _ => tr_node_zero, fun _ _ _ => tr_nodes_zero, fun _ _ _ => tr_opt_zero,
      fun _ _ _ => tr_optBlock_zero, fun _ _ _ => tr_map_zero, fun _ _ _ => tr_ifs_zero⟩
  | succ f ih =>
    have ihn := ih.1; have ihl := ih.2.1; have iho := ih.2.2.1; have ihb := ih.2.2.2.1
    have ihm := ih.2.2.2.2.1; have ihi := ih.2.2.2.2.2
    clear ih
    refine ⟨?_, ?_, ?_, ?_, ?_, ?_⟩
    · intro d n hv
      cases n
      case ident => exact tr_ident
      case strLit => exact tr_strLit
      case intLit => exact tr_intLit
      case floatLit => exact tr_floatLit
      case boolLit => exact tr_boolLit
      case nilLit => exact tr_nilLit
      case list => refine tr_list (ihl _ _ ?_); valid_child hv
      case map => refine tr_map (ihm _ _ ?_); valid_child hv
      case paren => refine tr_paren (ihn _ _ ?_); valid_child hv
      case unary => refine tr_unary (ihn _ _ ?_); valid_child hv
      case index => refine tr_index (ihl _ _ ?_); valid_child hv
      case attr => refine tr_attr (iho _ _ ?_) (iho _ _ ?_) <;> valid_child hv
      case inE => refine tr_inE (ihn _ _ ?_) (ihn _ _ ?_) <;> valid_child hv
      case arith => refine tr_arith (ihn _ _ ?_) (ihn _ _ ?_) <;> valid_child hv
      case cond => refine tr_cond (ihn _ _ ?_) (ihn _ _ ?_) <;> valid_child hv
      case assign => refine tr_assign (ihl _ _ ?_) (ihl _ _ ?_) <;> valid_child hv
      case call name args np lp rp site =>
        obtain ⟨chk, hc, hchk⟩ := hs ⟨name, args, np, site⟩
        have hrv := hv.1 1 ⟨name, args, np, site⟩ (by simp [allCalls])
        refine tr_call hrv.1 ⟨chk, hc, fun s => (hchk s).1 hrv.2⟩ (ihl _ _ ?_)
        valid_child hv
      case slice =>
        refine tr_slice (ihn _ _ ?_) (iho _ _ ?_) (iho _ _ ?_) (iho _ _ ?_) <;> valid_child hv
      case ifelse => refine tr_ifelse (ihi _ _ ?_) (ihb _ _ ?_) <;> valid_child hv
      case forS =>
        refine tr_forS (iho _ _ ?_) (iho _ _ ?_) (ihb _ _ ?_) (iho _ _ ?_) <;> valid_child hv
      case forIn var iter body fp ip =>
        have h1 := hv.2 1
        cases var <;> simp [structOk] at h1
        refine tr_forIn (ihn _ _ ?_) (ihb _ _ ?_) <;> valid_child hv
      case brk =>
        have h1 := hv.2 1
        simp [structOk] at h1
        exact tr_brk h1
      case cont =>
        have h1 := hv.2 1
        simp [structOk] at h1
        exact tr_cont h1
    · intro d n hv
      cases n
      case nil => exact tr_nodes_nil
      case cons => refine tr_nodes_cons (ihn _ _ ?_) (ihl _ _ ?_) <;> valid_child hv
    · intro d n hv
      cases n
      case none => exact tr_opt_none
      case some => refine tr_opt_some (ihn _ _ ?_); valid_child hv
    · intro d n hv
      cases n
      case none => exact tr_optBlock_none
      case some => refine tr_optBlock_some (ihl _ _ ?_); valid_child hv
    · intro d n hv
      rcases n with _ | ⟨⟨k, v⟩, r⟩
      · exact tr_map_nil
      · have h1 := hv.2 1
        simp [structOkKV] at h1
        refine tr_map_cons h1.1.1 (ihn _ _ ?_) (ihn _ _ ?_) (ihm _ _ ?_) <;> valid_child hv
    · intro d n hv
      rcases n with _ | ⟨⟨c, b, p⟩, r⟩
      · exact tr_ifs_nil
      · refine tr_ifs_cons (ihn _ _ ?_) (ihb _ _ ?_) (ihi _ _ ?_) <;> valid_child hv

end

/-- **completeness**: a script made only of valid constructs is never rejected (given enough fuel) -/
theorem check_complete (file : Bytes) (registered : Bytes → Bool) (fcheck : CallInfo → Option (CM Unit))
    (valid : CallInfo → Bool) (hs : Stateless fcheck valid)
    (stmts : List Node) (st : CheckSt) (hloops : st.loops = 0)
    (hcalls : ∀ k, ∀ c ∈ allCallsL k stmts, registered c.name = true ∧ valid c = true)
    (hstruct : ∀ k, structOkL k 0 stmts = true) :
    ∀ fuel, (∃ st', checkNodes file registered fcheck fuel stmts st = .ok () st') ∨
            checkNodes file registered fcheck fuel stmts st = .fuel := by
  intro fuel
  rcases (completeAll file registered fcheck valid hs fuel).2.1 0 stmts ⟨hcalls, hstruct⟩ st hloops with
    ⟨st', h, _⟩ | h
  · exact .inl ⟨st', h⟩
  · exact .inr h

set_option linter.unusedVariables false in
/-- an unknown function anywhere is rejected (corollary of soundness, contrapositive; it needs
    neither the hypothesis on the checkers nor `hloops`) -/
theorem unknown_function_rejected (file : Bytes) (registered : Bytes → Bool) (fcheck : CallInfo → Option (CM Unit))
    (fuel : Nat) (stmts : List Node) (st : CheckSt) (hloops : st.loops = 0)
    (k : Nat) (c : CallInfo) (hc : c ∈ allCallsL k stmts) (hu : registered c.name = false) :
    ∀ st', checkNodes file registered fcheck fuel stmts st ≠ .ok () st' := by
  intro st' h
  have := (check_sound_calls file registered fcheck fuel stmts st st' h k c hc).1
  rw [hu] at this
  contradiction

/-! ### non-vacuity -/

/-- the enumeration reaches the step of a slice without an end bound: `f(a[::g()])` -/
example :
    let p : Pos := Pos.invalid
    let g : Node := .call (bytesOf "g") [] p p p 2
    let arg : Node := .slice (.ident [97] p) none none (some g) true p p
    allCallsL 6 [.call (bytesOf "f") [arg] p p p 1] = [⟨bytesOf "f", [arg], p, 1⟩, ⟨bytesOf "g", [], p, 2⟩] := by
  simp [allCallsL, allCalls, allCallsO]

/-- … and soundness then speaks about that call: if the pass accepts `f(a[::g()])`, `g` is registered -/
example (file : Bytes) (registered : Bytes → Bool) (fcheck : CallInfo → Option (CM Unit)) (fuel : Nat)
    (st st' : CheckSt) (p : Pos)
    (h : checkNodes file registered fcheck fuel
      [.call (bytesOf "f") [.slice (.ident [97] p) none none (some (.call (bytesOf "g") [] p p p 2)) true p p] p p p 1]
      st = .ok () st') : registered (bytesOf "g") = true :=
  (check_sound_calls file registered fcheck fuel _ st st' h 6 ⟨bytesOf "g", [], p, 2⟩
    (by simp [allCallsL, allCalls, allCallsO])).1

end Platypus.C08
