import Platypus.Model.Eval
/-!
# C02 — operators evaluate exactly as the language reference specifies

Theorems about the operator functions of the model (`Ops.lean`: `arith`, `condOp`, `unop`, `inOp`)
and about the evaluation order / short-circuit of `evalNode`.  They quantify over all operand
values (all 64-bit integers, all float bit patterns, all byte strings, all heaps).
-/
namespace Platypus.C02

def I (a : Int) : TV := ⟨.int a, .int⟩
def Bl (b : Bool) : TV := ⟨.bool b, .bool⟩
def F (x : UInt64) : TV := ⟨.float x, .float⟩
def S (s : Bytes) : TV := ⟨.str s, .str⟩

/-- integer (and bool-as-0/1) value of an int/bool operand -/
def ival (x : TV) : Int := x.v.toI64

/-- an operand that is an integer or a boolean, well tagged -/
inductive IntLike : TV → Prop
  | int (a : Int) : IntLike (I a)
  | bool (b : Bool) : IntLike (Bl b)

theorem intlike_facts {x : TV} (h : IntLike x) :
    arithType x.t = true ∧ x.t ≠ .str ∧ x.t ≠ .float ∧ cmpType x.t = true ∧ isNum x.t = true := by
  cases h <;> simp [I, Bl, arithType, cmpType, isNum]

/-- `+ - *` on integer/bool operands: exact 64-bit wrap-around, result type int -/
theorem int_arith_wraps (l r : TV) (hl : IntLike l) (hr : IntLike r) :
    arith .add l r = .ok (I (wrap64 (ival l + ival r))) ∧
    arith .sub l r = .ok (I (wrap64 (ival l - ival r))) ∧
    arith .mul l r = .ok (I (wrap64 (ival l * ival r))) := by
  cases hl <;> cases hr <;> simp [arith, arithType, I, Bl, ival, arithOpInt]

/-- `/` on two integers truncates toward zero; `%` takes the sign of the dividend -/
theorem int_div_truncates (l r : TV) (hl : IntLike l) (hr : IntLike r) (h0 : ival r ≠ 0) :
    arith .div l r = .ok (I (wrap64 (Int.tdiv (ival l) (ival r)))) ∧
    arith .mod l r = .ok (I (wrap64 (Int.tmod (ival l) (ival r)))) := by
  cases hl <;> cases hr <;> simp_all [arith, arithType, I, Bl, ival, arithOpInt]

/-- integer division / modulo by zero is an error, never a value -/
theorem int_div_mod_zero_errors (l r : TV) (hl : IntLike l) (hr : IntLike r) (h0 : ival r = 0) :
    arith .div l r = .error "int-div-zero" ∧ arith .mod l r = .error "int-mod-zero" := by
  cases hl <;> cases hr <;> simp_all [arith, arithType, I, Bl, ival, arithOpInt]

/-- a numeric operand (int, bool or float), well tagged -/
inductive Num : TV → Prop
  | int (a : Int) : Num (I a)
  | bool (b : Bool) : Num (Bl b)
  | float (x : UInt64) : Num (F x)

/-- float division by (either) zero and float modulo are errors -/
theorem float_div_mod_errors (l r : TV) (hl : Num l) (hr : Num r) (hf : l.t = .float ∨ r.t = .float) :
    (fIsZero r.v.toF64 = true → arith .div l r = .error "float-div-zero") ∧
    arith .mod l r = .error "float-mod" := by
  cases hl <;> cases hr <;> simp_all [arith, arithType, I, Bl, F, arithOpFloat]

/-- promotion to float happens exactly when a float operand is present -/
theorem float_only_if_float_operand (op : AOp) (l r : TV) (hl : Num l) (hr : Num r) (v : TV)
    (h : arith op l r = .ok v) : (v.t = .float ↔ (l.t = .float ∨ r.t = .float)) := by
  cases hl <;> cases hr <;> cases op <;>
    simp [arith, arithType, I, Bl, F, arithOpInt, arithOpFloat] at h <;>
    (try split at h) <;> simp_all [I, Bl, F] <;> (try (subst h; simp))

/-- `+` concatenates two strings; a string with anything else, or any other operator, is an error -/
theorem string_concat_only (a b : Bytes) :
    arith .add (S a) (S b) = .ok (S (a ++ b)) ∧
    (∀ op, op ≠ .add → ∃ e, arith op (S a) (S b) = .error e) := by
  constructor
  · simp [arith, arithType, S]
  · intro op h; cases op <;> simp_all [arith, arithType, S]

theorem string_mixed_errors (op : AOp) (a : Bytes) (x : TV) (hx : x.t ≠ .str) :
    (∃ e, arith op (S a) x = .error e) ∧ (∃ e, arith op x (S a) = .error e) := by
  constructor <;> cases op <;> simp [arith, S] <;> (repeat' split) <;> simp_all

/-- nil, list, map (and void/invalid) operands of arithmetic are errors -/
theorem arith_type_mismatch_errors (op : AOp) (l r : TV) (h : arithType l.t = false ∨ arithType r.t = false) :
    ∃ e, arith op l r = .error e := by
  rcases h with h | h
  · exact ⟨"arith-lhs-type", by simp [arith, h]⟩
  · by_cases hl : arithType l.t = true
    · exact ⟨"arith-rhs-type", by simp [arith, hl, h]⟩
    · exact ⟨"arith-lhs-type", by simp [arith, hl]⟩

/-- `< <= > >=` reject non-numeric operands -/
theorem cmp_type_mismatch_errors (h : Heap) (op : COp) (hop : op = .lt ∨ op = .le ∨ op = .gt ∨ op = .ge)
    (l r : TV) (ht : cmpType l.t = false ∨ cmpType r.t = false) :
    condOp h op l r = .error "not-comparable" := by
  rcases hop with rfl | rfl | rfl | rfl <;> rcases ht with ht | ht <;> simp [condOp, ht] <;>
    (intro; rfl)

/-- integer comparison is the mathematical order -/
theorem int_cmp_exact (h : Heap) (l r : TV) (hl : IntLike l) (hr : IntLike r) :
    condOp h .lt l r = .ok (Bl (decide (ival l < ival r))) ∧
    condOp h .le l r = .ok (Bl (decide (ival l ≤ ival r))) ∧
    condOp h .gt l r = .ok (Bl (decide (ival l > ival r))) ∧
    condOp h .ge l r = .ok (Bl (decide (ival l ≥ ival r))) := by
  cases hl <;> cases hr <;> simp [condOp, cmpType, I, Bl, ival] <;> (constructor <;> congr)

/-- numeric equality on integer/bool operands is exact (no float round-trip) -/
theorem eq_int_exact (h : Heap) (l r : TV) (hl : IntLike l) (hr : IntLike r) :
    condOp h .eq l r = .ok (Bl (decide (ival l = ival r))) := by
  cases hl <;> cases hr <;> simp [condOp, eqVal, isNum, I, Bl, ival] <;> rfl

theorem eq_int_exact_lit (h : Heap) (a b : Int) :
    condOp h .eq (I a) (I b) = .ok (Bl (decide (a = b))) := by
  have := eq_int_exact h (I a) (I b) (.int a) (.int b)
  simp only [ival, I, Val.toI64] at this
  exact this

/-- with a float operand equality is IEEE equality of the promoted values -/
theorem eq_mixed_is_float_eq (h : Heap) (l r : TV) (hl : Num l) (hr : Num r) (hf : l.t = .float ∨ r.t = .float) :
    condOp h .eq l r = .ok (Bl (feq l.v.toF64 r.v.toF64)) := by
  cases hl <;> cases hr <;> simp_all [condOp, eqVal, isNum, I, Bl, F]

/-- equality across unrelated types is false (not an error) -/
theorem eq_unrelated_false (h : Heap) (l r : TV) :
    (isNum l.t = true → isNum r.t = false → condOp h .eq l r = .ok (Bl false)) ∧
    (l.t = .str → r.t ≠ .str → condOp h .eq l r = .ok (Bl false)) ∧
    (l.t = .nil → r.t ≠ .nil → condOp h .eq l r = .ok (Bl false)) := by
  refine ⟨?_, ?_, ?_⟩
  · intro h1 h2
    cases hl : l.t <;> simp_all [condOp, eqVal, isNum, Bl]
  · intro h1 h2; simp [condOp, eqVal, h1, h2, Bl]
  · intro h1 h2; simp [condOp, eqVal, h1, h2, Bl]

theorem eq_str (h : Heap) (a b : Bytes) : condOp h .eq (S a) (S b) = .ok (Bl (a == b)) := by
  simp [condOp, eqVal, S, Bl]

theorem eq_nil (h : Heap) : condOp h .eq nilTV nilTV = .ok (Bl true) := by
  simp [condOp, eqVal, nilTV, Bl]

/-- `!=` is the negation of `==` for all operands -/
theorem neq_is_not_eq (h : Heap) (l r : TV) :
    ∃ b, condOp h .eq l r = .ok (Bl b) ∧ condOp h .ne l r = .ok (Bl (!b)) := by
  exact ⟨eqVal h l r, by simp [condOp, Bl], by simp [condOp, Bl]⟩

/-- `&&` / `||` demand boolean operands -/
theorem logic_bool_only (h : Heap) (op : COp) (hop : op = .and ∨ op = .or) (l r : TV)
    (ht : l.t ≠ .bool ∨ r.t ≠ .bool) : ∃ e, condOp h op l r = .error e := by
  rcases hop with rfl | rfl <;> simp only [condOp] <;> (repeat' split) <;> simp_all

theorem logic_values (h : Heap) (a b : Bool) :
    condOp h .and (Bl a) (Bl b) = .ok (Bl (a && b)) ∧ condOp h .or (Bl a) (Bl b) = .ok (Bl (a || b)) := by
  simp [condOp, cmpType, Bl, Val.toBool]

/-! ### unary -/
theorem unary_int (h : Heap) (a : Int) :
    unop h .neg (I a) = .ok (I (wrap64 (-a))) ∧ unop h .pos (I a) = .ok (I a) := by
  simp [unop, I]
theorem unary_bool (h : Heap) (b : Bool) :
    unop h .neg (Bl b) = .ok (I (if b then -1 else 0)) ∧ unop h .pos (Bl b) = .ok (I (if b then 1 else 0)) := by
  cases b <;> simp [unop, Bl, I]
theorem unary_float (h : Heap) (x : UInt64) :
    unop h .neg (F x) = .ok (F (fneg x)) ∧ unop h .pos (F x) = .ok (F x) := by
  simp [unop, F]
theorem unary_sign_type_error (h : Heap) (op : UOp) (hop : op = .neg ∨ op = .pos) (x : TV)
    (ht : x.t ≠ .bool ∧ x.t ≠ .int ∧ x.t ≠ .float) : unop h op x = .error "unary-operand-type" := by
  rcases hop with rfl | rfl <;> cases hx : x.t <;> simp_all [unop]
theorem not_values (h : Heap) :
    unop h .not nilTV = .ok (Bl true) ∧
    (∀ b, unop h .not (Bl b) = .ok (Bl (!b))) ∧
    (∀ a, unop h .not (I a) = .ok (Bl (a == 0))) ∧
    (∀ s, unop h .not (S s) = .ok (Bl s.isEmpty)) ∧
    (∀ x, unop h .not (F x) = .ok (Bl (fIsZero x))) := by
  simp [unop, nilTV, Bl, I, S, F]

/-! ### membership -/
theorem in_string (h : Heap) (a b : Bytes) : inOp h (S a) (S b) = .ok (Bl (isInfix a b)) := by
  simp [inOp, S, Bl]
theorem in_rhs_type_error (h : Heap) (l r : TV) (ht : r.t ≠ .str ∧ r.t ≠ .map ∧ r.t ≠ .list) :
    inOp h l r = .error "in-rhs-type" := by
  cases hr : r.t <;> simp_all [inOp]
theorem in_lhs_type_error (h : Heap) (l r : TV) (hr : r.t = .str ∨ r.t = .map) (hl : l.t ≠ .str) :
    inOp h l r = .error "in-lhs-type" := by
  rcases hr with hr | hr <;> simp [inOp, hr, hl]
theorem in_map_key (h : Heap) (k : Bytes) (a : Nat) (kvs : List (Bytes × Val)) (ha : h.get? a = some (.map kvs)) :
    inOp h (S k) ⟨.ref a, .map⟩ = .ok (Bl (alookup k kvs).isSome) := by
  simp [inOp, S, Bl, ha]
theorem in_list_elem (h : Heap) (x : TV) (a : Nat) (xs : List Val) (ha : h.get? a = some (.list xs)) :
    inOp h x ⟨.ref a, .list⟩ = .ok (Bl (xs.any fun e => deepEqual h x.v e)) := by
  simp [inOp, Bl, ha]

/-! ### evaluation order, exactly once, short-circuit (about `evalNode`) -/

/-- a binary arithmetic expression evaluates its left operand, then its right operand, each
    exactly once, then applies the operator: its result is the sequential composition -/
theorem arith_eval_order (env : Env) (f : Nat) (op : AOp) (l r : Node) (p : Pos) :
    evalNode env (f+1) (.arith op l r p) =
      (do let a ← evalNode env f l
          let b ← evalNode env f r
          match arith op a b with
          | .ok v => pure v
          | .error m => runErr p m) := by
  simp only [evalNode]
  rfl

/-- `||` with a true boolean left operand yields true in the state reached after the left
    operand alone: the right operand is not evaluated (no effect, no error) -/
theorem or_short_circuit (env : Env) (f : Nat) (l r : Node) (p : Pos) (s s' : St)
    (hl : evalNode env f l s = .ok (Bl true) s') :
    evalNode env (f+1) (.cond .or l r p) s = .ok (Bl true) s' := by
  simp [evalNode, bind, EM.bind, hl, Bl, Val.toBool, pure, EM.pure]

theorem and_short_circuit (env : Env) (f : Nat) (l r : Node) (p : Pos) (s s' : St)
    (hl : evalNode env f l s = .ok (Bl false) s') :
    evalNode env (f+1) (.cond .and l r p) s = .ok (Bl false) s' := by
  simp [evalNode, bind, EM.bind, hl, Bl, Val.toBool, pure, EM.pure]

/-- with a non-boolean (or non-deciding) left operand the right operand is evaluated and the
    operator rule decides (for `&&`/`||` with a non-bool operand: an error) -/
theorem logic_no_short_circuit (env : Env) (f : Nat) (op : COp) (l r : Node) (p : Pos) (s s' : St) (a : TV)
    (hl : evalNode env f l s = .ok a s') (hnb : a.t ≠ .bool) :
    evalNode env (f+1) (.cond op l r p) s =
      (do let b ← evalNode env f r
          let st ← getS
          match condOp st.world.heap op a b with
          | .ok v => pure v
          | .error m => runErr p m) s' := by
  simp [evalNode, bind, EM.bind, hl, hnb]
  rfl

/-- compound assignment `x op= e` applies the same operator function as `x op e` -/
theorem compound_assign_same_rules (env : Env) (f : Nat) (op : AsOp) (aop : AOp) (hop : op.arith = some aop)
    (name : Bytes) (np : Pos) (e : Node) (p : Pos) (s s' : St) (rv lv : TV)
    (he : evalNode env f e s = .ok rv s') (hk : getKey s' name = some lv) :
    evalAssign env (f+1) op [.ident name np] [e] p s =
      (match arith aop lv rv with
       | .ok v => (do setVarb name v; pure v) s'
       | .error m => runErr p m s') := by
  simp [evalAssign, bind, EM.bind, he, hop, getS, hk]
  cases arith aop lv rv <;> rfl

/-! non-vacuity: concrete instances, including the 2^53+1 boundary -/
example : condOp [] .eq (I 9007199254740993) (I 9007199254740992) = .ok (Bl false) := by
  rw [eq_int_exact_lit]; rfl
example : arith .add (I 9223372036854775807) (I 1) = .ok (I (-9223372036854775808)) := by
  have := (int_arith_wraps (I 9223372036854775807) (I 1) (.int _) (.int _)).1
  simpa [ival, I, Val.toI64, wrap64] using this
example : arith .div (I (-7)) (I 2) = .ok (I (-3)) := by rfl
example : arith .mod (I (-7)) (I 2) = .ok (I (-1)) := by rfl

end Platypus.C02
