import Platypus.Spec.BindSpec
import Platypus.Proofs.Bind
/-!
# C19 — v2 call arguments bind to the declared parameters or the call is rejected

`paramdef_ok_iff_wf`: `CheckFnParamDef` accepts exactly the well-formed parameter lists.
`binding_exact`: for every well-formed parameter list and every call shape, the call is accepted by
`CheckPassParam` exactly when the declarative `bindSpec` can bind it, and then `GetParam` yields for
every parameter exactly the designated argument / default / variadic tail.
-/
namespace Platypus.C19
open Platypus Platypus.Bind

theorem paramdef_ok_iff_wf (ps : List Param) : checkDef ps = wf ps :=
  checkDef_eq_wf ps

theorem binding_exact (ps : List Param) (hwf : wf ps = true) (args : List Arg) :
    implBind ps args = bindSpec ps args :=
  implBind_eq_bindSpec ps hwf args

/-- the rejections the property lists, as consequences of `binding_exact` -/
theorem rejections (ps : List Param) (hwf : wf ps = true) (args : List Arg) :
    -- more arguments than parameters (no variadic)
    ((∀ p, ps.getLast? = some p → p.variadic = false) → args.length > ps.length → checkPass ps args = none) ∧
    -- an unknown parameter name
    (∀ n e, Arg.named n e ∈ args → findParam ps n = none → checkPass ps args = none) ∧
    -- named arguments together with a variadic parameter
    (∀ p n e, ps.getLast? = some p → p.variadic = true → Arg.named n e ∈ args → checkPass ps args = none) := by
  have _ := hwf  -- not needed: these rejections hold for every parameter list
  refine ⟨?_, ?_, ?_⟩
  · intro h hlen
    exact checkPass_too_many ps args h hlen
  · intro n e hm hf
    exact checkPass_named_reject ps args n e hm (Or.inr hf)
  · intro p n e hl hv hm
    exact checkPass_named_reject ps args n e hm (Or.inl ⟨p, hl, hv⟩)

/-- a rejected call yields no binding at all (the rejections seen through `binding_exact`) -/
theorem rejections_spec (ps : List Param) (hwf : wf ps = true) (args : List Arg)
    (h : checkPass ps args = none) : bindSpec ps args = none := by
  rw [← binding_exact ps hwf args, implBind, h]; rfl

/-! ## Concrete instances (non-vacuity) -/

section Examples

/-- `f(a, b, c = …, d = …)` : two required, two optional -/
private def psPlain : List Param :=
  [⟨[97], false, false⟩, ⟨[98], false, false⟩, ⟨[99], true, false⟩, ⟨[100], true, false⟩]

/-- `g(a, rest...)` : one required, one variadic -/
private def psVar : List Param := [⟨[97], false, false⟩, ⟨[114], false, true⟩]

example : wf psPlain = true ∧ checkDef psPlain = true := by decide
example : wf psVar = true ∧ checkDef psVar = true := by decide

-- optional before required, variadic with a default, variadic not last, duplicate name: not well-formed
example : wf [⟨[99], true, false⟩, ⟨[97], false, false⟩] = false ∧
    checkDef [⟨[99], true, false⟩, ⟨[97], false, false⟩] = false := by decide
example : wf [⟨[114], true, true⟩] = false ∧ checkDef [⟨[114], true, true⟩] = false := by decide
example : wf [⟨[114], false, true⟩, ⟨[97], false, false⟩] = false ∧
    checkDef [⟨[114], false, true⟩, ⟨[97], false, false⟩] = false := by decide
example : wf [⟨[97], false, false⟩, ⟨[97], true, false⟩] = false ∧
    checkDef [⟨[97], false, false⟩, ⟨[97], true, false⟩] = false := by decide

-- `f(10, 11, d = 13)`: by position, by name, and an omitted optional parameter
example : implBind psPlain [.pos 10, .pos 11, .named [100] 13]
    = some [.value 10, .value 11, .default, .value 13] := by decide
example : bindSpec psPlain [.pos 10, .pos 11, .named [100] 13]
    = some [.value 10, .value 11, .default, .value 13] := by decide

-- `f(b = 11, a = 10)`: all by name, in any order
example : implBind psPlain [.named [98] 11, .named [97] 10]
    = some [.value 10, .value 11, .default, .default] := by decide

-- `g(1, 2, 3)`: the variadic parameter receives the tail; `g(1)`: an empty tail
example : implBind psVar [.pos 1, .pos 2, .pos 3] = some [.value 1, .list [2, 3]] := by decide
example : bindSpec psVar [.pos 1, .pos 2, .pos 3] = some [.value 1, .list [2, 3]] := by decide
example : implBind psVar [.pos 1] = some [.value 1, .list []] := by decide

-- rejected: missing required `b`; `a` given twice; unknown name; too many arguments;
-- positional after named; a named argument for a variadic list; too few for a variadic list
example : implBind psPlain [.pos 10] = none ∧ bindSpec psPlain [.pos 10] = none := by decide
example : implBind psPlain [.pos 10, .pos 11, .named [97] 12] = none ∧
    bindSpec psPlain [.pos 10, .pos 11, .named [97] 12] = none := by decide
example : implBind psPlain [.pos 10, .pos 11, .named [122] 12] = none ∧
    bindSpec psPlain [.pos 10, .pos 11, .named [122] 12] = none := by decide
example : implBind psPlain [.pos 1, .pos 2, .pos 3, .pos 4, .pos 5] = none ∧
    bindSpec psPlain [.pos 1, .pos 2, .pos 3, .pos 4, .pos 5] = none := by decide
example : implBind psPlain [.pos 10, .named [98] 11, .pos 12] = none ∧
    bindSpec psPlain [.pos 10, .named [98] 11, .pos 12] = none := by decide
example : implBind psVar [.pos 1, .named [114] 2] = none ∧
    bindSpec psVar [.pos 1, .named [114] 2] = none := by decide
example : implBind psVar [] = none ∧ bindSpec psVar [] = none := by decide

end Examples

end Platypus.C19
