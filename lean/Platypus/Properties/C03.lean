import Platypus.Spec.OutcomeSem
import Platypus.Proofs.Refine
/-!
# C03 — control flow: the flag machine refines the structured outcome semantics

`flags_refine_outcomes`: for every expression evaluator that leaves the break/continue flags alone,
every grammar-shaped statement (conditions, loop clauses and iterables are expressions, as the
parser produces them), every state with clear break/continue flags and every fuel, running the
implementation's flag machine (`runStmt`/`runStmts`/…) and abstracting the flags to an outcome
gives exactly the result of the structured semantics (`Sem.semStmt`/`Sem.semStmts`/…), in which
`break`/`continue` are consumed by the innermost enclosing loop by construction, block scopes
are popped by construction and nothing runs after `exit`.

Proof: `refAll` states the refinement for all seven mutually recursive function pairs at once
(`RefAll`, in terms of the relation `MachineProofs.Rel`) and is proved by induction on the fuel from
the per-function step lemmas of `Platypus/Proofs/Refine.lean`.  Consequences for the machine:
`exit_absorbs_block`, `exit_absorbs_for`, `break_consumed_by_loop`; `Example` is a concrete instance.
-/
namespace Platypus.C03
open Platypus Platypus.Sem

/-- statement nodes (handled by the machine); every other node is an expression -/
def isStmtNode : Node → Bool
  | .ifelse _ _ _ | .forS _ _ _ _ _ | .forIn _ _ _ _ _ | .brk _ | .cont _ => true
  | _ => false

mutual
/-- grammar shape: conditions, for-clauses and iterables are expression nodes (fuel-indexed
    because `Node` is a nested inductive type; `Shaped n := ∀ k, shaped k n`) -/
def shaped : Nat → Node → Bool
  | 0, _ => true
  | k+1, n => match n with
    | .ifelse ifs els _ => shapedIfs k ifs && shapedOB k els
    | .forS ini c l body _ =>
      (match ini with | some i => !isStmtNode i | none => true) &&
      (match c with | some i => !isStmtNode i | none => true) &&
      (match l with | some i => !isStmtNode i | none => true) && shapedOB k body
    | .forIn _ iter body _ _ => !isStmtNode iter && shapedOB k body
    | _ => true
def shapedL : Nat → List Node → Bool
  | 0, _ => true
  | _, [] => true
  | k+1, n :: r => shaped k n && shapedL k r
def shapedOB : Nat → Option (List Node) → Bool
  | 0, _ => true
  | _, none => true
  | k+1, some b => shapedL k b
def shapedIfs : Nat → List (Node × Option (List Node) × Pos) → Bool
  | 0, _ => true
  | _, [] => true
  | k+1, (c, b, _) :: r => !isStmtNode c && shapedOB k b && shapedIfs k r
end

def Shaped (n : Node) : Prop := ∀ k, shaped k n = true
def ShapedL (ns : List Node) : Prop := ∀ k, shapedL k ns = true

/-- the expression evaluator never touches the break/continue flags -/
def EvFrame (ev : Node → EM TV) : Prop :=
  ∀ e s, match ev e s with
    | .ok _ s' => s'.task.brk = s.task.brk ∧ s'.task.cont = s.task.cont
    | .err _ s' => s'.task.brk = s.task.brk ∧ s'.task.cont = s.task.cont
    | _ => True

/-- no break/continue pending -/
def Clear (s : St) : Prop := s.task.brk = false ∧ s.task.cont = false

/-- the state of a result never has both flags pending -/
def FlagsOk {α} : Res α → Prop
  | .ok _ s => ¬ (s.task.brk = true ∧ s.task.cont = true)
  | .err _ s => ¬ (s.task.brk = true ∧ s.task.cont = true)
  | _ => True

/-! ### shape inversion -/

def ShapedOB (b : Option (List Node)) : Prop := ∀ k, shapedOB k b = true
def ShapedIfs (ifs : List (Node × Option (List Node) × Pos)) : Prop := ∀ k, shapedIfs k ifs = true
/-- an optional for-clause is an expression node -/
def ExprO (c : Option Node) : Prop := ∀ cn, c = some cn → isStmtNode cn = false

theorem Shaped.ifelse {ifs els p} (h : Shaped (.ifelse ifs els p)) : ShapedIfs ifs ∧ ShapedOB els := by
  refine ⟨fun k => ?_, fun k => ?_⟩ <;> have := h (k+1) <;> simp [shaped] at this <;> simp [this]

theorem Shaped.forS {ini c l body p} (h : Shaped (.forS ini c l body p)) :
    ExprO ini ∧ ExprO c ∧ ExprO l ∧ ShapedOB body := by
  refine ⟨?_, ?_, ?_, fun k => ?_⟩
  · intro i hi; subst hi; have := h 1; simp [shaped] at this; simp [this]
  · intro i hi; subst hi; have := h 1; simp [shaped] at this; simp [this]
  · intro i hi; subst hi; have := h 1; simp [shaped] at this; simp [this]
  · have := h (k+1); simp [shaped] at this; simp [this]

theorem Shaped.forIn {v iter body p1 p2} (h : Shaped (.forIn v iter body p1 p2)) :
    isStmtNode iter = false ∧ ShapedOB body := by
  refine ⟨?_, fun k => ?_⟩
  · have := h 1; simp [shaped] at this; simp [this]
  · have := h (k+1); simp [shaped] at this; simp [this]

theorem ShapedL.cons {n r} (h : ShapedL (n :: r)) : Shaped n ∧ ShapedL r := by
  refine ⟨fun k => ?_, fun k => ?_⟩ <;> have := h (k+1) <;> simp [shapedL] at this <;> simp [this]

theorem ShapedOB.some {b} (h : ShapedOB (some b)) : ShapedL b := by
  intro k; have := h (k+1); simpa [shapedOB] using this

theorem ShapedIfs.cons {c b p r} (h : ShapedIfs ((c, b, p) :: r)) :
    isStmtNode c = false ∧ ShapedOB b ∧ ShapedIfs r := by
  refine ⟨?_, fun k => ?_, fun k => ?_⟩
  · have := h 1; simp [shapedIfs] at this; simp [this]
  · have := h (k+1); simp [shapedIfs] at this; simp [this]
  · have := h (k+1); simp [shapedIfs] at this; simp [this]

/-! ### expression nodes are the evaluator's -/

theorem runStmt_of_expr (env : Env) (ev : Node → EM TV) {e : Node} (h : isStmtNode e = false) (k : Nat) :
    runStmt env ev (k+1) e = ev e := by
  cases e <;> simp [isStmtNode] at h <;> simp only [runStmt]

theorem runStmt_eq_evF (env : Env) (ev : Node → EM TV) {e : Node} (h : isStmtNode e = false) (k : Nat) :
    runStmt env ev k e = evF ev k e := by
  cases k with
  | zero => simp only [runStmt, evF]
  | succ k => rw [runStmt_of_expr env ev h]; rfl

theorem semStmt_of_expr (env : Env) (ev : Node → EM TV) {e : Node} (h : isStmtNode e = false) (k : Nat) :
    semStmt env ev (k+1) e = (do let v ← ev e; let s ← getS; pure (v, outOfExit s)) := by
  cases e <;> simp [isStmtNode] at h <;> simp only [semStmt]

open Platypus.MachineProofs

theorem EvFrame.frame {ev : Node → EM TV} (h : EvFrame ev) : Frame ev := by
  intro e s
  have := h e s
  show PresBC s (ev e s)
  generalize ev e s = r at this ⊢
  cases r <;> exact this

/-- all seven functions of the machine refine their counterparts, at every fuel -/
def RefAll (env : Env) (ev : Node → EM TV) (f : Nat) : Prop :=
  (∀ n, Shaped n → Rel Prod.mk PNB (semStmt env ev f n) (runStmt env ev f n)) ∧
  (∀ ns, ShapedL ns → Rel (fun _ o => o) PNB (semStmts env ev f ns) (runStmts env ev f ns)) ∧
  (∀ ifs els, ShapedIfs ifs → ShapedOB els →
    Rel Prod.mk PNB (semIfs env ev f ifs els) (runIfs env ev f ifs els)) ∧
  (∀ c l body, ExprO c → ExprO l → ShapedOB body →
    Rel (fun _ o => o) PVoid (semFor env ev f c l body) (forLoop env ev f c l body)) ∧
  (∀ var it pos body, ShapedOB body →
    Rel Prod.mk PClr (semForIn env ev f var it pos body) (Platypus.forIn env ev f var it pos body)) ∧
  (∀ var rs body, ShapedOB body →
    Rel Prod.mk PClr (semForInStr env ev f var rs body) (forInStr env ev f var rs body)) ∧
  (∀ var pos items live body, ShapedOB body →
    Rel Prod.mk PClr (semForInItems env ev f var pos items live body)
      (forInItems env ev f var pos items live body))

theorem refAll (env : Env) (ev : Node → EM TV) (hev : Frame ev) : ∀ f, RefAll env ev f := by
  intro f
  induction f with
  | zero =>
    refine ⟨?_, ?_, ?_, ?_, ?_, ?_, ?_⟩
    · intro n _; simp only [runStmt, semStmt]; exact Rel.fuel
    · intro ns _; simp only [runStmts, semStmts]; exact Rel.fuel
    · intro ifs els _ _; simp only [runIfs, semIfs]; exact Rel.fuel
    · intro c l body _ _ _; simp only [forLoop, semFor]; exact Rel.fuel
    · intro var it pos body _; simp only [Platypus.forIn, semForIn]; exact Rel.fuel
    · intro var rs body _; simp only [forInStr, semForInStr]; exact Rel.fuel
    · intro var pos items live body _; simp only [forInItems, semForInItems]; exact Rel.fuel
  | succ f ih =>
    obtain ⟨ih1, ih2, ih3, ih4, ih5, ih6, ih7⟩ := ih
    have hblk : ∀ body, ShapedOB body → ∀ b, body = some b →
        Rel (fun _ o => o) PNB (semStmts env ev f b) (runStmts env ev f b) := by
      intro body hb b e; subst e; exact ih2 b hb.some
    refine ⟨?_, ?_, ?_, ?_, ?_, ?_, ?_⟩
    · intro n hn
      cases n
      case ifelse ifs els p =>
        exact runStmt_ifelse env ev f ifs els p (ih3 ifs els hn.ifelse.1 hn.ifelse.2)
      case forS ini c l body p =>
        obtain ⟨h1, h2, h3, h4⟩ := hn.forS
        exact runStmt_forS env ev hev f ini c l body p
          (fun i hi => runStmt_eq_evF env ev (h1 i hi) f) (ih4 c l body h2 h3 h4)
      case forIn var iter body p1 p2 =>
        obtain ⟨h1, h2⟩ := hn.forIn
        exact runStmt_forIn env ev hev f var iter body p1 p2 (runStmt_eq_evF env ev h1 f)
          (fun it => ih5 var it _ body h2)
      case brk p => exact runStmt_brk env ev f p
      case cont p => exact runStmt_cont env ev f p
      all_goals
        exact runStmt_expr env ev hev f _ (runStmt_of_expr env ev rfl f) (semStmt_of_expr env ev rfl f)
    · intro ns hns
      cases ns with
      | nil => exact runStmts_nil env ev f
      | cons n rest => exact runStmts_cons env ev f n rest (ih1 n hns.cons.1) (ih2 rest hns.cons.2)
    · intro ifs els hifs hels
      cases ifs with
      | nil => exact runIfs_nil env ev f els (hblk els hels)
      | cons x rest =>
        obtain ⟨c, blk, p⟩ := x
        obtain ⟨h1, h2, h3⟩ := hifs.cons
        exact runIfs_cons env ev hev f c blk p rest els (runStmt_eq_evF env ev h1 f) (hblk blk h2)
          (ih3 rest els h3 hels)
    · intro c l body hc hl hb
      exact forLoop_step env ev hev f c l body
        (fun cn e => runStmt_eq_evF env ev (hc cn e) f)
        (fun ln e => runStmt_eq_evF env ev (hl ln e) f) (hblk body hb) (ih4 c l body hc hl hb)
    · intro var it pos body hb
      exact forIn_step env ev f var it pos body (fun rs => ih6 var rs body hb)
        (fun items live => ih7 var pos items live body hb)
    · intro var rs body hb
      cases rs with
      | nil => exact forInStr_nil env ev f var body
      | cons r rest => exact forInStr_cons env ev f var r rest body (hblk body hb) (ih6 var rest body hb)
    · intro var pos items live body hb
      exact forInItems_step env ev f var pos body (hblk body hb)
        (fun items live => ih7 var pos items live body hb) items live

theorem Post.flagsOk {α} {r : Res α} (h : Post PNB r) : FlagsOk r := by
  cases r with
  | ok a s => exact h
  | err e s =>
    have h' : Clr s := h
    show ¬ (s.task.brk = true ∧ s.task.cont = true)
    rw [h'.1]; simp
  | panic m => exact True.intro
  | fuel => exact True.intro
  | need q => exact True.intro

/-- **the refinement theorem** (statement level and block level) -/
theorem flags_refine_outcomes (env : Env) (ev : Node → EM TV) (hev : EvFrame ev) (f : Nat) :
    (∀ n s, Shaped n → Clear s →
        semStmt env ev f n s = absR (runStmt env ev f n s) ∧ FlagsOk (runStmt env ev f n s)) ∧
    (∀ ns s, ShapedL ns → Clear s →
        semStmts env ev f ns s = absU (runStmts env ev f ns s) ∧ FlagsOk (runStmts env ev f ns s)) := by
  have h := refAll env ev hev.frame f
  refine ⟨fun n s hn hs => ?_, fun ns s hns hs => ?_⟩
  · obtain ⟨h1, h2⟩ := h.1 n hn s hs
    rw [absR_eq]
    exact ⟨h1, Post.flagsOk h2⟩
  · obtain ⟨h1, h2⟩ := h.2.1 ns hns s hs
    rw [absU_eq]
    exact ⟨h1, Post.flagsOk h2⟩

/-! ### consequences for the machine -/

/-- once `exit` is set, a block starts no further statement (and does not poll the signal either):
    it returns at once, leaving the state untouched -/
theorem exit_absorbs_block (env : Env) (ev : Node → EM TV) (f : Nat) (ns : List Node) (s : St)
    (h : s.task.exit = true) : runStmts env ev (f+1) ns s = .ok () s := by
  rw [runStmts_pending env ev f ns s (Or.inr (Or.inr h))]
  cases ns with
  | nil => rfl
  | cons n r => simp only [pollSt_of_exit env s h]

/-- once `exit` is set, a `for` loop runs no iteration: neither condition nor body nor poll -/
theorem exit_absorbs_for (env : Env) (ev : Node → EM TV) (f : Nat) (c l : Option Node)
    (body : Option (List Node)) (s : St) (h : s.task.exit = true) :
    forLoop env ev (f+1) c l body s = .ok voidTV s := by
  simp only [forLoop, bind_apply, procExit_apply, pollB_of_exit env s h, pollSt_of_exit env s h,
    rbind_ok, if_true, pure_apply]

/-- the result state (of a success or an error) has neither break nor continue pending -/
def BCClear {α} : Res α → Prop
  | .ok _ s => s.task.brk = false ∧ s.task.cont = false
  | .err _ s => s.task.brk = false ∧ s.task.cont = false
  | _ => True

theorem Post.bcClear {α} {P : α → St → Prop} {r : Res α} (hP : ∀ a s, P a s → Clr s) (h : Post P r) :
    BCClear r := by
  cases r with
  | ok a s => exact hP a s h
  | err e s => exact h
  | panic m => exact True.intro
  | fuel => exact True.intro
  | need q => exact True.intro

/-- break/continue never escape the innermost enclosing loop: whatever the (shaped) body does, all
    three kinds of loop end with both flags clear — also when they end with an error -/
theorem break_consumed_by_loop (env : Env) (ev : Node → EM TV) (hev : EvFrame ev) (f : Nat)
    (body : Option (List Node)) (hb : ShapedOB body) (s : St) (hs : Clear s) :
    (∀ c l, ExprO c → ExprO l → BCClear (forLoop env ev f c l body s)) ∧
    (∀ var rs, BCClear (forInStr env ev f var rs body s)) ∧
    (∀ var pos items live, BCClear (forInItems env ev f var pos items live body s)) := by
  obtain ⟨-, -, -, h4, -, h6, h7⟩ := refAll env ev hev.frame f
  refine ⟨fun c l hc hl => ?_, fun var rs => ?_, fun var pos items live => ?_⟩
  · exact Post.bcClear (fun _ _ h => h.2) (h4 c l body hc hl hb s hs).2
  · exact Post.bcClear (fun _ _ h => h) (h6 var rs body hb s hs).2
  · exact Post.bcClear (fun _ _ h => h) (h7 var pos items live body hb s hs).2

/-! ### non-vacuity: a concrete evaluator, a concrete shaped program, both sides evaluated -/

namespace Example
/-- an evaluator that does nothing -/
def ev0 : Node → EM TV := fun _ => pure voidTV
def env0 : Env :=
  { bound := fun _ => none, fns := [], sigK := none, hasSignal := false, mapOrder := fun _ => 0, oracle := fun _ => none }
/-- `for ; ; { x; break; x }` followed by nothing -/
def prog : Node :=
  .forS none none none (some [.nilLit Pos.invalid, .brk Pos.invalid, .nilLit Pos.invalid]) Pos.invalid
def s0 : St := { task := { name := [], scopes := [[]] }, world := {} }

theorem ev0_frame : EvFrame ev0 := fun _ _ => ⟨rfl, rfl⟩
theorem shaped_nilLit (k : Nat) (p : Pos) : shaped k (.nilLit p) = true := by cases k <;> simp [shaped]
theorem shapedL_nil (k : Nat) : shapedL k [] = true := by cases k <;> simp [shapedL]
theorem prog_shaped : Shaped prog := by
  intro k
  rcases k with _ | _ | _ | _ | _ | k <;>
    simp [prog, shaped, shapedOB, shapedL, shaped_nilLit, shapedL_nil]
theorem s0_clear : Clear s0 := ⟨rfl, rfl⟩

/-- the machine: the `break` is consumed by the loop, the scopes are popped, the result is the start state -/
example : runStmt env0 ev0 6 prog s0 = .ok voidTV s0 := by rfl
/-- the outcome semantics: the loop ends normally -/
example : semStmt env0 ev0 6 prog s0 = .ok (voidTV, .normal) s0 := by rfl
/-- inside the loop the block ends with a pending break (flag set in the machine, outcome `brk` in the semantics) -/
example : (match runStmts env0 ev0 6 [.nilLit Pos.invalid, .brk Pos.invalid, .nilLit Pos.invalid] s0 with
    | .ok _ s => s.task.brk | _ => false) = true := by rfl
example : (match semStmts env0 ev0 6 [.nilLit Pos.invalid, .brk Pos.invalid, .nilLit Pos.invalid] s0 with
    | .ok o s => decide (o = .brk) && !s.task.brk | _ => false) = true := by rfl
/-- the theorem applies to this instance -/
example : semStmt env0 ev0 6 prog s0 = absR (runStmt env0 ev0 6 prog s0) :=
  ((flags_refine_outcomes env0 ev0 ev0_frame 6).1 prog s0 prog_shaped s0_clear).1
end Example

end Platypus.C03
