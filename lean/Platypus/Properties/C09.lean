import Platypus.Model.Link
import Platypus.Proofs.Link
/-!
# C09 — use() linking accepts exactly the acyclic, fully resolvable script sets

`Good` is the declarative specification: the least fixed point of "the script parsed and checked,
and every script it uses is good" — missing, unparsable, check-failing and cycle-reaching scripts
have no derivation.  `accept_iff_good`: for every script set and **every visiting order** that
covers the checked scripts, the linker's accepted set is exactly the good scripts.
`order_independent`: accepted set and every root's error are the same for any two orders.
-/
namespace Platypus.C09
open Platypus Platypus.Link

inductive Good (all : Scripts) : Bytes → Prop
  | mk (n : Bytes) (uses : List Use) :
      alookup n all = some (.ok uses) → (∀ u ∈ uses, Good all u.callee) → Good all n

/-- the script parsed and passed the check pass -/
def Checked (all : Scripts) (n : Bytes) : Prop := ∃ uses, alookup n all = some (.ok uses)

/-- the loader visits every checked script (it ranges over the map of checked scripts) -/
def Covers (all : Scripts) (order : List Bytes) : Prop := ∀ n, Checked all n → n ∈ order

/-- `Good` is the predicate the helper theory (Platypus/Proofs/Link.lean) calls `GoodP` -/
theorem good_iff (all : Scripts) (n : Bytes) : Good all n ↔ GoodP all n := by
  constructor
  · intro h
    induction h with
    | mk n uses hl _ ih => exact GoodP.mk n uses hl ih
  · intro h
    induction h with
    | mk n uses hl _ ih => exact Good.mk n uses hl ih

theorem accept_iff_good (all : Scripts) (order : List Bytes) (hc : Covers all order) (n : Bytes) :
    n ∈ (link all order).accepted ↔ Good all n := by
  rw [good_iff]
  exact link_accept_iff all order hc n

/-- the error reported for a root is the error of its search from the empty memo (`Link.canon`),
    whatever the order — the fact behind `order_independent` (no `Nodup` needed) -/
theorem error_iff_canon (all : Scripts) (order : List Bytes) (hc : Covers all order) (n : Bytes) (e : PlErr) :
    (n, e) ∈ (link all order).errors ↔
      ∃ uses s', alookup n all = some (.ok uses) ∧ canon all n uses = .error (e, s') :=
  link_errors_iff all order hc n e

/-- the verdict — accepted set, and the error reported for every rejected checked script — does not
    depend on the visiting order (Go's map iteration order) -/
theorem order_independent (all : Scripts) (o1 o2 : List Bytes) (h1 : Covers all o1) (h2 : Covers all o2)
    (hn1 : o1.Nodup) (hn2 : o2.Nodup) :
    (∀ n, n ∈ (link all o1).accepted ↔ n ∈ (link all o2).accepted) ∧
    (∀ n e, (n, e) ∈ (link all o1).errors ↔ (n, e) ∈ (link all o2).errors) := by
  have _ := hn1
  have _ := hn2
  refine ⟨fun n => ?_, fun n e => ?_⟩
  · rw [accept_iff_good all o1 h1, accept_iff_good all o2 h2]
  · rw [error_iff_canon all o1 h1, error_iff_canon all o2 h2]

/-- a rejected checked script is reported (with some error), an accepted one is not -/
theorem rejected_iff_error (all : Scripts) (order : List Bytes) (hc : Covers all order) (hn : order.Nodup) (n : Bytes)
    (hch : Checked all n) :
    (∃ e, (n, e) ∈ (link all order).errors) ↔ ¬ Good all n := by
  have _ := hn
  rw [good_iff]
  exact link_rejected_iff all order hc n hch

/-- every use() call of an accepted script is bound to the script of that name -/
theorem bound_to_named_script (all : Scripts) (order : List Bytes) (hc : Covers all order) (n : Bytes) (uses : List Use)
    (hn : alookup n all = some (.ok uses)) (hg : Good all n) :
    ∀ u ∈ uses, (u.site, u.callee) ∈ (link all order).bind :=
  link_bound all order hc n uses hn ((good_iff all n).1 hg)

/-- using the same script twice, or reaching it along two paths (diamond), is not a cycle -/
theorem twice_and_diamond_ok :
    let u (c : String) (site : Nat) : Use := ⟨bytesOf c, ⟨0, 1, 1⟩, site⟩
    let double : Scripts := [(bytesOf "a", .ok [u "b" 1, u "b" 2, u "b" 3]), (bytesOf "b", .ok [])]
    let diamond : Scripts := [(bytesOf "a", .ok [u "b" 1, u "c" 2]), (bytesOf "b", .ok [u "d" 3]),
                               (bytesOf "c", .ok [u "d" 4]), (bytesOf "d", .ok [])]
    Good double (bytesOf "a") ∧ Good diamond (bytesOf "a") := by
  intro u double diamond
  constructor
  · have hb : Good double (bytesOf "b") :=
      Good.mk _ [] (by simp [double, alookup, bytesOf_a, bytesOf_b]) (by simp)
    refine Good.mk _ [u "b" 1, u "b" 2, u "b" 3] (by simp [double, alookup]) ?_
    intro x hx
    simp only [List.mem_cons, List.not_mem_nil, or_false] at hx
    rcases hx with rfl | rfl | rfl <;> exact hb
  · have hd : Good diamond (bytesOf "d") :=
      Good.mk _ [] (by simp [diamond, alookup, bytesOf_a, bytesOf_b, bytesOf_c, bytesOf_d]) (by simp)
    have hb : Good diamond (bytesOf "b") := by
      refine Good.mk _ [u "d" 3] (by simp [diamond, alookup, bytesOf_a, bytesOf_b]) ?_
      intro x hx
      simp only [List.mem_cons, List.not_mem_nil, or_false] at hx
      subst hx; exact hd
    have hc : Good diamond (bytesOf "c") := by
      refine Good.mk _ [u "d" 4] (by simp [diamond, alookup, bytesOf_a, bytesOf_b, bytesOf_c]) ?_
      intro x hx
      simp only [List.mem_cons, List.not_mem_nil, or_false] at hx
      subst hx; exact hd
    refine Good.mk _ [u "b" 1, u "c" 2] (by simp [diamond, alookup]) ?_
    intro x hx
    simp only [List.mem_cons, List.not_mem_nil, or_false] at hx
    rcases hx with rfl | rfl
    · exact hb
    · exact hc

end Platypus.C09
