import Platypus.Proofs.Extract
import Platypus.Proofs.Check
import Platypus.Properties.C11
import Platypus.Properties.C08
/-!
# C12 — extraction builtins store exactly what their pattern engine extracts

Part A (load time, `Model/Check.lean`): `add_pattern` definitions live in the block scope that
declares them and are visible in nested blocks; a `grok` call is compiled with exactly the visible
definitions; a pattern the engine rejects is a load-time error.

Part B (run time, `Model/Eval.lean`): contracts of `grok`, `xml`, `sql_cover`, `datetime`,
`default_time`, `add_pattern` as equations about `builtin env (f+1) fn …`.  The third-party
engines are oracles (`env.oracle`); every contract says which question is put to the engine
(`grokQuery`, `xmlQuery`, `sqlQuery`, `dateQuery`, `timeQuery`) and what is done with its answer.
`builtin`'s local helpers are restated in `Proofs/Extract.lean`: `setPt` (store under the
normalised key through `Point.set`), `retSt` (append to the return registers), `withPt` (replace
the point, keep everything else), `putAll`/`storeFields` (store the captures in key order).

Part 9: concrete runs (`example_*`).
-/
namespace Platypus.C12
open Platypus

/-! ## A. pattern scoping at load time -/

section loadtime
variable (oracle : Bytes → Option Bytes) (file : Bytes) (registered : Bytes → Bool)

/-- A.1. Checking one statement (or expression) node with the builtin checker table changes the
    stack of pattern scopes `pats` (innermost first) only by *adding definitions to the innermost
    scope*: every outer scope is untouched (`tail`), the innermost scope afterwards is the old one
    with `added` in front (`innermost` reads the head, `[]` for an empty stack), and the
    definitions visible afterwards are the old ones followed by the new ones in declaration
    order.  A block-structured node — `if/elif/else`, `for(;;)`, `for in` — restores the stack
    *exactly*: whatever `add_pattern` declared inside its blocks is gone after it.
    Holds for every state `s` (also an empty stack), every fuel, every oracle. -/
theorem block_restores_patterns (f : Nat) (n : Node) (s s' : CheckSt)
    (h : checkNode file registered (fun c => some (builtinCheck oracle file c)) f n s = .ok () s') :
    s'.pats.tail = s.pats.tail ∧
    (∃ added, innermost s' = added ++ innermost s ∧ visiblePats s' = visiblePats s ++ added.reverse) ∧
    (s.pats ≠ [] → s'.pats ≠ []) ∧
    (isBlock n = true → s'.pats = s.pats) := by
  have g := grows_node (builtinCheck_patsInv oracle file) h
  exact ⟨g.outer, g.visible, g.nonempty, fun hb => block_restores (builtinCheck_patsInv oracle file) hb h⟩

/-- A.1, for an arbitrary checker table: it suffices that every checker changes `pats` only by
    declaring into the innermost scope (`PatsInv`; `builtinCheck_patsInv` proves it for the
    builtin table). -/
theorem block_restores_patterns_generic (fcheck : CallInfo → Option (CM Unit)) (H : PatsInv fcheck)
    (f : Nat) (n : Node) (s s' : CheckSt)
    (h : checkNode file registered fcheck f n s = .ok () s') :
    Grows s s' ∧ (isBlock n = true → s'.pats = s.pats) :=
  ⟨grows_node H h, fun hb => block_restores H hb h⟩

/-- A.1, for a statement list (a block body or the whole script): same invariant, so the stack a
    script is checked with (`[[]]` in `checkScript`) keeps its depth and only its single scope grows -/
theorem statements_only_grow_innermost (f : Nat) (stmts : List Node) (s s' : CheckSt)
    (h : checkNodes file registered (fun c => some (builtinCheck oracle file c)) f stmts s = .ok () s') :
    s'.pats.tail = s.pats.tail ∧
    (∃ added, innermost s' = added ++ innermost s ∧ visiblePats s' = visiblePats s ++ added.reverse) ∧
    (s.pats ≠ [] → s'.pats ≠ []) := by
  have g := grows_nodes (builtinCheck_patsInv oracle file) h
  exact ⟨g.outer, g.visible, g.nonempty⟩

/-- A.2. Entering a block (`cPush`) does not change the visible definitions: everything declared
    in the enclosing blocks is visible in the nested block.  A definition declared by
    `add_pattern` (the delta `.addPat`) is visible from then on, after all older ones.  Leaving a
    block (`cPop`) removes exactly the definitions of the innermost scope. -/
theorem nested_blocks_see_outer_patterns (s : CheckSt) (alias pat : Bytes) :
    (∀ s1, cPush s = .ok () s1 → visiblePats s1 = visiblePats s) ∧
    visiblePats (Delta.apply s (.addPat alias pat)) = visiblePats s ++ [(alias, pat)] ∧
    (alias, pat) ∈ visiblePats (Delta.apply s (.addPat alias pat)) ∧
    (∀ s1, cPop s = .ok () s1 → visiblePats s = visiblePats s1 ++ (innermost s).reverse) := by
  have h2 : visiblePats (Delta.apply s (.addPat alias pat)) = visiblePats s ++ [(alias, pat)] := by
    unfold visiblePats Delta.apply
    cases s.pats <;> simp
  refine ⟨?_, h2, by rw [h2]; simp, ?_⟩
  · intro s1 h
    simp [cPush, cMod] at h
    subst h
    simp [visiblePats]
  · intro s1 h
    simp [cPop, cMod] at h
    subst h
    rw [visiblePats_eq s]
    rfl

/-- A.3. When the check pass accepts a `grok` call in state `s`, the call has the shape
    `grok(key, "pattern"[, bool])`, the pattern engine accepted the compile question built from
    exactly the definitions visible at the call (`visiblePats s`) and the literal pattern, and the
    pass records for that call site exactly that pair (`siteQuery`), which is what the run-time
    engine question `grokQuery` of part B starts with (`env.grok site`). -/
theorem grok_compiles_with_visible_patterns (c : CallInfo) (s : CheckSt) (d : Delta)
    (hfn : Fn.ofName c.name = some .grok) (h : builtinCheckD oracle file c s = .ok d) :
    ∃ kn pat p rest tr a,
      c.args = kn :: .strLit pat p :: rest ∧ keyNameOk kn = true ∧ trimFlag rest = some tr ∧
      oracle (B "grokcompile:" ++ siteQuery (visiblePats s) pat) = some a ∧ (splitAnswer a).1 = true ∧
      d = .addGrok c.site (siteQuery (visiblePats s) pat) ∧
      (d.apply s).grok = (c.site, siteQuery (visiblePats s) pat) :: s.grok ∧
      (d.apply s).pats = s.pats := by
  obtain ⟨kn, pat, p, rest, tr, ha, hkn, ht⟩ := grok_check_shape oracle file c s d hfn h
  obtain ⟨name, args, np, site⟩ := c
  simp only at ha hfn
  subst ha
  rw [grok_check_eq oracle file name kn pat p rest np site s tr hfn hkn ht] at h
  cases ho : oracle (B "grokcompile:" ++ siteQuery (visiblePats s) pat) with
  | none => simp [ho] at h
  | some a =>
    simp only [ho] at h
    cases hs : (splitAnswer a).1
    · simp [hs] at h
    · simp [hs] at h
      subst h
      exact ⟨kn, pat, p, rest, tr, a, rfl, hkn, ht, ho, hs, rfl, rfl, rfl⟩

/-- A.3. An unknown pattern name is rejected at load time: if the pattern engine's answer to the
    compile question (visible definitions + pattern) is not `ok`, the checker of the grok call
    returns an error (class "pattern", at the call's position), and so does the check of the
    call node (with the call position appended to the chain) once the arguments have passed. -/
theorem unknown_pattern_rejected (name : Bytes) (kn : Node) (pat : Bytes) (p : Pos)
    (rest : List Node) (np : Pos) (site : Nat) (s : CheckSt) (tr : Bool) (a : Bytes)
    (hfn : Fn.ofName name = some .grok) (hkn : keyNameOk kn = true) (ht : trimFlag rest = some tr)
    (ha : oracle (B "grokcompile:" ++ siteQuery (visiblePats s) pat) = some a)
    (hno : (splitAnswer a).1 = false) :
    builtinCheckD oracle file ⟨name, kn :: .strLit pat p :: rest, np, site⟩ s = .err (PlErr.new file np "pattern") ∧
    builtinCheck oracle file ⟨name, kn :: .strLit pat p :: rest, np, site⟩ s = .err (PlErr.new file np "pattern") := by
  have e := grok_check_eq oracle file name kn pat p rest np site s tr hfn hkn ht
  simp only [ha, hno] at e
  exact ⟨e, by simp [builtinCheck, e]⟩

/-- A.3, the same for `add_pattern`: a definition that refers to an unknown pattern name (the
    engine cannot denormalise it over the visible definitions) is rejected at load time; an
    accepted one is declared in the innermost scope. -/
theorem add_pattern_checked_against_visible (name alias pat : Bytes) (p1 p2 np : Pos) (site : Nat) (s : CheckSt)
    (a : Bytes) (hfn : Fn.ofName name = some .addPattern)
    (ha : oracle (B "grokdenorm:" ++ siteQuery (visiblePats s) pat) = some a) :
    builtinCheckD oracle file ⟨name, [.strLit alias p1, .strLit pat p2], np, site⟩ s =
      if (splitAnswer a).1 then .ok (.addPat alias pat) else .err (PlErr.new file np "pattern") := by
  rw [addPattern_check_eq oracle file name alias pat p1 p2 np site s hfn, ha]

/-- A.3, script level: if a script contains (anywhere) a well-shaped grok call whose pattern the
    engine accepts under *no* set of definitions, the check pass does not accept the script,
    whatever the fuel and the initial state.  (Contrapositive of C08's soundness for calls.) -/
theorem unknown_pattern_rejects_script (fns : List Bytes) (fuel : Nat) (stmts : List Node) (st : CheckSt)
    (k : Nat) (name : Bytes) (kn : Node) (pat : Bytes) (p : Pos) (rest : List Node) (np : Pos) (site : Nat) (tr : Bool)
    (hc : ⟨name, kn :: .strLit pat p :: rest, np, site⟩ ∈ C08.allCallsL k stmts)
    (hfn : Fn.ofName name = some .grok) (hkn : keyNameOk kn = true) (ht : trimFlag rest = some tr)
    (hbad : ∀ defs a, oracle (B "grokcompile:" ++ siteQuery defs pat) = some a → (splitAnswer a).1 = false) :
    ∀ st', checkNodes file (fun n => fns.contains n) (fun c => some (builtinCheck oracle file c)) fuel stmts st ≠ .ok () st' := by
  intro st' h
  obtain ⟨_, chk, s, s', hchk, hok⟩ := C08.check_sound_calls file _ _ fuel stmts st st' h k _ hc
  have : chk = builtinCheck oracle file ⟨name, kn :: .strLit pat p :: rest, np, site⟩ := (Option.some.inj hchk).symm
  subst this
  unfold builtinCheck at hok
  rw [grok_check_eq oracle file name kn pat p rest np site s tr hfn hkn ht] at hok
  cases ho : oracle (B "grokcompile:" ++ siteQuery (visiblePats s) pat) with
  | none => simp [ho] at hok
  | some a => simp [ho, hbad _ a ho] at hok

end loadtime

section runtime
variable (env : Env)

/-! ## B. run-time contracts -/

/-- 8. `add_pattern` does nothing at run time (whatever its arguments): its whole effect is at
    load time (part A). -/
theorem add_pattern_runtime_noop (f : Nat) (name : Bytes) (args : List Node) (np : Pos) (site : Nat) (s : St) :
    builtin env (f+1) .addPattern name args np site s = .ok () s := by
  simp [builtin, pure, EM.pure]

/-! ### grok -/

/-- 4(a). grok on an absent subject (neither a variable nor a point key) returns `false`
    (`retSt` appends `⟨false, bool⟩` to the return registers) and changes nothing else: point,
    heap, trace, polls and variables are those of `s`.  Holds for every pattern argument and every
    third argument (the flag is not even looked at), for every key-name node `kn`
    (`getKeyName kn = .ok k`: identifier, string literal or attribute). The hypothesis `hq` says
    that the load-time pass compiled this call site (A.3); without it the call is a run error. -/
theorem grok_subject_absent (f : Nat) (name : Bytes) (kn pat : Node) (rest : List Node) (k q : Bytes)
    (np : Pos) (site : Nat) (s : St)
    (hq : env.grok site = some q) (hk : getKeyName kn = .ok k) (hv : getKey s k = none) :
    builtin env (f+1) .grok name (kn :: pat :: rest) np site s = .ok () (retSt ⟨.bool false, .bool⟩ s) := by
  simp [builtin, hq, hk, hv, bind, EM.bind, getS, pure, EM.pure, modTask, modifyS, retSt]

/-- 4(a'). the same when the subject has no string form (`Conv2String` fails: a value tagged
    void/invalid, or a list/map the JSON engine rejects) -/
theorem grok_subject_no_text (f : Nat) (name : Bytes) (kn pat : Node) (rest : List Node) (k q : Bytes)
    (np : Pos) (site : Nat) (s : St) (v : TV)
    (hq : env.grok site = some q) (hk : getKeyName kn = .ok k) (hv : getKey s k = some v)
    (hc : conv2str env v s = .ok none s) :
    builtin env (f+1) .grok name (kn :: pat :: rest) np site s = .ok () (retSt ⟨.bool false, .bool⟩ s) := by
  simp [builtin, hq, hk, hv, hc, bind, EM.bind, getS, modTask, modifyS, retSt]

/-- 4(b). the engine says "no match" (or fails): grok returns `false` and changes nothing else.
    The engine is asked `grokQuery q tr val`: the site compiled at load time, the trim_space flag
    `tr` (`trimFlag rest`: absent third argument = true, a bool literal = its value) and the
    string form `val` of the subject (`hc`; `Conv2String` may itself consult the float/JSON
    engine, it never changes the state — `conv2str_state`). -/
theorem grok_no_match (f : Nat) (name : Bytes) (kn pat : Node) (rest : List Node) (k q : Bytes) (tr : Bool)
    (np : Pos) (site : Nat) (s : St) (v : TV) (val a x : Bytes)
    (hq : env.grok site = some q) (hk : getKeyName kn = .ok k) (ht : trimFlag rest = some tr)
    (hv : getKey s k = some v) (hc : conv2str env v s = .ok (some val) s)
    (ha : env.oracle (grokQuery q tr val) = some a) (hno : splitAnswer a = (false, x)) :
    builtin env (f+1) .grok name (kn :: pat :: rest) np site s = .ok () (retSt ⟨.bool false, .bool⟩ s) := by
  rw [grok_eq env f name kn pat rest k q tr np site hq hk ht]
  simp [subjectText, bind, EM.bind, getS, hv, hc, ask_some env ha, hno, modifyS]

/-- 4(c), general form. the engine answers a capture map `kvs`: grok stores the captures in key
    order, each by the point-store `setPt ck (detect [] cv)` — the capture's key, the engine's
    value with the engine's type (`detect` reads the type off the value: str/int/float/bool) — and
    then returns `true`. -/
theorem grok_match (f : Nat) (name : Bytes) (kn pat : Node) (rest : List Node) (k q : Bytes) (tr : Bool)
    (np : Pos) (site : Nat) (s : St) (v : TV) (val a payload tail : Bytes) (kvs : List (Bytes × Val))
    (hq : env.grok site = some q) (hk : getKeyName kn = .ok k) (ht : trimFlag rest = some tr)
    (hv : getKey s k = some v) (hc : conv2str env v s = .ok (some val) s)
    (ha : env.oracle (grokQuery q tr val) = some a) (hyes : splitAnswer a = (true, payload))
    (hm : unrender 4000 [] (unhex payload) = some (.ref 0, [Obj.map kvs], tail)) :
    builtin env (f+1) .grok name (kn :: pat :: rest) np site s =
      (do putAll env (sortKeys kvs); modifyS (retSt ⟨.bool true, .bool⟩)) s := by
  rw [grok_eq env f name kn pat rest k q tr np site hq hk ht]
  simp [subjectText, bind, EM.bind, getS, hv, hc, ask_some env ha, hyes, hm]

/-- 4(c), frame. whenever a matching grok call succeeds, it returned `true` and the only part of
    the world it changed is the point: variables, heap, trace, polls are those of `s`. -/
theorem grok_match_frame (f : Nat) (name : Bytes) (kn pat : Node) (rest : List Node) (k q : Bytes) (tr : Bool)
    (np : Pos) (site : Nat) (s s' : St) (v : TV) (val a payload tail : Bytes) (kvs : List (Bytes × Val))
    (hq : env.grok site = some q) (hk : getKeyName kn = .ok k) (ht : trimFlag rest = some tr)
    (hv : getKey s k = some v) (hc : conv2str env v s = .ok (some val) s)
    (ha : env.oracle (grokQuery q tr val) = some a) (hyes : splitAnswer a = (true, payload))
    (hm : unrender 4000 [] (unhex payload) = some (.ref 0, [Obj.map kvs], tail))
    (hrun : builtin env (f+1) .grok name (kn :: pat :: rest) np site s = .ok () s') :
    ∃ pt', s' = retSt ⟨.bool true, .bool⟩ (withPt s pt') := by
  rw [grok_match env f name kn pat rest k q tr np site s v val a payload tail kvs hq hk ht hv hc ha hyes hm] at hrun
  simp only [bind, EM.bind] at hrun
  split at hrun <;> try (simp at hrun)
  rename_i s1 h1
  obtain ⟨pt', e⟩ := putAll_ok env h1
  simp [modifyS] at hrun
  exact ⟨pt', by rw [← hrun, e]⟩

/-- 4(c), closed form. when no capture key is (currently) a tag of the point, no engine is
    consulted for storing, and the point afterwards is exactly the left fold of `Point.set` over
    the captures in key order: each capture under its (normalised) key, with the engine's value
    and type; grok returns `true`; nothing else changes.  (A capture whose key is an existing
    tag is stored as that tag's text; this is the general form `grok_match`.) -/
theorem grok_match_fields (f : Nat) (name : Bytes) (kn pat : Node) (rest : List Node) (k q : Bytes) (tr : Bool)
    (np : Pos) (site : Nat) (s : St) (v : TV) (val a payload tail : Bytes) (kvs : List (Bytes × Val))
    (hq : env.grok site = some q) (hk : getKeyName kn = .ok k) (ht : trimFlag rest = some tr)
    (hv : getKey s k = some v) (hc : conv2str env v s = .ok (some val) s)
    (ha : env.oracle (grokQuery q tr val) = some a) (hyes : splitAnswer a = (true, payload))
    (hm : unrender 4000 [] (unhex payload) = some (.ref 0, [Obj.map kvs], tail))
    (hnt : ∀ kv ∈ kvs, isTagKey s.world.pt (normKey kv.1) = false) :
    builtin env (f+1) .grok name (kn :: pat :: rest) np site s =
      .ok () (retSt ⟨.bool true, .bool⟩ (withPt s (storeFields s.world.pt (sortKeys kvs)))) := by
  rw [grok_match env f name kn pat rest k q tr np site s v val a payload tail kvs hq hk ht hv hc ha hyes hm]
  simp only [bind, EM.bind]
  rw [putAll_fields env (sortKeys kvs) s (fun kv h => hnt kv ((mem_sortKeys kv kvs).1 h))]
  rfl

/-- the engine is asked exactly `grokQuery …` with the subject's string form: with no answer
    recorded the run stops at that question -/
theorem grok_asks_engine (f : Nat) (name : Bytes) (kn pat : Node) (rest : List Node) (k q : Bytes) (tr : Bool)
    (np : Pos) (site : Nat) (s : St) (v : TV) (val : Bytes)
    (hq : env.grok site = some q) (hk : getKeyName kn = .ok k) (ht : trimFlag rest = some tr)
    (hv : getKey s k = some v) (hc : conv2str env v s = .ok (some val) s)
    (ha : env.oracle (grokQuery q tr val) = none) :
    builtin env (f+1) .grok name (kn :: pat :: rest) np site s = .need (grokQuery q tr val) := by
  rw [grok_eq env f name kn pat rest k q tr np site hq hk ht]
  simp [subjectText, bind, EM.bind, getS, hv, hc, ask, ha]

/-- the trim_space flag goes to the engine verbatim: an absent third argument and `true` put
    `t` into the query, `false` puts `f`; any other third argument is rejected -/
theorem trim_space_flag_verbatim (q val : Bytes) (b : Bool) (p : Pos) :
    trimFlag [] = some true ∧ trimFlag [.boolLit b p] = some b ∧
    grokQuery q true val = B "grokrun:" ++ q ++ [58, 116, 58] ++ hexOf val ∧     -- ":t:"
    grokQuery q false val = B "grokrun:" ++ q ++ [58, 102, 58] ++ hexOf val := by  -- ":f:"
  refine ⟨rfl, rfl, ?_, ?_⟩ <;> simp [grokQuery]

/-- string subjects: the string form of a string is the string itself, so for a subject holding
    `⟨str b, str⟩` the hypothesis `hc` of the grok/xml/default_time/sql_cover contracts holds with
    `val = b` -/
theorem string_subject (b : Bytes) (s : St) : conv2str env ⟨.str b, .str⟩ s = .ok (some b) s :=
  conv2str_str env b s

/-! ### xml and sql_cover -/

/-- 5. xml: the XPath engine's result is stored as a string under the designated field (third
    argument); a field gets the string, an existing tag gets it as its text
    (`Point.set … (some text)`); nothing else changes. -/
theorem xml_stores_result (f : Nat) (name : Bytes) (kn fn : Node) (k fld xp : Bytes) (p2 np : Pos) (site : Nat)
    (s : St) (v : TV) (c a payload : Bytes)
    (hk : getKeyName kn = .ok k) (hf : getKeyName fn = .ok fld)
    (hv : getKey s k = some v) (hc : conv2str env v s = .ok (some c) s)
    (ha : env.oracle (xmlQuery xp c) = some a) (hok : splitAnswer a = (true, payload)) :
    builtin env (f+1) .xml name [kn, .strLit xp p2, fn] np site s =
      .ok () (withPt s (s.world.pt.set (normKey fld) ⟨.str (unhex payload), .str⟩ (some (unhex payload)))) := by
  rw [xml_eq env f name kn fn k fld xp p2 np site hk hf]
  simp [subjectText, bind, EM.bind, getS, hv, hc, ask_some env ha, hok, setPt_str]

/-- 5. xml: an engine failure (bad document, bad XPath, no node) leaves the state unchanged -/
theorem xml_failure_unchanged (f : Nat) (name : Bytes) (kn fn : Node) (k fld xp : Bytes) (p2 np : Pos) (site : Nat)
    (s : St) (v : TV) (c a x : Bytes)
    (hk : getKeyName kn = .ok k) (hf : getKeyName fn = .ok fld)
    (hv : getKey s k = some v) (hc : conv2str env v s = .ok (some c) s)
    (ha : env.oracle (xmlQuery xp c) = some a) (hno : splitAnswer a = (false, x)) :
    builtin env (f+1) .xml name [kn, .strLit xp p2, fn] np site s = .ok () s := by
  rw [xml_eq env f name kn fn k fld xp p2 np site hk hf]
  simp [subjectText, bind, EM.bind, getS, hv, hc, ask_some env ha, hno, pure, EM.pure]

/-- 5. xml: an absent subject leaves the state unchanged -/
theorem xml_subject_absent (f : Nat) (name : Bytes) (kn fn : Node) (k fld xp : Bytes) (p2 np : Pos) (site : Nat)
    (s : St) (hk : getKeyName kn = .ok k) (hf : getKeyName fn = .ok fld) (hv : getKey s k = none) :
    builtin env (f+1) .xml name [kn, .strLit xp p2, fn] np site s = .ok () s := by
  rw [xml_eq env f name kn fn k fld xp p2 np site hk hf]
  simp [subjectText, bind, EM.bind, getS, hv, pure, EM.pure]

/-- 5. sql_cover: the SQL engine's result replaces the subject key itself, as a string -/
theorem sql_cover_stores_result (f : Nat) (name : Bytes) (kn : Node) (k : Bytes) (np : Pos) (site : Nat)
    (s : St) (v : TV) (c a payload : Bytes)
    (hk : getKeyName kn = .ok k)
    (hv : getKey s k = some v) (hc : conv2str env v s = .ok (some c) s)
    (ha : env.oracle (sqlQuery c) = some a) (hok : splitAnswer a = (true, payload)) :
    builtin env (f+1) .sqlCover name [kn] np site s =
      .ok () (withPt s (s.world.pt.set (normKey k) ⟨.str (unhex payload), .str⟩ (some (unhex payload)))) := by
  rw [sqlCover_eq env f name kn k np site hk]
  simp [subjectText, bind, EM.bind, getS, hv, hc, ask_some env ha, hok, setPt_str]

/-- 5. sql_cover: an engine failure leaves the state unchanged -/
theorem sql_cover_failure_unchanged (f : Nat) (name : Bytes) (kn : Node) (k : Bytes) (np : Pos) (site : Nat)
    (s : St) (v : TV) (c a x : Bytes)
    (hk : getKeyName kn = .ok k)
    (hv : getKey s k = some v) (hc : conv2str env v s = .ok (some c) s)
    (ha : env.oracle (sqlQuery c) = some a) (hno : splitAnswer a = (false, x)) :
    builtin env (f+1) .sqlCover name [kn] np site s = .ok () s := by
  rw [sqlCover_eq env f name kn k np site hk]
  simp [subjectText, bind, EM.bind, getS, hv, hc, ask_some env ha, hno, pure, EM.pure]

/-- 5. sql_cover: an absent subject leaves the state unchanged -/
theorem sql_cover_subject_absent (f : Nat) (name : Bytes) (kn : Node) (k : Bytes) (np : Pos) (site : Nat)
    (s : St) (hk : getKeyName kn = .ok k) (hv : getKey s k = none) :
    builtin env (f+1) .sqlCover name [kn] np site s = .ok () s := by
  rw [sqlCover_eq env f name kn k np site hk]
  simp [subjectText, bind, EM.bind, getS, hv, pure, EM.pure]

/-! ### datetime -/

/-- 6. datetime: an absent subject leaves the state unchanged -/
theorem datetime_subject_absent (f : Nat) (name : Bytes) (kn : Node) (k prec fmts : Bytes) (p2 p3 np : Pos)
    (site : Nat) (s : St) (hk : getKeyName kn = .ok k) (hv : getKey s k = none) :
    builtin env (f+1) .datetime name [kn, .strLit prec p2, .strLit fmts p3] np site s = .ok () s := by
  rw [datetime_eq env f name kn k prec fmts p2 p3 np site hk]
  simp [bind, EM.bind, getS, hv, pure, EM.pure]

/-- 6. datetime: the time engine is given the subject *value* (its canonical rendering
    `renderV`, not `Conv2String`: the Go code switches on the value's type), the precision and
    the layout; its result replaces the subject key, as a string. -/
theorem datetime_stores_result (f : Nat) (name : Bytes) (kn : Node) (k prec fmts : Bytes) (p2 p3 np : Pos)
    (site : Nat) (s : St) (v : TV) (a payload : Bytes)
    (hk : getKeyName kn = .ok k) (hv : getKey s k = some v)
    (ha : env.oracle (dateQuery s.world.heap v.v prec fmts) = some a)
    (hok : splitAnswer a = (true, payload)) :
    builtin env (f+1) .datetime name [kn, .strLit prec p2, .strLit fmts p3] np site s =
      .ok () (withPt s (s.world.pt.set (normKey k) ⟨.str (unhex payload), .str⟩ (some (unhex payload)))) := by
  rw [datetime_eq env f name kn k prec fmts p2 p3 np site hk]
  simp [bind, EM.bind, getS, hv, ask_some env ha, hok, setPt_str]

/-- 6. datetime: an engine failure (unsupported subject type, precision or layout) is a run
    error at the call position; the state — in particular the point — is unchanged. -/
theorem datetime_failure_is_error (f : Nat) (name : Bytes) (kn : Node) (k prec fmts : Bytes) (p2 p3 np : Pos)
    (site : Nat) (s : St) (v : TV) (a x : Bytes)
    (hk : getKeyName kn = .ok k) (hv : getKey s k = some v)
    (ha : env.oracle (dateQuery s.world.heap v.v prec fmts) = some a)
    (hno : splitAnswer a = (false, x)) :
    builtin env (f+1) .datetime name [kn, .strLit prec p2, .strLit fmts p3] np site s =
      .err (PlErr.new s.task.name np "datefmt") s := by
  rw [datetime_eq env f name kn k prec fmts p2 p3 np site hk]
  simp [bind, EM.bind, getS, hv, ask_some env ha, hno, runErr]

/-! ### default_time -/

/-- 7. default_time: an absent subject leaves the state unchanged -/
theorem default_time_subject_absent (f : Nat) (name : Bytes) (kn : Node) (rest : List Node) (k z : Bytes)
    (np : Pos) (site : Nat) (s : St)
    (hk : getKeyName kn = .ok k) (hz : tzArg rest = some z) (hv : getKey s k = none) :
    builtin env (f+1) .defaultTime name (kn :: rest) np site s = .ok () s := by
  rw [defaultTime_eq env f name kn rest k z np site hk hz]
  simp [subjectText, bind, EM.bind, getS, hv, pure, EM.pure]

/-- 7. default_time: the time engine is given the zone argument `z` (`tzArg`: absent = the empty
    name = default zone; otherwise the literal, be it an IANA name or a numeric offset — the
    engine decides) and the subject's string form; on success the point's time becomes the
    answered nanoseconds and the subject key is deleted; nothing else changes. -/
theorem default_time_sets_time (f : Nat) (name : Bytes) (kn : Node) (rest : List Node) (k z : Bytes)
    (np : Pos) (site : Nat) (s : St) (v : TV) (c a payload : Bytes)
    (hk : getKeyName kn = .ok k) (hz : tzArg rest = some z)
    (hv : getKey s k = some v) (hc : conv2str env v s = .ok (some c) s)
    (ha : env.oracle (timeQuery z c) = some a)
    (hok : splitAnswer a = (true, payload)) :
    builtin env (f+1) .defaultTime name (kn :: rest) np site s =
      .ok () (withPt s { (s.world.pt.delete (normKey k)) with time := (takeDec (unhex payload)).1 }) := by
  rw [defaultTime_eq env f name kn rest k z np site hk hz]
  simp [subjectText, bind, EM.bind, getS, hv, hc, ask_some env ha, hok, modWorld, modifyS, withPt]

/-- 7. default_time: when the engine fails (unparsable subject, unknown time zone) the only
    change is the failure note: `pl_msg` is set to "time convert failed: " followed by the
    engine's message. -/
theorem default_time_failure_note (f : Nat) (name : Bytes) (kn : Node) (rest : List Node) (k z : Bytes)
    (np : Pos) (site : Nat) (s : St) (v : TV) (c a msg : Bytes)
    (hk : getKeyName kn = .ok k) (hz : tzArg rest = some z)
    (hv : getKey s k = some v) (hc : conv2str env v s = .ok (some c) s)
    (ha : env.oracle (timeQuery z c) = some a)
    (hno : splitAnswer a = (false, msg)) :
    builtin env (f+1) .defaultTime name (kn :: rest) np site s =
      .ok () (withPt s (s.world.pt.set (B "pl_msg")
        ⟨.str (B "time convert failed: " ++ unhex msg), .str⟩ (some (B "time convert failed: " ++ unhex msg)))) := by
  rw [defaultTime_eq env f name kn rest k z np site hk hz]
  simp [subjectText, bind, EM.bind, getS, hv, hc, ask_some env ha, hno, setPt_str, normKey_pl_msg]

/-- 7. in that failure case the time, the measurement, the drop flag and every key other than
    `pl_msg` read as before -/
theorem default_time_failure_keeps_rest (pt : Point) (x : TV) (cs : Option Bytes) :
    (pt.set (B "pl_msg") x cs).time = pt.time ∧ (pt.set (B "pl_msg") x cs).meas = pt.meas ∧
    (pt.set (B "pl_msg") x cs).drop = pt.drop ∧
    ∀ k', k' ≠ B "pl_msg" → (pt.set (B "pl_msg") x cs).get k' = pt.get k' := by
  have h := (C11.key_ops_keep_meas_time pt (B "pl_msg") [] x cs).1
  exact ⟨h.2.1, h.1, h.2.2, fun k' hk' => C11.get_set_other pt (B "pl_msg") k' x cs hk'⟩

/-! ### the value of the call expression, the uncompiled site, string subjects -/

/-- "grok returns whether it matched": with the return registers empty before the call (they are
    reset after every call, `C11.return_register_cleared`), the first register after `retSt x` is
    `x`, which is what `evalCall` hands back as the value of the call expression. -/
theorem retSt_value (x : TV) (s : St) (h : s.task.regs = []) :
    (retSt x s).task.regs = [x] ∧ (retSt x s).world = s.world ∧ (retSt x s).task.scopes = s.task.scopes := by
  simp [retSt, h]

/-- a grok call whose site the load-time pass did not compile returns `false` and is a run error -/
theorem grok_uncompiled_site_is_error (f : Nat) (name : Bytes) (args : List Node) (np : Pos) (site : Nat) (s : St)
    (hq : env.grok site = none) :
    builtin env (f+1) .grok name args np site s =
      .err (PlErr.new s.task.name np "no-grok-obj") (retSt ⟨.bool false, .bool⟩ s) := by
  simp [builtin, hq, bind, EM.bind, modTask, modifyS, runErr, retSt]

/-- 4(c) for a string subject (a field, tag or variable holding a string): the engine is asked
    about the string itself -/
theorem grok_match_fields_string_subject (f : Nat) (name : Bytes) (kn pat : Node) (rest : List Node) (k q : Bytes)
    (tr : Bool) (np : Pos) (site : Nat) (s : St) (b a payload tail : Bytes) (kvs : List (Bytes × Val))
    (hq : env.grok site = some q) (hk : getKeyName kn = .ok k) (ht : trimFlag rest = some tr)
    (hv : getKey s k = some ⟨.str b, .str⟩)
    (ha : env.oracle (grokQuery q tr b) = some a) (hyes : splitAnswer a = (true, payload))
    (hm : unrender 4000 [] (unhex payload) = some (.ref 0, [Obj.map kvs], tail))
    (hnt : ∀ kv ∈ kvs, isTagKey s.world.pt (normKey kv.1) = false) :
    builtin env (f+1) .grok name (kn :: pat :: rest) np site s =
      .ok () (retSt ⟨.bool true, .bool⟩ (withPt s (storeFields s.world.pt (sortKeys kvs)))) :=
  grok_match_fields env f name kn pat rest k q tr np site s _ b a payload tail kvs hq hk ht hv
    (conv2str_str env b s) ha hyes hm hnt

/-- 5 for a string subject -/
theorem xml_stores_result_string_subject (f : Nat) (name : Bytes) (kn fn : Node) (k fld xp : Bytes) (p2 np : Pos)
    (site : Nat) (s : St) (b a payload : Bytes)
    (hk : getKeyName kn = .ok k) (hf : getKeyName fn = .ok fld) (hv : getKey s k = some ⟨.str b, .str⟩)
    (ha : env.oracle (xmlQuery xp b) = some a) (hok : splitAnswer a = (true, payload)) :
    builtin env (f+1) .xml name [kn, .strLit xp p2, fn] np site s =
      .ok () (withPt s (s.world.pt.set (normKey fld) ⟨.str (unhex payload), .str⟩ (some (unhex payload)))) :=
  xml_stores_result env f name kn fn k fld xp p2 np site s _ b a payload hk hf hv (conv2str_str env b s) ha hok

/-- 5 for a string subject -/
theorem sql_cover_stores_result_string_subject (f : Nat) (name : Bytes) (kn : Node) (k : Bytes) (np : Pos) (site : Nat)
    (s : St) (b a payload : Bytes)
    (hk : getKeyName kn = .ok k) (hv : getKey s k = some ⟨.str b, .str⟩)
    (ha : env.oracle (sqlQuery b) = some a) (hok : splitAnswer a = (true, payload)) :
    builtin env (f+1) .sqlCover name [kn] np site s =
      .ok () (withPt s (s.world.pt.set (normKey k) ⟨.str (unhex payload), .str⟩ (some (unhex payload)))) :=
  sql_cover_stores_result env f name kn k np site s _ b a payload hk hv (conv2str_str env b s) ha hok

/-- 7 for a string subject -/
theorem default_time_sets_time_string_subject (f : Nat) (name : Bytes) (kn : Node) (rest : List Node) (k z : Bytes)
    (np : Pos) (site : Nat) (s : St) (b a payload : Bytes)
    (hk : getKeyName kn = .ok k) (hz : tzArg rest = some z) (hv : getKey s k = some ⟨.str b, .str⟩)
    (ha : env.oracle (timeQuery z b) = some a) (hok : splitAnswer a = (true, payload)) :
    builtin env (f+1) .defaultTime name (kn :: rest) np site s =
      .ok () (withPt s { (s.world.pt.delete (normKey k)) with time := (takeDec (unhex payload)).1 }) :=
  default_time_sets_time env f name kn rest k z np site s _ b a payload hk hz hv (conv2str_str env b s) ha hok

/-- the zone argument: absent = default zone (empty name), a literal = that name or offset -/
theorem tz_argument (z : Bytes) (p : Pos) (more : List Node) :
    tzArg [] = some [] ∧ tzArg (.strLit z p :: more) = some z := ⟨rfl, rfl⟩

end runtime

/-! ## 9. non-vacuity: concrete runs -/

namespace Ex
def msg : Bytes := [109, 115, 103]                      -- "msg"
def line : Bytes := [71, 69, 84, 32, 50, 48, 48]        -- "GET 200"
def code : Bytes := [99, 111, 100, 101]                 -- "code"
def method : Bytes := [109, 101, 116, 104, 111, 100]    -- "method"
def GET : Bytes := [71, 69, 84]
/-- `{6d6574686f64:s474554,636f6465:i200}`: the engine's capture map {method: "GET" (str), code: 200 (int)} -/
def captures : Bytes := [123, 54, 100, 54, 53, 55, 52, 54, 56, 54, 102, 54, 52, 58, 115, 52, 55, 52, 53, 53, 52, 44,
  54, 51, 54, 102, 54, 52, 54, 53, 58, 105, 50, 48, 48, 125]
/-- the compiled site: no definitions, pattern `%{WORD:method} %{INT:code:int}` -/
def siteQ : Bytes := siteQuery [] [37, 123, 87, 79, 82, 68, 58, 109, 101, 116, 104, 111, 100, 125, 32, 37, 123, 73, 78,
  84, 58, 99, 111, 100, 101, 58, 105, 110, 116, 125]
def answer : Bytes := [111, 107, 58] ++ hexOf captures   -- "ok:" ++ hex
def pt : Point := Point.init [] [] [(msg, .str line)] 1700000000000000000
def st : St := { task := { name := [], scopes := [[]] }, world := { pt := pt } }
def env : Env :=
  { bound := fun _ => none, fns := [], sigK := none, hasSignal := false, mapOrder := fun _ => 0,
    grok := fun site => if site = 7 then some siteQ else none,
    oracle := fun q => if q = grokQuery siteQ true line then some answer else none }
def p0 : Pos := ⟨0, 1, 1⟩
end Ex
open Ex


theorem ex_unrender : unrender 4000 [] (unhex (hexOf captures)) =
    some (.ref 0, [Obj.map [(code, .int 200), (method, .str GET)]], []) := by decide

/-- non-vacuity of 4(c): `grok(msg, "%{WORD:method} %{INT:code:int}")` on a point whose `msg` is
    "GET 200", with an engine that answers the capture map {method: "GET", code: 200}: the call
    returns true, `code` lands in the point as the *int* 200 and `method` as the *string* "GET",
    the subject and the time stay. -/
theorem example_grok_typed_captures :
    ∃ pt', builtin env 1 .grok (B "grok") [.ident msg p0, .strLit [] p0] p0 7 st
        = .ok () (retSt ⟨.bool true, .bool⟩ (withPt st pt')) ∧
      pt'.get code = some ⟨.int 200, .int⟩ ∧ pt'.get method = some ⟨.str GET, .str⟩ ∧
      pt'.get msg = some ⟨.str line, .str⟩ ∧ pt'.time = 1700000000000000000 ∧
      (retSt ⟨.bool true, .bool⟩ (withPt st pt')).task.regs = [⟨.bool true, .bool⟩] := by
  refine ⟨storeFields pt (sortKeys [(code, .int 200), (method, .str GET)]), ?_, ?_⟩
  · exact grok_match_fields env 0 (B "grok") (.ident msg p0) (.strLit [] p0) [] msg siteQ true p0 7 st
      ⟨.str line, .str⟩ line answer (hexOf captures) [] [(code, .int 200), (method, .str GET)]
      (by simp [env]) rfl rfl (by decide) (conv2str_str env line st) (by simp [env]) (by decide) ex_unrender
      (by decide)
  · decide

namespace Ex2
def ts : Bytes := [116, 115]                                                        -- "ts"
def when : Bytes := [121, 101, 115, 116, 101, 114, 100, 97, 121, 45, 105, 115, 104]  -- "yesterday-ish"
def zone : Bytes := [77, 97, 114, 115, 47, 79, 108, 121, 109, 112, 117, 115]         -- "Mars/Olympus"
/-- "unknown time zone Mars/Olympus" -/
def why : Bytes := [117, 110, 107, 110, 111, 119, 110, 32, 116, 105, 109, 101, 32, 122, 111, 110, 101, 32, 77, 97, 114,
  115, 47, 79, 108, 121, 109, 112, 117, 115]
def answer : Bytes := [101, 114, 114, 58] ++ hexOf why    -- "err:" ++ hex
def pt : Point := Point.init [] [] [(ts, .str when)] 42
def st : St := { task := { name := [], scopes := [[]] }, world := { pt := pt } }
def env : Env :=
  { bound := fun _ => none, fns := [], sigK := none, hasSignal := false, mapOrder := fun _ => 0,
    oracle := fun q => if q = timeQuery zone when then some answer else none }
end Ex2

/-- non-vacuity of 7 (failure): `default_time(ts, "Mars/Olympus")` with an engine that does not
    know the zone: the call succeeds, the point gets the note
    `pl_msg = "time convert failed: unknown time zone Mars/Olympus"`, its time (42) and the
    subject `ts` are untouched. -/
theorem example_default_time_unknown_zone :
    ∃ pt', builtin Ex2.env 1 .defaultTime (B "default_time") [.ident Ex2.ts p0, .strLit Ex2.zone p0] p0 0 Ex2.st
        = .ok () (withPt Ex2.st pt') ∧
      pt'.get (B "pl_msg") = some ⟨.str (B "time convert failed: " ++ Ex2.why), .str⟩ ∧
      pt'.time = 42 ∧ pt'.get Ex2.ts = some ⟨.str Ex2.when, .str⟩ := by
  have hu : unhex (hexOf Ex2.why) = Ex2.why := by decide
  refine ⟨_, default_time_failure_note Ex2.env 0 (B "default_time") (.ident Ex2.ts p0) [.strLit Ex2.zone p0]
      Ex2.ts Ex2.zone p0 0 Ex2.st ⟨.str Ex2.when, .str⟩ Ex2.when Ex2.answer (hexOf Ex2.why)
      rfl rfl (by decide) (conv2str_str Ex2.env Ex2.when Ex2.st) (by simp [Ex2.env]) (by decide), ?_, ?_, ?_⟩
  · rw [hu]
    simp [Point.get, Point.set, Ex2.st, Ex2.pt, Point.init, B_pl_msg, alookup, aset, Ex2.ts]
  · exact (default_time_failure_keeps_rest Ex2.pt _ _).1
  · show (Ex2.pt.set _ _ _).get Ex2.ts = _
    rw [(default_time_failure_keeps_rest Ex2.pt _ _).2.2.2 Ex2.ts (by rw [B_pl_msg]; decide)]
    decide


namespace Ex3
def ap : Bytes := [97, 100, 100, 95, 112, 97, 116, 116, 101, 114, 110]   -- "add_pattern"
def gk : Bytes := [103, 114, 111, 107]                                    -- "grok"
def p0 : Pos := ⟨0, 1, 1⟩
/-- the engine accepts everything -/
def yes : Bytes → Option Bytes := fun _ => some [111, 107, 58]
/--
```
add_pattern("a", "x")
if c {
  add_pattern("b", "y")
  grok(_, "%{b}")        # site 3
}
grok(_, "%{a}")          # site 4
```
-/
def script : List Node :=
  [ .call ap [.strLit [97] p0, .strLit [120] p0] p0 p0 p0 1,
    .ifelse [(.ident [99] p0, some [
        .call ap [.strLit [98] p0, .strLit [121] p0] p0 p0 p0 2,
        .call gk [.ident [95] p0, .strLit [37, 123, 98, 125] p0] p0 p0 p0 3], p0)] none p0,
    .call gk [.ident [95] p0, .strLit [37, 123, 97, 125] p0] p0 p0 p0 4 ]
end Ex3
open Ex3

theorem ofName_ap : Fn.ofName ap = some .addPattern := by rw [PanicProofs.ofName_eq]; decide
theorem ofName_gk : Fn.ofName gk = some .grok := by rw [PanicProofs.ofName_eq]; decide

theorem bc_ap (file : Bytes) (alias pat : Bytes) (p1 p2 np : Pos) (site : Nat) (s : CheckSt) :
    builtinCheck yes file ⟨ap, [.strLit alias p1, .strLit pat p2], np, site⟩ s = .ok () (Delta.apply s (.addPat alias pat)) := by
  simp [builtinCheck, addPattern_check_eq yes file ap alias pat p1 p2 np site s ofName_ap, yes, splitAnswer]

theorem bc_gk (file : Bytes) (k pat : Bytes) (p1 p2 np : Pos) (site : Nat) (s : CheckSt) :
    builtinCheck yes file ⟨gk, [.ident k p1, .strLit pat p2], np, site⟩ s =
      .ok () (Delta.apply s (.addGrok site (siteQuery (visiblePats s) pat))) := by
  simp [builtinCheck, grok_check_eq yes file gk (.ident k p1) pat p2 [] np site s true ofName_gk rfl rfl, yes, splitAnswer]

/-- non-vacuity of part A: the grok inside the `if` block is compiled with the definitions `a`
    and `b`, the grok after the block with `a` only, and after the script the single scope holds
    `a` only (`b` died with its block). -/
theorem example_pattern_scoping (file : Bytes) :
    checkScript 12 yes [ap, gk] file script =
      .ok () { pats := [[([97], [120])]],
               grok := [(4, siteQuery [([97], [120])] [37, 123, 97, 125]),
                        (3, siteQuery [([97], [120]), ([98], [121])] [37, 123, 98, 125])] } := by
  simp [checkScript, script, checkNodes, checkNode, checkIfs, checkOptBlock, bc_ap, bc_gk, Delta.apply, visiblePats,
    cPush, cPop, cMod, bind, pure]


/-- … and with an engine that accepts nothing the same kind of script is rejected at load time -/
theorem example_unknown_pattern_rejected (file : Bytes) :
    checkScript 12 (fun _ => some [101, 114, 114, 58]) [gk] file
      [.call gk [.ident [95] Ex3.p0, .strLit [37, 123, 110, 111, 125] Ex3.p0] Ex3.p0 Ex3.p0 Ex3.p0 1] =
      .err (PlErr.new file Ex3.p0 "pattern") := by
  have h := fun s => (unknown_pattern_rejected (fun _ => some [101, 114, 114, 58]) file gk (.ident [95] Ex3.p0)
    [37, 123, 110, 111, 125] Ex3.p0 [] Ex3.p0 1 s true [101, 114, 114, 58] ofName_gk rfl rfl rfl (by decide)).2
  simp [checkScript, checkNodes, checkNode, h, bind, pure]

end Platypus.C12
