import Platypus.Properties.C01
import Platypus.Properties.C08Facts
/-!
# C01 ∘ C08 — what the load-time check establishes is what `no_panic` needs

`checked_of_accepted`: a script accepted by the check pass with the builtin table (`checkScript`)
satisfies `C01.Checked` (argument counts the run-time code relies on, for-in variables are
identifiers, break/continue inside loops).  Hence `accepted_script_never_panics`: the hypothesis
`Checked` of `no_panic` is discharged by load-time acceptance of the script and of the scripts bound
to its `use()` sites.
-/
namespace Platypus.C01
open Platypus

theorem checked_of_accepted (fuel : Nat) (oracle : Bytes → Option Bytes) (fns : List Bytes) (file : Bytes)
    (stmts : List Node) (st : CheckSt)
    (h : checkScript fuel oracle fns file stmts = .ok () st) : Checked stmts := by
  unfold checkScript at h
  have hs := C08.check_sound file (fun n => fns.contains n) (fun c => some (builtinCheck oracle file c))
    (fun c chk s s' hc hok => by
      cases hc
      exact C08.builtinCheck_keeps_loops oracle file c s s' hok)
    fuel stmts {} st h rfl
  refine ⟨fun k c hc => ?_, hs.2⟩
  obtain ⟨_, chk, s, s', hf, hok⟩ := hs.1 k c hc
  cases hf
  exact accepted_argsOk oracle file c s s' hok

/-- a script that was accepted at load time (together with every script bound to a `use()` site)
    never panics, on any well-formed world with representable inputs -/
theorem accepted_script_never_panics (env : Env) (fuel cf : Nat) (name : Bytes) (stmts : List Node) (w : World)
    (st : CheckSt) (hacc : checkScript cf env.oracle env.fns name stmts = .ok () st)
    (hb : ∀ site cname cstmts, env.bound site = some (cname, cstmts) →
      ∃ cf' st', checkScript cf' env.oracle env.fns cname cstmts = .ok () st')
    (hw : WTState { task := { name := name, scopes := [[]] }, world := w })
    (hi : IntsRepresentable env stmts w) :
    isPanic (runScript env fuel name stmts w) = false :=
  no_panic env fuel name stmts w (checked_of_accepted cf env.oracle env.fns name stmts st hacc)
    (fun site cname cstmts hbd => by
      obtain ⟨cf', st', h⟩ := hb site cname cstmts hbd
      exact checked_of_accepted cf' env.oracle env.fns cname cstmts st' h)
    hw hi

end Platypus.C01
