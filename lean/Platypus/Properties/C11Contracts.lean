import Platypus.Proofs.Contracts
/-!
# C11 — positive contracts of the field-manipulating builtins

`Properties/C11.lean` has the point-level frame lemmas and the missing-subject no-ops.  This file
adds, per builtin and case, *what is written where*: each theorem is an equation (or a case
statement) about `builtin env (f+1) .<fn> name args np site s`, for every state, key, oracle and
fuel.  The subject is given as a key-name node `kn` with `getKeyName kn = .ok k` (identifier,
string literal, attribute expression), as in C12.

Vocabulary (restated local helpers of `builtin`, `Proofs/Extract.lean` and `Proofs/Contracts.lean`):
`setPt env key x` (store through `Point.set` under the normalised key), `setPtTag env key x` (store
as a tag through `Point.setTag`), `retSt x s` (append to the return registers), `withPt s pt`
(replace the point, keep everything else), `outSt text s` (standard output), `PtWrite k s s'`
(`s'` differs from `s` at most in the point key `k`).  The engines are oracles: every contract
names the question put to the engine (`castQuery`, `strQuery`, `regexCompileQuery`,
`regexReplaceQuery`, `jsonLoadQuery`, `sprintfQuery`, `jsonQuery`, `fmtfQuery`) and says what is done
with its answer.  `selfArg heap args vs` is the first argument of strfmt / printf (with its value)
whose value contains itself (`containsItself`, e.g. after `a[0] = a`): such a value is not formatted.
-/
namespace Platypus.C11
open Platypus Platypus.C12

/-! ## 1. where the subject is read: variable first, else the point; `_` is `message` -/

/-- `_` stands for `message` -/
theorem normKey_underscore : normKey [95] = bytesOf "message" := rfl

/-- every other key stands for itself -/
theorem normKey_other (k : Bytes) (h : k ≠ [95]) : normKey k = k := by simp [normKey, h]

/-- `ctx.GetKey`: if a script variable of that name exists in any scope (innermost first), the
    subject is that variable — whatever the point holds under the same key -/
theorem getKey_variable_first (s : St) (k : Bytes) (v : TV)
    (h : scopeGet s.task.scopes (normKey k) = some v) : getKey s k = some v := by
  simp [getKey, h]

/-- … otherwise the subject is the point's key (`Point.get` under the normalised name; `none`
    when the point does not have it either) -/
theorem getKey_point_otherwise (s : St) (k : Bytes)
    (h : scopeGet s.task.scopes (normKey k) = none) : getKey s k = s.world.pt.get (normKey k) := by
  simp [getKey, h]

/-- the subject `_` is the variable `message` if there is one, else the point's `message` -/
theorem getKey_underscore (s : St) : getKey s [95] = getKey s (bytesOf "message") := by
  simp [getKey, normKey, originKey]

section
variable (env : Env)

/-! ## 2. add_key -/

/-- `add_key(k)` with the subject present (variable or point key, value `v`): the point gets `k`
    set to that value with its type, through the point store `setPt` (characterised below:
    `setPt_field`, `setPt_conv`, `setPt_ok`, `stored_value_*`). -/
theorem add_key_subject_present (f : Nat) (name : Bytes) (kn : Node) (k : Bytes) (np : Pos) (site : Nat)
    (s : St) (v : TV) (hk : getKeyName kn = .ok k) (hv : getKey s k = some v) :
    builtin env (f+1) .addKey name [kn] np site s = setPt env k v s := by
  rw [addKey1_eq env f name kn k np site hk]
  simp [bind, EM.bind, getS, hv]

/-- `add_key(k)`, subject present, bool/int/float/str/nil/void value, `k` not a tag of the point: no
    engine is consulted, and the only change is `Point.set` of that value under `k`. -/
theorem add_key_subject_present_field (f : Nat) (name : Bytes) (kn : Node) (k : Bytes) (np : Pos) (site : Nat)
    (s : St) (v : TV) (hk : getKeyName kn = .ok k) (hv : getKey s k = some v)
    (hnt : isTagKey s.world.pt (normKey k) = false) (hx : v.t ≠ .list ∧ v.t ≠ .map) :
    builtin env (f+1) .addKey name [kn] np site s = .ok () (withPt s (s.world.pt.set (normKey k) v none)) := by
  rw [add_key_subject_present env f name kn k np site s v hk hv, setPt_field env k v s hnt hx]

/-- `add_key(k, e)`: when the argument `e` evaluates to `v` (state `s1` afterwards), `k` is set to
    `v` by the point store, starting from `s1`. -/
theorem add_key_value (f : Nat) (name : Bytes) (kn e : Node) (k : Bytes) (np : Pos) (site : Nat)
    (s s1 : St) (v : TV) (hk : getKeyName kn = .ok k) (he : evalNode env f e s = .ok v s1) :
    builtin env (f+1) .addKey name [kn, e] np site s = setPt env k v s1 := by
  rw [addKey2_eq env f name kn e k np site hk]
  simp [bind, EM.bind, argErr, he]

/-- `add_key(k, e)`, scalar value, `k` not a tag: beyond what evaluating `e` did, the only change
    is `Point.set` of the value under `k`. -/
theorem add_key_value_field (f : Nat) (name : Bytes) (kn e : Node) (k : Bytes) (np : Pos) (site : Nat)
    (s s1 : St) (v : TV) (hk : getKeyName kn = .ok k) (he : evalNode env f e s = .ok v s1)
    (hnt : isTagKey s1.world.pt (normKey k) = false) (hx : v.t ≠ .list ∧ v.t ≠ .map) :
    builtin env (f+1) .addKey name [kn, e] np site s = .ok () (withPt s1 (s1.world.pt.set (normKey k) v none)) := by
  rw [add_key_value env f name kn e k np site s s1 v hk he, setPt_field env k v s1 hnt hx]

/-- `add_key(k, e)`: a run error of the argument is the call's error, with the call position
    appended to its chain; the point is not written. -/
theorem add_key_value_error (f : Nat) (name : Bytes) (kn e : Node) (k : Bytes) (np : Pos) (site : Nat)
    (s s1 : St) (er : PlErr) (hk : getKeyName kn = .ok k) (he : evalNode env f e s = .err er s1) :
    builtin env (f+1) .addKey name [kn, e] np site s = .err (er.append s1.task.name np) s1 := by
  rw [addKey2_eq env f name kn e k np site hk]
  simp [bind, EM.bind, argErr, he]

/-- `add_key(k, e)` with a list or map value: the JSON engine is asked for the text of the value
    (`jsonQuery`); its answer is what `Point.set` stores (as a string field — `stored_value_field`). -/
theorem add_key_value_listmap (f : Nat) (name : Bytes) (kn e : Node) (k : Bytes) (np : Pos) (site : Nat)
    (s s1 : St) (v : TV) (a : Bytes) (hk : getKeyName kn = .ok k) (he : evalNode env f e s = .ok v s1)
    (hx : v.t = .list ∨ v.t = .map) (ha : env.oracle (jsonQuery s1.world.heap v.v) = some a) :
    builtin env (f+1) .addKey name [kn, e] np site s =
      .ok () (withPt s1 (s1.world.pt.set (normKey k) v
        (if (splitAnswer a).1 then some (unhex (splitAnswer a).2) else none))) := by
  rw [add_key_value env f name kn e k np site s s1 v hk he]
  apply setPt_conv
  obtain ⟨vv, t⟩ := v
  have ha' : env.oracle (B "json:" ++ renderV s1.world.heap vv) = some a := ha
  rcases hx with hx | hx <;> simp only at hx <;> subst hx <;>
    simp [conv2str, bind, EM.bind, getS, ask, ha', pure, EM.pure]

/-- what the key reads after the store (`Point.get`), for a key that is not a tag:
    bool/int/float/str values read back as they are, with their type; values without a proper
    type (nil, void, invalid) read back as nil; a list or map reads back as the *string* holding
    its JSON text, or nil when the JSON engine failed (`storedAs`). -/
theorem stored_value_field (pt : Point) (key : Bytes) (x : TV) (cs : Option Bytes)
    (hk : isTagKey pt key = false) : (pt.set key x cs).get key = some (storedAs x cs) :=
  get_set_same_field pt key x cs hk

/-- `storedAs`, case by case -/
theorem storedAs_cases (v : Val) (cs : Option Bytes) (txt : Bytes) :
    storedAs ⟨v, .int⟩ cs = ⟨v, .int⟩ ∧ storedAs ⟨v, .float⟩ cs = ⟨v, .float⟩ ∧
    storedAs ⟨v, .bool⟩ cs = ⟨v, .bool⟩ ∧ storedAs ⟨v, .str⟩ cs = ⟨v, .str⟩ ∧
    storedAs ⟨v, .nil⟩ cs = nilTV ∧ storedAs ⟨v, .void⟩ cs = nilTV ∧ storedAs ⟨v, .invalid⟩ cs = nilTV ∧
    storedAs ⟨v, .list⟩ (some txt) = ⟨.str txt, .str⟩ ∧ storedAs ⟨v, .map⟩ (some txt) = ⟨.str txt, .str⟩ ∧
    storedAs ⟨v, .list⟩ none = nilTV ∧ storedAs ⟨v, .map⟩ none = nilTV := by
  simp [storedAs]

/-- … and for a key that is a tag: the tag's text becomes the string form of the value; a
    void/invalid value removes the text (the key then reads nil); without a string form the tag
    stays as it was. -/
theorem stored_value_tag (pt : Point) (key : Bytes) (x : TV) (cs : Option Bytes) (t : DType)
    (hk : alookup key pt.idx = some (t, true)) (ht : t ≠ .void ∧ t ≠ .nil) :
    (pt.set key x cs).get key =
      if x.t = .void ∨ x.t = .invalid then some nilTV
      else match cs with
        | some s => some ⟨.str s, .str⟩
        | none => pt.get key :=
  get_set_same_tag pt key x cs t hk ht

/-! ## 3. set_tag -/

/-- `set_tag(k)` with the subject present: `k` becomes a tag holding the string form of the
    subject (`setPtTag`: `Conv2String`, then `Point.setTag`). -/
theorem set_tag_subject_present (f : Nat) (name : Bytes) (kn : Node) (k : Bytes) (np : Pos) (site : Nat)
    (s : St) (v : TV) (hk : getKeyName kn = .ok k) (hv : getKey s k = some v) :
    builtin env (f+1) .setTag name [kn] np site s = setPtTag env k v s := by
  rw [setTag1_eq env f name kn k np site hk]
  simp [bind, EM.bind, getS, hv]

/-- `set_tag(k, e)`: `k` becomes a tag holding the string form of the value of `e`. -/
theorem set_tag_value (f : Nat) (name : Bytes) (kn e : Node) (k : Bytes) (np : Pos) (site : Nat)
    (s s1 : St) (v : TV) (hk : getKeyName kn = .ok k) (he : evalNode env f e s = .ok v s1) :
    builtin env (f+1) .setTag name [kn, e] np site s = setPtTag env k v s1 := by
  rw [setTag2_eq env f name kn e k np site hk]
  simp [bind, EM.bind, he]

/-- `set_tag(k, e)`: a run error of the argument is the call's error, unchanged. -/
theorem set_tag_value_error (f : Nat) (name : Bytes) (kn e : Node) (k : Bytes) (np : Pos) (site : Nat)
    (s s1 : St) (er : PlErr) (hk : getKeyName kn = .ok k) (he : evalNode env f e s = .err er s1) :
    builtin env (f+1) .setTag name [kn, e] np site s = .err er s1 := by
  rw [setTag2_eq env f name kn e k np site hk]
  simp [bind, EM.bind, he]

/-- the tag store, given the string form `cs` of the value (`Conv2String`; `none` = conversion
    failure): the only change is `Point.setTag` under the normalised key. -/
theorem set_tag_store (key : Bytes) (x : TV) (s : St) (cs : Option Bytes) (hc : conv2str env x s = .ok cs s) :
    setPtTag env key x s = .ok () (withPt s (s.world.pt.setTag (normKey key) cs)) :=
  setPtTag_conv env hc

/-- `set_tag(k)` with a string subject `b`: `k` is afterwards a tag reading `b`; nothing else changes. -/
theorem set_tag_string_subject (f : Nat) (name : Bytes) (kn : Node) (k b : Bytes) (np : Pos) (site : Nat)
    (s : St) (hk : getKeyName kn = .ok k) (hv : getKey s k = some ⟨.str b, .str⟩) :
    builtin env (f+1) .setTag name [kn] np site s =
      .ok () (withPt s (s.world.pt.setTag (normKey k) (some b))) := by
  rw [set_tag_subject_present env f name kn k np site s _ hk hv]
  exact setPtTag_conv env (conv2str_str env b s)

/-- after the tag store the key reads as a string: the string form, or — **conversion failure**
    (a void/invalid value, a list/map the JSON engine rejects) — the *empty string*: the model
    (like the Go code, which ignores `Conv2String`'s error) creates an empty tag in that case. -/
theorem tag_value_after_store (pt : Point) (key : Bytes) (cs : Option Bytes)
    (ht : ∀ t, alookup key pt.idx = some (t, true) → t ≠ .void ∧ t ≠ .nil) :
    (pt.setTag key cs).get key = some ⟨.str (cs.getD []), .str⟩ :=
  get_setTag_same pt key cs ht

/-- conversion failure, as an equation: a value tagged void or invalid has no string form, and
    `set_tag(k, e)` then makes `k` an empty tag. -/
theorem set_tag_value_no_string_form (f : Nat) (name : Bytes) (kn e : Node) (k : Bytes) (np : Pos) (site : Nat)
    (s s1 : St) (v : TV) (hk : getKeyName kn = .ok k) (he : evalNode env f e s = .ok v s1)
    (hx : v.t = .void ∨ v.t = .invalid) :
    builtin env (f+1) .setTag name [kn, e] np site s =
      .ok () (withPt s1 (s1.world.pt.setTag (normKey k) none)) := by
  rw [set_tag_value env f name kn e k np site s s1 v hk he]
  apply setPtTag_conv
  obtain ⟨vv, t⟩ := v
  rcases hx with hx | hx <;> simp only at hx <;> subst hx <;> simp [conv2str, pure, EM.pure]

/-! ## 4. cast -/

/-- `cast(k, "<unknown type name>")` with the subject present: the key is set to nil
    (`doCast` returns nil for an unknown type name). -/
theorem cast_unknown_type (f : Nat) (name : Bytes) (kn : Node) (k ty : Bytes) (p2 np : Pos) (site : Nat)
    (s : St) (v : TV) (hk : getKeyName kn = .ok k) (hv : getKey s k = some v) (hty : castKind ty = none) :
    builtin env (f+1) .cast name [kn, .strLit ty p2] np site s = setPt env k nilTV s := by
  rw [cast_eq env f name kn k ty p2 np site hk]
  simp [bind, EM.bind, getS, hv, hty]

/-- `cast(k, "int")` on a subject whose value is an int: the key is set to that int, typed int;
    no engine is consulted. -/
theorem cast_int_of_int (f : Nat) (name : Bytes) (kn : Node) (k ty : Bytes) (p2 np : Pos) (site : Nat)
    (s : St) (v : TV) (i : Int) (hk : getKeyName kn = .ok k) (hv : getKey s k = some v)
    (hty : castKind ty = some .int) (hi : v.v = .int i) :
    builtin env (f+1) .cast name [kn, .strLit ty p2] np site s = setPt env k ⟨.int i, .int⟩ s := by
  rw [cast_eq env f name kn k ty p2 np site hk]
  simp [bind, EM.bind, getS, hv, hty, hi]

/-- every other conversion: the conversion engine is asked `castQuery t heap value` (target type
    `t`, rendered subject value); it answers with a rendered value `r` of the requested type
    (`castTyped`), and the key is set to `⟨r, t⟩` by the point store. -/
theorem cast_by_engine (f : Nat) (name : Bytes) (kn : Node) (k ty : Bytes) (p2 np : Pos) (site : Nat)
    (s : St) (v : TV) (t : DType) (a : Bytes) (r : Val) (h' : Heap) (tl : Bytes)
    (hk : getKeyName kn = .ok k) (hv : getKey s k = some v)
    (hty : castKind ty = some t) (hne : ∀ i, t = .int → v.v ≠ .int i)
    (ha : env.oracle (castQuery t s.world.heap v.v) = some a)
    (hu : unrender 8 [] (unhex (splitAnswer a).2) = some (r, h', tl)) (htyped : castTyped t r = true) :
    builtin env (f+1) .cast name [kn, .strLit ty p2] np site s = setPt env k ⟨r, t⟩ s := by
  rw [cast_eq env f name kn k ty p2 np site hk]
  obtain ⟨vv, vt⟩ := v
  cases t <;> cases vv <;>
    first
    | exact absurd rfl (hne _ rfl)
    | simp [bind, EM.bind, getS, hv, hty, ask_some env ha, hu, htyped]

/-- … in particular when the key is not a tag: nothing but `Point.set` of the converted value. -/
theorem cast_by_engine_field (f : Nat) (name : Bytes) (kn : Node) (k ty : Bytes) (p2 np : Pos) (site : Nat)
    (s : St) (v : TV) (t : DType) (a : Bytes) (r : Val) (h' : Heap) (tl : Bytes)
    (hk : getKeyName kn = .ok k) (hv : getKey s k = some v)
    (hty : castKind ty = some t) (hne : ∀ i, t = .int → v.v ≠ .int i)
    (ha : env.oracle (castQuery t s.world.heap v.v) = some a)
    (hu : unrender 8 [] (unhex (splitAnswer a).2) = some (r, h', tl)) (htyped : castTyped t r = true)
    (hnt : isTagKey s.world.pt (normKey k) = false) :
    builtin env (f+1) .cast name [kn, .strLit ty p2] np site s =
      .ok () (withPt s (s.world.pt.set (normKey k) ⟨r, t⟩ none)) := by
  rw [cast_by_engine env f name kn k ty p2 np site s v t a r h' tl hk hv hty hne ha hu htyped]
  apply setPt_field env k ⟨r, t⟩ s hnt
  cases t <;> cases r <;> simp [castTyped] at htyped ⊢

/-- the engine is asked exactly `castQuery …`: with no answer recorded the run stops there -/
theorem cast_asks_engine (f : Nat) (name : Bytes) (kn : Node) (k ty : Bytes) (p2 np : Pos) (site : Nat)
    (s : St) (v : TV) (t : DType)
    (hk : getKeyName kn = .ok k) (hv : getKey s k = some v)
    (hty : castKind ty = some t) (hne : ∀ i, t = .int → v.v ≠ .int i)
    (ha : env.oracle (castQuery t s.world.heap v.v) = none) :
    builtin env (f+1) .cast name [kn, .strLit ty p2] np site s = .need (castQuery t s.world.heap v.v) := by
  rw [cast_eq env f name kn k ty p2 np site hk]
  obtain ⟨vv, vt⟩ := v
  cases t <;> cases vv <;>
    first
    | exact absurd rfl (hne _ rfl)
    | simp [bind, EM.bind, getS, hv, hty, ask, ha]

/-- an answer that is not a value of the requested type is never stored: the run stops as
    unmodelled (the point is not written). -/
theorem cast_never_stores_wrong_type (f : Nat) (name : Bytes) (kn : Node) (k ty : Bytes) (p2 np : Pos) (site : Nat)
    (s : St) (v : TV) (t : DType) (a : Bytes) (r : Val) (h' : Heap) (tl : Bytes)
    (hk : getKeyName kn = .ok k) (hv : getKey s k = some v)
    (hty : castKind ty = some t) (hne : ∀ i, t = .int → v.v ≠ .int i)
    (ha : env.oracle (castQuery t s.world.heap v.v) = some a)
    (hu : unrender 8 [] (unhex (splitAnswer a).2) = some (r, h', tl)) (htyped : castTyped t r = false) :
    builtin env (f+1) .cast name [kn, .strLit ty p2] np site s = .need (B "unmodelled:cast-answer-type") := by
  rw [cast_eq env f name kn k ty p2 np site hk]
  obtain ⟨vv, vt⟩ := v
  cases t <;> cases vv <;>
    first
    | exact absurd rfl (hne _ rfl)
    | simp [bind, EM.bind, getS, hv, hty, ask_some env ha, hu, htyped, needE]

/-- the type names `cast` knows, case-insensitively; anything else is unknown -/
theorem castKind_names :
    castKind [105, 110, 116] = some .int ∧ castKind [73, 110, 84] = some .int ∧          -- "int", "InT"
    castKind [102, 108, 111, 97, 116] = some .float ∧                                    -- "float"
    castKind [98, 111, 111, 108] = some .bool ∧                                          -- "bool"
    castKind [115, 116, 114] = some .str ∧ castKind [115, 116, 114, 105, 110, 103] = some .str ∧   -- "str", "string"
    castKind [100, 111, 117, 98, 108, 101] = none ∧ castKind [] = none := by             -- "double", ""
  simp only [castKind_eq]
  decide

/-! ## 5. set_measurement -/

/-- `set_measurement(a0[, flag])` (at most two arguments): the first argument is *evaluated as an
    expression* (an identifier therefore reads the variable first, else the point — `evalNode_ident`);
    if its value is a string, the measurement becomes that string, any other value changes
    nothing (`setMeas`); with a literal `true` as second argument and an identifier/attribute as
    first, that key is then deleted from the point (`measDel`, `delKey`). -/
theorem set_measurement_value (f : Nat) (name : Bytes) (a0 : Node) (rest : List Node) (np : Pos) (site : Nat)
    (s s1 : St) (v : TV) (hr : rest.length ≤ 1) (he : evalNode env f a0 s = .ok v s1) :
    builtin env (f+1) .setMeasurement name (a0 :: rest) np site s =
      .ok () (delKey (measDel a0 rest) (setMeas v s1)) := by
  have hr' : ¬ rest.length > 1 := by omega
  have e : builtin env (f+1) .setMeasurement name (a0 :: rest) np site s =
      (match measDel a0 rest with
       | some k => .ok () (delKey (some k) (setMeas v s1))
       | none => .ok () (setMeas v s1)) := by
    simp only [builtin, hr', ↓reduceIte, he]
    rfl
  rw [e]
  cases measDel a0 rest <;> rfl

/-- an evaluation error of the first argument is swallowed: the call succeeds and writes nothing -/
theorem set_measurement_error_swallowed (f : Nat) (name : Bytes) (a0 : Node) (rest : List Node) (np : Pos) (site : Nat)
    (s s1 : St) (er : PlErr) (hr : rest.length ≤ 1) (he : evalNode env f a0 s = .err er s1) :
    builtin env (f+1) .setMeasurement name (a0 :: rest) np site s = .ok () s1 := by
  have hr' : ¬ rest.length > 1 := by omega
  simp only [builtin, hr', ↓reduceIte, he]

/-- an identifier evaluates to the subject of that name (variable first, else point), nil if absent -/
theorem evalNode_ident (f : Nat) (k : Bytes) (p : Pos) (s : St) :
    evalNode env (f+1) (.ident k p) s = .ok ((getKey s k).getD nilTV) s := by
  simp only [evalNode, bind, EM.bind, getS]
  cases getKey s k <;> rfl

/-- a string literal evaluates to itself -/
theorem evalNode_strLit (f : Nat) (m : Bytes) (p : Pos) (s : St) :
    evalNode env (f+1) (.strLit m p) s = .ok ⟨.str m, .str⟩ s := by
  simp [evalNode, pure, EM.pure]

/-- `set_measurement(k)`: the measurement becomes the subject's value if that is a string -/
theorem set_measurement_subject (f : Nat) (name k : Bytes) (p np : Pos) (site : Nat) (s : St) :
    builtin env (f+2) .setMeasurement name [.ident k p] np site s =
      .ok () (setMeas ((getKey s k).getD nilTV) s) :=
  set_measurement_value env (f+1) name _ [] np site s s _ (by simp) (evalNode_ident env f k p s)

/-- `set_measurement(k, true)`: … and the key `k` is deleted from the point -/
theorem set_measurement_subject_delete (f : Nat) (name k : Bytes) (p p2 np : Pos) (site : Nat) (s : St) :
    builtin env (f+2) .setMeasurement name [.ident k p, .boolLit true p2] np site s =
      .ok () (delKey (some k) (setMeas ((getKey s k).getD nilTV) s)) :=
  set_measurement_value env (f+1) name _ [_] np site s s _ (by simp) (evalNode_ident env f k p s)

/-- `set_measurement(k, false)` is `set_measurement(k)` -/
theorem set_measurement_subject_keep (f : Nat) (name k : Bytes) (p p2 np : Pos) (site : Nat) (s : St) :
    builtin env (f+2) .setMeasurement name [.ident k p, .boolLit false p2] np site s =
      .ok () (setMeas ((getKey s k).getD nilTV) s) :=
  set_measurement_value env (f+1) name _ [_] np site s s _ (by simp) (evalNode_ident env f k p s)

/-- `set_measurement("m")` and `set_measurement("m", true)`: the measurement becomes the literal;
    nothing is deleted (a literal names no key) -/
theorem set_measurement_literal (f : Nat) (name m : Bytes) (p p2 np : Pos) (site : Nat) (s : St) (b : Bool) :
    builtin env (f+2) .setMeasurement name [.strLit m p] np site s =
      .ok () { s with world := { s.world with pt := { s.world.pt with meas := m } } } ∧
    builtin env (f+2) .setMeasurement name [.strLit m p, .boolLit b p2] np site s =
      .ok () { s with world := { s.world with pt := { s.world.pt with meas := m } } } := by
  constructor
  · exact set_measurement_value env (f+1) name _ [] np site s s _ (by simp) (evalNode_strLit env f m p s)
  · have := set_measurement_value env (f+1) name _ [.boolLit b p2] np site s s _ (by simp) (evalNode_strLit env f m p s)
    rw [this]
    cases b <;> rfl

/-- a string value becomes the measurement; **any other value** (int, float, bool, nil, list, map:
    there is no conversion to a string form here) leaves the state as it is -/
theorem setMeas_cases (s : St) (m : Bytes) (v : TV) :
    setMeas ⟨.str m, .str⟩ s = { s with world := { s.world with pt := { s.world.pt with meas := m } } } ∧
    (v.t ≠ .str → setMeas v s = s) := by
  refine ⟨rfl, fun h => ?_⟩
  obtain ⟨vv, t⟩ := v
  cases t <;> first | rfl | exact absurd rfl h

/-- frame of set_measurement: task, heap, trace, time and drop flag are untouched; every key other
    than the deleted one reads as before (all keys when nothing is deleted) -/
theorem set_measurement_frame (v : TV) (d : Option Bytes) (s : St) :
    (delKey d (setMeas v s)).task = s.task ∧ (delKey d (setMeas v s)).world.heap = s.world.heap ∧
    (delKey d (setMeas v s)).world.trace = s.world.trace ∧
    (delKey d (setMeas v s)).world.pt.time = s.world.pt.time ∧
    (delKey d (setMeas v s)).world.pt.drop = s.world.pt.drop ∧
    ∀ k', (∀ k, d = some k → k' ≠ normKey k) → (delKey d (setMeas v s)).world.pt.get k' = s.world.pt.get k' := by
  have hm : (setMeas v s).task = s.task ∧ (setMeas v s).world.heap = s.world.heap ∧
      (setMeas v s).world.trace = s.world.trace ∧ (setMeas v s).world.pt.time = s.world.pt.time ∧
      (setMeas v s).world.pt.drop = s.world.pt.drop ∧ ∀ k', (setMeas v s).world.pt.get k' = s.world.pt.get k' := by
    obtain ⟨vv, t⟩ := v
    cases t <;> cases vv <;> exact ⟨rfl, rfl, rfl, rfl, rfl, fun _ => rfl⟩
  cases d with
  | none => exact ⟨hm.1, hm.2.1, hm.2.2.1, hm.2.2.2.1, hm.2.2.2.2.1, fun k' _ => hm.2.2.2.2.2 k'⟩
  | some k =>
    have hd := PtWrite.of_delete (normKey k) (setMeas v s)
    refine ⟨hm.1, hm.2.1, hm.2.2.1, ?_, ?_, fun k' hk' => ?_⟩
    · exact hd.time.trans hm.2.2.2.1
    · exact hd.drop.trans hm.2.2.2.2.1
    · exact (hd.other k' (hk' k rfl)).trans (hm.2.2.2.2.2 k')

/-! ## 6. len -/

/-- `len(e)` of a string: its length in bytes goes to the return register; nothing else changes
    beyond what evaluating `e` did -/
theorem len_string (f : Nat) (name : Bytes) (a0 : Node) (rest : List Node) (np : Pos) (site : Nat)
    (s s1 : St) (b : Bytes) (he : evalNode env f a0 s = .ok ⟨.str b, .str⟩ s1) :
    builtin env (f+1) .len name (a0 :: rest) np site s = .ok () (retSt ⟨.int b.length, .int⟩ s1) := by
  simp only [builtin, bind, EM.bind, he, getS]
  rfl

/-- `len(e)` of a list: the number of its elements -/
theorem len_list (f : Nat) (name : Bytes) (a0 : Node) (rest : List Node) (np : Pos) (site : Nat)
    (s s1 : St) (a : Nat) (xs : List Val) (he : evalNode env f a0 s = .ok ⟨.ref a, .list⟩ s1)
    (hh : s1.world.heap.get? a = some (.list xs)) :
    builtin env (f+1) .len name (a0 :: rest) np site s = .ok () (retSt ⟨.int xs.length, .int⟩ s1) := by
  simp only [builtin, bind, EM.bind, he, getS, hh]
  rfl

/-- `len(e)` of a map: the number of its entries -/
theorem len_map (f : Nat) (name : Bytes) (a0 : Node) (rest : List Node) (np : Pos) (site : Nat)
    (s s1 : St) (a : Nat) (kvs : List (Bytes × Val)) (he : evalNode env f a0 s = .ok ⟨.ref a, .map⟩ s1)
    (hh : s1.world.heap.get? a = some (.map kvs)) :
    builtin env (f+1) .len name (a0 :: rest) np site s = .ok () (retSt ⟨.int kvs.length, .int⟩ s1) := by
  simp only [builtin, bind, EM.bind, he, getS, hh]
  rfl

/-- `len(e)` of anything else (int, float, bool, nil, void — e.g. an absent identifier): 0 -/
theorem len_other (f : Nat) (name : Bytes) (a0 : Node) (rest : List Node) (np : Pos) (site : Nat)
    (s s1 : St) (v : TV) (he : evalNode env f a0 s = .ok v s1)
    (ht : v.t ≠ .str ∧ v.t ≠ .list ∧ v.t ≠ .map) :
    builtin env (f+1) .len name (a0 :: rest) np site s = .ok () (retSt ⟨.int 0, .int⟩ s1) := by
  obtain ⟨vv, t⟩ := v
  cases t <;> simp at ht <;> (simp only [builtin, bind, EM.bind, he, getS]; rfl)

/-- an evaluation error of the argument is the call's error -/
theorem len_arg_error (f : Nat) (name : Bytes) (a0 : Node) (rest : List Node) (np : Pos) (site : Nat)
    (s s1 : St) (er : PlErr) (he : evalNode env f a0 s = .err er s1) :
    builtin env (f+1) .len name (a0 :: rest) np site s = .err er s1 := by
  simp only [builtin, bind, EM.bind, he]

/-- `retSt` touches the return registers only: world (point, heap, trace), variables and flags stay -/
theorem retSt_frame (x : TV) (s : St) :
    (retSt x s).world = s.world ∧ (retSt x s).task.scopes = s.task.scopes ∧ (retSt x s).task.name = s.task.name ∧
    (retSt x s).task.exit = s.task.exit ∧ (s.task.regs = [] → (retSt x s).task.regs = [x]) := by
  refine ⟨rfl, rfl, rfl, rfl, fun h => ?_⟩
  simp [retSt, h]

/-! ## 7. load_json -/

/-- `load_json(e)`, the JSON engine accepts the text: the decoded value (the engine's rendered
    answer read back by `unrender`, which only *allocates* in the heap — `load_json_heap_grows`)
    goes to the return register; nothing else changes beyond what evaluating `e` did. -/
theorem load_json_ok (f : Nat) (name : Bytes) (a0 : Node) (rest : List Node) (np : Pos) (site : Nat)
    (s s1 : St) (txt a payload tl : Bytes) (r : Val) (h' : Heap)
    (he : evalNode env f a0 s = .ok ⟨.str txt, .str⟩ s1)
    (ha : env.oracle (jsonLoadQuery txt) = some a) (hok : splitAnswer a = (true, payload))
    (hu : unrender 4000 s1.world.heap (unhex payload) = some (r, h', tl)) :
    builtin env (f+1) .loadJson name (a0 :: rest) np site s =
      .ok () (retSt (detect h' r) (withHeap s1 h')) := by
  have ha' : env.oracle (B "jsonload:" ++ hexOf txt) = some a := ha
  simp only [builtin, bind, EM.bind, he]
  simp [EM.bind, ask_some env ha', hok, getS, hu, modWorld, modifyS, modTask, retSt, withHeap]
  rfl

/-- reading the answer back only allocates: the old heap is a prefix of the new one -/
theorem load_json_heap_grows (h h' : Heap) (bs tl : Bytes) (r : Val)
    (hu : unrender 4000 h bs = some (r, h', tl)) : ∃ l, h' = h ++ l :=
  (PanicProofs.unrender_ext_all 4000).1 _ _ _ _ _ hu

/-- **invalid JSON**: the engine rejects the text — a run error at the argument, state as after
    evaluating the argument (nothing returned, nothing written: never a fabricated value). -/
theorem load_json_invalid (f : Nat) (name : Bytes) (a0 : Node) (rest : List Node) (np : Pos) (site : Nat)
    (s s1 : St) (txt a x : Bytes)
    (he : evalNode env f a0 s = .ok ⟨.str txt, .str⟩ s1)
    (ha : env.oracle (jsonLoadQuery txt) = some a) (hno : splitAnswer a = (false, x)) :
    builtin env (f+1) .loadJson name (a0 :: rest) np site s =
      .err (PlErr.new s1.task.name (Node.start a0) "json-syntax") s1 := by
  have ha' : env.oracle (B "jsonload:" ++ hexOf txt) = some a := ha
  simp only [builtin, bind, EM.bind, he]
  simp [EM.bind, ask_some env ha', hno, runErr]

/-- an argument that is not a string is a run error -/
theorem load_json_not_string (f : Nat) (name : Bytes) (a0 : Node) (rest : List Node) (np : Pos) (site : Nat)
    (s s1 : St) (v : TV) (he : evalNode env f a0 s = .ok v s1) (ht : v.t ≠ .str) :
    builtin env (f+1) .loadJson name (a0 :: rest) np site s =
      .err (PlErr.new s1.task.name (Node.start a0) "load_json-type") s1 := by
  simp only [builtin, bind, EM.bind, he]
  simp [ht, runErr]

/-- an evaluation error of the argument is the call's error -/
theorem load_json_arg_error (f : Nat) (name : Bytes) (a0 : Node) (rest : List Node) (np : Pos) (site : Nat)
    (s s1 : St) (er : PlErr) (he : evalNode env f a0 s = .err er s1) :
    builtin env (f+1) .loadJson name (a0 :: rest) np site s = .err er s1 := by
  simp only [builtin, bind, EM.bind, he]

/-! ## 8. trim, uppercase, url_decode, replace -/

/-- trim / uppercase / url_decode, subject present with string form `c`, engine answers ok: the
    answer is stored under the *same key*, as a string (a field gets the string, an existing tag
    gets it as its text); nothing else changes.  The engine question is `strQuery fn rest c`. -/
theorem strfn_stores_result (f : Nat) (fn : Fn) (name : Bytes) (kn : Node) (rest : List Node) (k : Bytes)
    (np : Pos) (site : Nat) (s : St) (v : TV) (c a payload : Bytes)
    (hfn : fn = .trim ∨ fn = .uppercase ∨ fn = .urlDecode) (hk : getKeyName kn = .ok k)
    (hv : getKey s k = some v) (hc : conv2str env v s = .ok (some c) s)
    (ha : env.oracle (strQuery fn rest c) = some a) (hok : splitAnswer a = (true, payload)) :
    builtin env (f+1) fn name (kn :: rest) np site s =
      .ok () (withPt s (s.world.pt.set (normKey k) ⟨.str (unhex payload), .str⟩ (some (unhex payload)))) := by
  rw [strfn_eq env f fn name kn rest k np site hfn hk]
  simp [bind, EM.bind, getS, hv, hc, ask_some env ha, hok, setPt_str]

/-- **engine error** (an undecodable URL for url_decode): a run error at the call position; the
    state — in particular the point — is unchanged. -/
theorem strfn_engine_error (f : Nat) (fn : Fn) (name : Bytes) (kn : Node) (rest : List Node) (k : Bytes)
    (np : Pos) (site : Nat) (s : St) (v : TV) (c a x : Bytes)
    (hfn : fn = .trim ∨ fn = .uppercase ∨ fn = .urlDecode) (hk : getKeyName kn = .ok k)
    (hv : getKey s k = some v) (hc : conv2str env v s = .ok (some c) s)
    (ha : env.oracle (strQuery fn rest c) = some a) (hno : splitAnswer a = (false, x)) :
    builtin env (f+1) fn name (kn :: rest) np site s = .err (PlErr.new s.task.name np "engine-error") s := by
  rw [strfn_eq env f fn name kn rest k np site hfn hk]
  simp [bind, EM.bind, getS, hv, hc, ask_some env ha, hno, runErr]

/-- a subject without a string form (void/invalid, a list/map the JSON engine rejects): no-op -/
theorem strfn_no_text (f : Nat) (fn : Fn) (name : Bytes) (kn : Node) (rest : List Node) (k : Bytes)
    (np : Pos) (site : Nat) (s : St) (v : TV)
    (hfn : fn = .trim ∨ fn = .uppercase ∨ fn = .urlDecode) (hk : getKeyName kn = .ok k)
    (hv : getKey s k = some v) (hc : conv2str env v s = .ok none s) :
    builtin env (f+1) fn name (kn :: rest) np site s = .ok () s := by
  rw [strfn_eq env f fn name kn rest k np site hfn hk]
  simp [bind, EM.bind, getS, hv, hc, pure, EM.pure]

/-- an absent subject: no-op (for every key-name node and every further argument) -/
theorem strfn_subject_absent (f : Nat) (fn : Fn) (name : Bytes) (kn : Node) (rest : List Node) (k : Bytes)
    (np : Pos) (site : Nat) (s : St)
    (hfn : fn = .trim ∨ fn = .uppercase ∨ fn = .urlDecode) (hk : getKeyName kn = .ok k)
    (hv : getKey s k = none) :
    builtin env (f+1) fn name (kn :: rest) np site s = .ok () s := by
  rw [strfn_eq env f fn name kn rest k np site hfn hk]
  simp [bind, EM.bind, getS, hv, pure, EM.pure]

/-- the questions: trim sends its cut set (second argument if a string literal, else empty) and
    the subject text; uppercase and url_decode send the subject text -/
theorem strfn_questions (rest : List Node) (c cut : Bytes) (p : Pos) :
    strQuery .trim [] c = B "trim:" ++ hexOf [] ++ [58] ++ hexOf c ∧
    strQuery .trim [.strLit cut p] c = B "trim:" ++ hexOf cut ++ [58] ++ hexOf c ∧
    strQuery .uppercase rest c = B "upper:" ++ hexOf c ∧
    strQuery .urlDecode rest c = B "urldecode:" ++ hexOf c := by
  refine ⟨rfl, rfl, rfl, rfl⟩

/-- `trim(k, "")` is `trim(k)`: the empty cut set and the absent one put the same question -/
theorem trim_empty_cutset (f : Nat) (name : Bytes) (kn : Node) (k : Bytes) (p np : Pos) (site : Nat) (s : St)
    (hk : getKeyName kn = .ok k) :
    builtin env (f+1) .trim name [kn, .strLit [] p] np site s = builtin env (f+1) .trim name [kn] np site s := by
  rw [strfn_eq env f .trim name kn _ k np site (.inl rfl) hk, strfn_eq env f .trim name kn _ k np site (.inl rfl) hk]
  rfl

/-- url_decode with an engine that cannot decode the text, spelled out -/
theorem url_decode_undecodable (f : Nat) (name : Bytes) (kn : Node) (k : Bytes)
    (np : Pos) (site : Nat) (s : St) (b a x : Bytes) (hk : getKeyName kn = .ok k)
    (hv : getKey s k = some ⟨.str b, .str⟩)
    (ha : env.oracle (B "urldecode:" ++ hexOf b) = some a) (hno : splitAnswer a = (false, x)) :
    builtin env (f+1) .urlDecode name [kn] np site s = .err (PlErr.new s.task.name np "engine-error") s :=
  strfn_engine_error env f .urlDecode name kn [] k np site s _ b a x (.inr (.inr rfl)) hk hv (conv2str_str env b s) ha hno

/-- **bad regular expression**: `replace(k, "pat", "rep")` asks the regexp engine to compile the
    pattern *before* looking at the subject; a rejected pattern is a run error at the pattern
    argument, state unchanged — whether or not the subject exists. -/
theorem replace_bad_regex (f : Nat) (name : Bytes) (kn : Node) (k pat rep : Bytes) (p2 p3 np : Pos) (site : Nat)
    (s : St) (c : Bytes) (hk : getKeyName kn = .ok k)
    (hcmp : env.oracle (regexCompileQuery pat) = some c) (hbad : (splitAnswer c).1 = false) :
    builtin env (f+1) .replace name [kn, .strLit pat p2, .strLit rep p3] np site s =
      .err (PlErr.new s.task.name p2 "regex-compile") s := by
  rw [replace_eq env f name kn k pat rep p2 p3 np site hk]
  simp [bind, EM.bind, ask_some env hcmp, hbad, runErr]

/-- replace on an absent subject (pattern accepted): no-op -/
theorem replace_subject_absent (f : Nat) (name : Bytes) (kn : Node) (k pat rep : Bytes) (p2 p3 np : Pos) (site : Nat)
    (s : St) (c : Bytes) (hk : getKeyName kn = .ok k)
    (hcmp : env.oracle (regexCompileQuery pat) = some c) (hgood : (splitAnswer c).1 = true)
    (hv : getKey s k = none) :
    builtin env (f+1) .replace name [kn, .strLit pat p2, .strLit rep p3] np site s = .ok () s := by
  rw [replace_eq env f name kn k pat rep p2 p3 np site hk]
  simp [bind, EM.bind, ask_some env hcmp, hgood, getS, hv, pure, EM.pure]

/-- replace on a subject without string form: no-op -/
theorem replace_no_text (f : Nat) (name : Bytes) (kn : Node) (k pat rep : Bytes) (p2 p3 np : Pos) (site : Nat)
    (s : St) (c : Bytes) (v : TV) (hk : getKeyName kn = .ok k)
    (hcmp : env.oracle (regexCompileQuery pat) = some c) (hgood : (splitAnswer c).1 = true)
    (hv : getKey s k = some v) (hc : conv2str env v s = .ok none s) :
    builtin env (f+1) .replace name [kn, .strLit pat p2, .strLit rep p3] np site s = .ok () s := by
  rw [replace_eq env f name kn k pat rep p2 p3 np site hk]
  simp [bind, EM.bind, ask_some env hcmp, hgood, getS, hv, hc, pure, EM.pure]

/-- replace, pattern accepted, subject present with string form `c`: the regexp engine's result
    (`regexReplaceQuery pat rep c`) is stored under the same key as a string. -/
theorem replace_stores_result (f : Nat) (name : Bytes) (kn : Node) (k pat rep : Bytes) (p2 p3 np : Pos) (site : Nat)
    (s : St) (cmp : Bytes) (v : TV) (c a : Bytes) (hk : getKeyName kn = .ok k)
    (hcmp : env.oracle (regexCompileQuery pat) = some cmp) (hgood : (splitAnswer cmp).1 = true)
    (hv : getKey s k = some v) (hc : conv2str env v s = .ok (some c) s)
    (ha : env.oracle (regexReplaceQuery pat rep c) = some a) :
    builtin env (f+1) .replace name [kn, .strLit pat p2, .strLit rep p3] np site s =
      .ok () (withPt s (s.world.pt.set (normKey k) ⟨.str (unhex (splitAnswer a).2), .str⟩
        (some (unhex (splitAnswer a).2)))) := by
  rw [replace_eq env f name kn k pat rep p2 p3 np site hk]
  simp [bind, EM.bind, ask_some env hcmp, hgood, getS, hv, hc, ask_some env ha, setPt_str]

/-! ## 9. strfmt, printf -/

/-- `strfmt(k, "fmt", args…)`: the arguments are evaluated left to right (`evalList`, values `vs`,
    state `s1`); when none of the values contains itself (`selfArg … = none`; see
    `no_self_arg_iff`), the formatting engine is asked `sprintfQuery fmt heap vs`, and its result is
    stored under the destination key `k` as a string; nothing else changes. -/
theorem strfmt_stores_result (f : Nat) (name : Bytes) (kn : Node) (rest : List Node) (k fmts : Bytes) (p2 np : Pos)
    (site : Nat) (s s1 : St) (vs : List TV) (a : Bytes) (hk : getKeyName kn = .ok k)
    (he : evalList env f rest s = .ok vs s1)
    (hself : selfArg s1.world.heap rest vs = none)
    (ha : env.oracle (sprintfQuery fmts s1.world.heap vs) = some a) :
    builtin env (f+1) .strfmt name (kn :: .strLit fmts p2 :: rest) np site s =
      .ok () (withPt s1 (s1.world.pt.set (normKey k) ⟨.str (unhex (splitAnswer a).2), .str⟩
        (some (unhex (splitAnswer a).2)))) := by
  rw [strfmt_eq env f name kn rest k fmts p2 np site hk]
  simp [bind, EM.bind, he, getS, hself, ask_some env ha, setPt_str]

/-- **strfmt of a value that contains itself** (`a[0] = a`): when some evaluated argument's value
    contains itself — `n` the *first* such argument, `x` its value (`first_self_arg`) — the call
    ends with a run error positioned at the start of `n`; the state is the state after evaluating
    the arguments (the point is not written, nothing is printed).  There is no hypothesis about the
    engines: none is asked (`strfmt_contains_itself_no_engine`). -/
theorem strfmt_contains_itself (f : Nat) (name : Bytes) (kn : Node) (rest : List Node) (k fmts : Bytes) (p2 np : Pos)
    (site : Nat) (s s1 : St) (vs : List TV) (n : Node) (x : TV) (hk : getKeyName kn = .ok k)
    (he : evalList env f rest s = .ok vs s1)
    (hself : selfArg s1.world.heap rest vs = some (n, x)) :
    builtin env (f+1) .strfmt name (kn :: .strLit fmts p2 :: rest) np site s =
      .err (PlErr.new s1.task.name (Node.start n) "formats-a-value-that-contains-itself") s1 := by
  rw [strfmt_eq env f name kn rest k fmts p2 np site hk]
  simp [bind, EM.bind, he, getS, hself, runErr]

/-- … in particular the call never stops at a question to an engine, whatever the engines know -/
theorem strfmt_contains_itself_no_engine (f : Nat) (name : Bytes) (kn : Node) (rest : List Node) (k fmts : Bytes)
    (p2 np : Pos) (site : Nat) (s s1 : St) (vs : List TV) (n : Node) (x : TV) (hk : getKeyName kn = .ok k)
    (he : evalList env f rest s = .ok vs s1)
    (hself : selfArg s1.world.heap rest vs = some (n, x)) (q : Bytes) :
    builtin env (f+1) .strfmt name (kn :: .strLit fmts p2 :: rest) np site s ≠ .need q := by
  rw [strfmt_contains_itself env f name kn rest k fmts p2 np site s s1 vs n x hk he hself]
  intro h; cases h

/-- the hypothesis of the positive contracts, spelled out: after `evalList` (one value per
    argument) `selfArg` finds nothing exactly when no evaluated value contains itself -/
theorem no_self_arg_iff (f : Nat) (rest : List Node) (s s1 : St) (vs : List TV)
    (he : evalList env f rest s = .ok vs s1) (h : Heap) :
    selfArg h rest vs = none ↔ ∀ x ∈ vs, containsItself h x.v = false :=
  selfArg_none_iff (evalList_length env rest f s s1 vs he)

/-- the hypothesis of the error contracts, spelled out: `selfArg` finds the pair `(n, x)` exactly
    when for some position `i`, `n` is the `i`-th argument, `x` the `i`-th value, `x` contains
    itself, and no earlier value does -/
theorem first_self_arg (h : Heap) (rest : List Node) (vs : List TV) (n : Node) (x : TV) :
    selfArg h rest vs = some (n, x) ↔
      ∃ i : Nat, rest[i]? = some n ∧ vs[i]? = some x ∧ containsItself h x.v = true ∧
        ∀ (j : Nat) (y : TV), j < i → vs[j]? = some y → containsItself h y.v = false :=
  selfArg_some_iff

/-- strfmt: an argument evaluation error is the call's error; the point is not written -/
theorem strfmt_arg_error (f : Nat) (name : Bytes) (kn : Node) (rest : List Node) (k fmts : Bytes) (p2 np : Pos)
    (site : Nat) (s s1 : St) (er : PlErr) (hk : getKeyName kn = .ok k)
    (he : evalList env f rest s = .err er s1) :
    builtin env (f+1) .strfmt name (kn :: .strLit fmts p2 :: rest) np site s = .err er s1 := by
  rw [strfmt_eq env f name kn rest k fmts p2 np site hk]
  simp [bind, EM.bind, he]

/-- `printf(fmt, args…)` with a non-empty string format, none of the evaluated values containing
    itself: the engine's result is appended to the trace as standard output (`Event.out`); nothing
    else changes beyond what evaluating did. -/
theorem printf_prints (f : Nat) (name : Bytes) (a0 : Node) (rest : List Node) (np : Pos) (site : Nat)
    (s s1 s2 : St) (fmts : Bytes) (vs : List TV) (a : Bytes)
    (h0 : evalNode env f a0 s = .ok ⟨.str fmts, .str⟩ s1) (hne : fmts ≠ [])
    (he : evalList env f rest s1 = .ok vs s2)
    (hself : selfArg s2.world.heap rest vs = none)
    (ha : env.oracle (sprintfQuery fmts s2.world.heap vs) = some a) :
    builtin env (f+1) .printf name (a0 :: rest) np site s = .ok () (outSt (unhex (splitAnswer a).2) s2) := by
  have ha' : env.oracle (B "sprintf:" ++ hexOf fmts ++ [58] ++
      (vs.foldl (fun (acc : Bytes) (x : TV) => acc ++ renderV s2.world.heap x.v ++ [59]) [])) = some a := ha
  have hself' : (rest.zip vs).find? (fun (nx : Node × TV) => containsItself s2.world.heap nx.2.v) = none := hself
  have hne' : fmts.isEmpty = false := by cases fmts <;> simp_all
  simp only [builtin, h0, hne']
  simp only [bind, EM.bind, he, getS, hself', ask_some env ha', modWorld, modifyS, outSt]
  simp

/-- **printf of a value that contains itself**: with a non-empty string format, when some evaluated
    further argument's value contains itself — `n` the *first* such argument, `x` its value
    (`first_self_arg`) — the call ends with a run error positioned at the start of `n`; the state is
    the state after evaluating the arguments: nothing is printed, the point is untouched.  No engine
    is asked (no hypothesis about the oracle; `printf_contains_itself_no_engine`). -/
theorem printf_contains_itself (f : Nat) (name : Bytes) (a0 : Node) (rest : List Node) (np : Pos) (site : Nat)
    (s s1 s2 : St) (fmts : Bytes) (vs : List TV) (n : Node) (x : TV)
    (h0 : evalNode env f a0 s = .ok ⟨.str fmts, .str⟩ s1) (hne : fmts ≠ [])
    (he : evalList env f rest s1 = .ok vs s2)
    (hself : selfArg s2.world.heap rest vs = some (n, x)) :
    builtin env (f+1) .printf name (a0 :: rest) np site s =
      .err (PlErr.new s2.task.name (Node.start n) "formats-a-value-that-contains-itself") s2 := by
  have hself' : (rest.zip vs).find? (fun (nx : Node × TV) => containsItself s2.world.heap nx.2.v) = some (n, x) := hself
  have hne' : fmts.isEmpty = false := by cases fmts <;> simp_all
  simp only [builtin, h0, hne']
  simp [bind, EM.bind, he, getS, hself', runErr]

/-- … in particular the call never stops at a question to an engine, whatever the engines know -/
theorem printf_contains_itself_no_engine (f : Nat) (name : Bytes) (a0 : Node) (rest : List Node) (np : Pos)
    (site : Nat) (s s1 s2 : St) (fmts : Bytes) (vs : List TV) (n : Node) (x : TV)
    (h0 : evalNode env f a0 s = .ok ⟨.str fmts, .str⟩ s1) (hne : fmts ≠ [])
    (he : evalList env f rest s1 = .ok vs s2)
    (hself : selfArg s2.world.heap rest vs = some (n, x)) (q : Bytes) :
    builtin env (f+1) .printf name (a0 :: rest) np site s ≠ .need q := by
  rw [printf_contains_itself env f name a0 rest np site s s1 s2 fmts vs n x h0 hne he hself]
  intro h; cases h

/-- printf: an evaluation error of a *further* argument is the call's error; nothing is printed -/
theorem printf_arg_error (f : Nat) (name : Bytes) (a0 : Node) (rest : List Node) (np : Pos) (site : Nat)
    (s s1 s2 : St) (fmts : Bytes) (er : PlErr)
    (h0 : evalNode env f a0 s = .ok ⟨.str fmts, .str⟩ s1) (hne : fmts ≠ [])
    (he : evalList env f rest s1 = .err er s2) :
    builtin env (f+1) .printf name (a0 :: rest) np site s = .err er s2 := by
  have hne' : fmts.isEmpty = false := by cases fmts <;> simp_all
  simp only [builtin, h0, hne']
  simp [bind, EM.bind, he]

/-- printf: an evaluation error of the *format* argument, a format that is not a string, or an
    empty format print nothing; the call succeeds (the error is swallowed) -/
theorem printf_prints_nothing (f : Nat) (name : Bytes) (a0 : Node) (rest : List Node) (np : Pos) (site : Nat)
    (s s1 : St) :
    (∀ er, evalNode env f a0 s = .err er s1 → builtin env (f+1) .printf name (a0 :: rest) np site s = .ok () s1) ∧
    (∀ v, evalNode env f a0 s = .ok v s1 → v.t ≠ .str → builtin env (f+1) .printf name (a0 :: rest) np site s = .ok () s1) ∧
    (evalNode env f a0 s = .ok ⟨.str [], .str⟩ s1 → builtin env (f+1) .printf name (a0 :: rest) np site s = .ok () s1) := by
  refine ⟨fun er h => ?_, fun v h ht => ?_, fun h => ?_⟩
  · simp only [builtin, h]
  · obtain ⟨vv, t⟩ := v
    cases t <;> first | exact absurd rfl ht | simp only [builtin, h]
  · simp only [builtin, h]
    rfl

/-- trim / uppercase / url_decode on a *string* subject `b`: the engine is asked about `b` itself -/
theorem strfn_string_subject (f : Nat) (fn : Fn) (name : Bytes) (kn : Node) (rest : List Node) (k : Bytes)
    (np : Pos) (site : Nat) (s : St) (b a payload : Bytes)
    (hfn : fn = .trim ∨ fn = .uppercase ∨ fn = .urlDecode) (hk : getKeyName kn = .ok k)
    (hv : getKey s k = some ⟨.str b, .str⟩)
    (ha : env.oracle (strQuery fn rest b) = some a) (hok : splitAnswer a = (true, payload)) :
    builtin env (f+1) fn name (kn :: rest) np site s =
      .ok () (withPt s (s.world.pt.set (normKey k) ⟨.str (unhex payload), .str⟩ (some (unhex payload)))) :=
  strfn_stores_result env f fn name kn rest k np site s _ b a payload hfn hk hv (conv2str_str env b s) ha hok

/-! ## the point store, and the return value of a call -/

/-- the point store in general: with `cs` the string form of the value, it is one `Point.set`
    under the normalised key; nothing else changes -/
theorem point_store (key : Bytes) (x : TV) (s : St) (cs : Option Bytes) (hc : conv2str env x s = .ok cs s) :
    setPt env key x s = .ok () (withPt s (s.world.pt.set (normKey key) x cs)) :=
  setPt_conv env hc

/-- "return value": what a builtin leaves in the first return register is the value of the call
    expression, and the registers are empty afterwards.  (`len` and `load_json` return through
    `retSt`; with the registers empty before — they always are, `return_register_cleared` — the
    first register is the returned value.) -/
theorem call_returns_register (f : Nat) (fn : Fn) (name : Bytes) (args : List Node) (np : Pos) (site : Nat)
    (s s1 : St) (x : TV) (hreg : env.fns.contains name = true) (hfn : Fn.ofName name = some fn)
    (hregs : s1.task.regs = [])
    (hrun : builtin env f fn name args np site s = .ok () (retSt x s1)) :
    evalCall env (f+1) name args np site s = .ok x s1 := by
  have h1 : (retSt x s1).task.regs = [x] := by simp [retSt, hregs]
  simp only [evalCall, hreg, hfn, hrun, h1]
  simp only [Bool.not_true, Bool.false_eq_true, ↓reduceIte, retSt, hregs]
  obtain ⟨⟨n, sc, b, c, e, r⟩, w⟩ := s1
  simp at hregs
  subst hregs
  rfl

/-! ## the string form (`Conv2String`) used by set_tag, trim, uppercase, url_decode, replace and by
    the point store for tags and lists/maps -/

/-- strings, ints, bools and nil have their string form without any engine; a float's is the
    float-text engine's answer to `fmtfQuery bits`; a list's or map's is the JSON engine's answer
    to `jsonQuery heap value` — or *none* when that engine reports an error; void and invalid
    values have none.  The state never changes (`conv2str_state`). -/
theorem string_form (s : St) (b : Bytes) (i : Int) (bits : UInt64) (v : Val) (a : Bytes) :
    conv2str env ⟨.str b, .str⟩ s = .ok (some b) s ∧
    conv2str env ⟨.int i, .int⟩ s = .ok (some (decInt i)) s ∧
    conv2str env ⟨v, .nil⟩ s = .ok (some []) s ∧
    conv2str env ⟨v, .void⟩ s = .ok none s ∧ conv2str env ⟨v, .invalid⟩ s = .ok none s ∧
    (env.oracle (fmtfQuery bits) = some a →
      conv2str env ⟨.float bits, .float⟩ s = .ok (some (unhex (splitAnswer a).2)) s) ∧
    (env.oracle (jsonQuery s.world.heap v) = some a →
      conv2str env ⟨v, .list⟩ s = .ok (if (splitAnswer a).1 then some (unhex (splitAnswer a).2) else none) s ∧
      conv2str env ⟨v, .map⟩ s = .ok (if (splitAnswer a).1 then some (unhex (splitAnswer a).2) else none) s) := by
  refine ⟨conv2str_str env b s, conv2str_int env i s, ?_, ?_, ?_, fun ha => ?_, fun ha => ⟨?_, ?_⟩⟩
  · simp [conv2str, pure, EM.pure]
  · simp [conv2str, pure, EM.pure]
  · simp [conv2str, pure, EM.pure]
  · have ha' : env.oracle (B "fmtf:" ++ decNat bits.toNat) = some a := ha
    simp [conv2str, castToString, Functor.map, bind, EM.bind, ask, ha', pure, EM.pure]
  · have ha' : env.oracle (B "json:" ++ renderV s.world.heap v) = some a := ha
    simp [conv2str, bind, EM.bind, getS, ask, ha', pure, EM.pure]
  · have ha' : env.oracle (B "json:" ++ renderV s.world.heap v) = some a := ha
    simp [conv2str, bind, EM.bind, getS, ask, ha', pure, EM.pure]

/-! ## 10. frame: every other key is untouched -/

/-- the point store writes at most its key: whenever it succeeds, the state afterwards differs
    from the one before at most in the point, every key other than the (normalised) destination
    reads the same, and measurement, time and drop flag are the same -/
theorem setPt_frame (key : Bytes) (x : TV) (s s' : St) (h : setPt env key x s = .ok () s') :
    PtWrite (normKey key) s s' := Writes.setPt env key x s s' h

/-- the same for the tag store -/
theorem setPtTag_frame (key : Bytes) (x : TV) (s s' : St) (h : setPtTag env key x s = .ok () s') :
    PtWrite (normKey key) s s' := Writes.setPtTag env key x s s' h

/-- the calls whose only arguments besides literals are the subject/destination key `k`:
    `add_key(k)`, `set_tag(k)`, `cast(k, "type")`, `trim(k, …)`, `uppercase(k, …)`,
    `url_decode(k, …)`, `replace(k, "pat", "rep")` -/
inductive KeyWriter (k : Bytes) : Fn → List Node → Prop
  | addKey (kn : Node) (h : getKeyName kn = .ok k) : KeyWriter k .addKey [kn]
  | setTag (kn : Node) (h : getKeyName kn = .ok k) : KeyWriter k .setTag [kn]
  | cast (kn : Node) (ty : Bytes) (p : Pos) (h : getKeyName kn = .ok k) : KeyWriter k .cast [kn, .strLit ty p]
  | trim (kn : Node) (rest : List Node) (h : getKeyName kn = .ok k) : KeyWriter k .trim (kn :: rest)
  | uppercase (kn : Node) (rest : List Node) (h : getKeyName kn = .ok k) : KeyWriter k .uppercase (kn :: rest)
  | urlDecode (kn : Node) (rest : List Node) (h : getKeyName kn = .ok k) : KeyWriter k .urlDecode (kn :: rest)
  | replace (kn : Node) (pat rep : Bytes) (p2 p3 : Pos) (h : getKeyName kn = .ok k) :
      KeyWriter k .replace [kn, .strLit pat p2, .strLit rep p3]

theorem writes_castInner (k : Bytes) (t : DType) (h : Heap) (v : Val) :
    Writes (normKey k) (do
      let a ← ask env (castQuery t h v)
      match unrender 8 [] (unhex (splitAnswer a).2) with
      | some (r, _, _) =>
        if castTyped t r then setPt env k ⟨r, t⟩ else needE (B "unmodelled:cast-answer-type")
      | none => needE (B "unmodelled:cast-answer")) := by
  apply Writes.bind (ReadOnly.ask env _)
  intro a
  split
  · split
    · exact Writes.setPt env _ _
    · exact Writes.needE _ _
  · exact Writes.needE _ _

theorem writes_strfn (fn : Fn) (rest : List Node) (k : Bytes) (np : Pos) (v : TV) :
    Writes (normKey k) (do
      match (← conv2str env v) with
      | none => pure ()
      | some cont =>
        let a ← ask env (strQuery fn rest cont)
        let (ok, payload) := splitAnswer a
        if ok then setPt env k ⟨.str (unhex payload), .str⟩
        else runErr np "engine-error") := by
  apply Writes.bind (ReadOnly.conv2str env _)
  intro c
  cases c with
  | none => exact Writes.pure _
  | some cont =>
    apply Writes.bind (ReadOnly.ask env _)
    intro a
    show Writes _ (if (splitAnswer a).1 then _ else _)
    split
    · exact Writes.setPt env _ _
    · exact Writes.runErr _ _ _

/-- **frame theorem.**  Whenever one of the key-writing calls succeeds — whatever the subject,
    the oracle answers, the fuel — the state afterwards differs from the state before at most in
    the point and there at most under the key `normKey k`: every other point key `k'` reads the
    same (`Point.get`), measurement, time and drop flag are unchanged, and so are the variables,
    flags and registers, the heap, the trace and the counters. -/
theorem key_writers_frame (f : Nat) (fn : Fn) (name : Bytes) (args : List Node) (k : Bytes) (np : Pos) (site : Nat)
    (s s' : St) (hw : KeyWriter k fn args) (hrun : builtin env (f+1) fn name args np site s = .ok () s') :
    PtWrite (normKey k) s s' := by
  revert hrun
  suffices h : Writes (normKey k) (builtin env (f+1) fn name args np site) from h s s'
  cases hw with
  | addKey kn hk =>
    rw [addKey1_eq env f name kn k np site hk]
    apply Writes.bind ReadOnly.getS
    intro s0
    cases getKey s0 k with
    | none => exact Writes.pure _
    | some v => exact Writes.setPt env _ _
  | setTag kn hk =>
    rw [setTag1_eq env f name kn k np site hk]
    apply Writes.bind ReadOnly.getS
    intro s0
    cases getKey s0 k with
    | none => exact Writes.setPtTag env _ _
    | some v => exact Writes.setPtTag env _ _
  | cast kn ty p hk =>
    rw [cast_eq env f name kn k ty p np site hk]
    apply Writes.bind ReadOnly.getS
    intro s0
    cases getKey s0 k with
    | none => exact Writes.pure _
    | some v =>
      cases castKind ty with
      | none => exact Writes.setPt env _ _
      | some t =>
        obtain ⟨vv, vt⟩ := v
        cases t <;> cases vv <;>
          first
          | exact Writes.setPt env _ _
          | exact writes_castInner env k _ _ _
  | trim kn rest hk =>
    rw [strfn_eq env f .trim name kn rest k np site (.inl rfl) hk]
    apply Writes.bind ReadOnly.getS
    intro s0
    cases getKey s0 k with
    | none => exact Writes.pure _
    | some v => exact writes_strfn env _ rest k np v
  | uppercase kn rest hk =>
    rw [strfn_eq env f .uppercase name kn rest k np site (.inr (.inl rfl)) hk]
    apply Writes.bind ReadOnly.getS
    intro s0
    cases getKey s0 k with
    | none => exact Writes.pure _
    | some v => exact writes_strfn env _ rest k np v
  | urlDecode kn rest hk =>
    rw [strfn_eq env f .urlDecode name kn rest k np site (.inr (.inr rfl)) hk]
    apply Writes.bind ReadOnly.getS
    intro s0
    cases getKey s0 k with
    | none => exact Writes.pure _
    | some v => exact writes_strfn env _ rest k np v
  | replace kn pat rep p2 p3 hk =>
    rw [replace_eq env f name kn k pat rep p2 p3 np site hk]
    apply Writes.bind (ReadOnly.ask env _)
    intro c
    split
    · exact Writes.runErr _ _ _
    · apply Writes.bind ReadOnly.getS
      intro s0
      cases getKey s0 k with
      | none => exact Writes.pure _
      | some v =>
        apply Writes.bind (ReadOnly.conv2str env _)
        intro c
        cases c with
        | none => exact Writes.pure _
        | some cont =>
          apply Writes.bind (ReadOnly.ask env _)
          intro a
          exact Writes.setPt env _ _

/-- frame of `add_key(k, e)`: relative to the state after evaluating `e`, at most the key `k` of
    the point is written -/
theorem add_key_value_frame (f : Nat) (name : Bytes) (kn e : Node) (k : Bytes) (np : Pos) (site : Nat)
    (s s1 s' : St) (v : TV) (hk : getKeyName kn = .ok k) (he : evalNode env f e s = .ok v s1)
    (hrun : builtin env (f+1) .addKey name [kn, e] np site s = .ok () s') : PtWrite (normKey k) s1 s' := by
  rw [add_key_value env f name kn e k np site s s1 v hk he] at hrun
  exact setPt_frame env k v s1 s' hrun

/-- frame of `set_tag(k, e)` -/
theorem set_tag_value_frame (f : Nat) (name : Bytes) (kn e : Node) (k : Bytes) (np : Pos) (site : Nat)
    (s s1 s' : St) (v : TV) (hk : getKeyName kn = .ok k) (he : evalNode env f e s = .ok v s1)
    (hrun : builtin env (f+1) .setTag name [kn, e] np site s = .ok () s') : PtWrite (normKey k) s1 s' := by
  rw [set_tag_value env f name kn e k np site s s1 v hk he] at hrun
  exact setPtTag_frame env k v s1 s' hrun

/-- frame of `strfmt(k, "fmt", args…)`: relative to the state after evaluating the arguments, at
    most the destination key `k` of the point is written -/
theorem strfmt_frame (f : Nat) (name : Bytes) (kn : Node) (rest : List Node) (k fmts : Bytes) (p2 np : Pos)
    (site : Nat) (s s1 s' : St) (vs : List TV) (hk : getKeyName kn = .ok k)
    (he : evalList env f rest s = .ok vs s1)
    (hrun : builtin env (f+1) .strfmt name (kn :: .strLit fmts p2 :: rest) np site s = .ok () s') :
    PtWrite (normKey k) s1 s' := by
  rw [strfmt_eq env f name kn rest k fmts p2 np site hk] at hrun
  simp only [bind, EM.bind, he, getS] at hrun
  cases hself : selfArg s1.world.heap rest vs with
  | some nx => simp [hself, runErr] at hrun
  | none =>
    simp only [hself, EM.bind] at hrun
    split at hrun <;> try (simp at hrun)
    rename_i a s2 h2
    have := ask_state env h2
    subst this
    exact setPt_frame env k _ _ s' hrun

/-- what `PtWrite` says, spelled out for the point -/
theorem frame_spelled_out (k : Bytes) (s s' : St) (h : PtWrite k s s') :
    (∀ k', k' ≠ k → s'.world.pt.get k' = s.world.pt.get k') ∧
    s'.world.pt.meas = s.world.pt.meas ∧ s'.world.pt.time = s.world.pt.time ∧
    s'.world.pt.drop = s.world.pt.drop ∧ s'.task = s.task ∧ s'.world.heap = s.world.heap ∧
    s'.world.trace = s.world.trace :=
  ⟨h.other, h.meas, h.time, h.drop, h.task, h.heap, h.trace⟩

end

/-! ## 11. non-vacuity: concrete runs of the model (kernel-evaluated) -/

namespace Ex1
def k : Bytes := [107]                         -- "k"
def k2 : Bytes := [107, 50]                    -- "k2"
def hello : Bytes := [104, 101, 108, 108, 111] -- "hello"
def lenName : Bytes := [108, 101, 110]         -- "len"
def p0 : Pos := ⟨0, 1, 1⟩
def pt : Point := Point.init [109] [] [(k, .str hello)] 7
def st : St := { task := { name := [], scopes := [[]] }, world := { pt := pt } }
/-- `len` is registered; no engine answers are needed -/
def env : Env :=
  { bound := fun _ => none, fns := [lenName], sigK := none, hasSignal := false, mapOrder := fun _ => 0,
    oracle := fun _ => none }
end Ex1

/-- `add_key(k2, len(k))` on a point whose field `k` is the string "hello": afterwards `k2` reads
    the *int* 5, `k` still reads "hello", measurement and time are as before, and the return
    registers are empty (the register `len` used was reset by the call expression). -/
theorem example_add_key_len :
    (match builtin Ex1.env 6 .addKey [] [.ident Ex1.k2 Ex1.p0, .call Ex1.lenName [.ident Ex1.k Ex1.p0] Ex1.p0 Ex1.p0 Ex1.p0 1]
        Ex1.p0 0 Ex1.st with
     | .ok _ s' => some (s'.world.pt.get Ex1.k2, s'.world.pt.get Ex1.k, s'.world.pt.meas, s'.world.pt.time, s'.task.regs)
     | _ => none)
    = some (some ⟨.int 5, .int⟩, some ⟨.str Ex1.hello, .str⟩, [109], 7, []) := by decide +kernel

namespace Ex2
def f1 : Bytes := [102, 49]                  -- "f1"
def other : Bytes := [111]                   -- "o"
def bits : UInt64 := 4615739258092021350     -- the float 3.7
def intName : Bytes := [73, 110, 116]        -- "Int" (type names are case-insensitive)
def p0 : Pos := ⟨0, 1, 1⟩
def pt : Point := Point.init [109] [] [(f1, .float bits), (other, .int 9)] 7
def st : St := { task := { name := [], scopes := [[]] }, world := { pt := pt } }
/-- the conversion engine answers `i3` (the int 3) to the question `cast:int:d<bits of 3.7>` -/
def oracle (q : Bytes) : Option Bytes :=
  if q = castQuery .int [] (.float bits) then some ([111, 107, 58] ++ hexOf [105, 51]) else none
def env : Env :=
  { bound := fun _ => none, fns := [], sigK := none, hasSignal := false, mapOrder := fun _ => 0, oracle := oracle }
end Ex2

/-- `cast(f1, "Int")` on a point whose field `f1` is the float 3.7, with a conversion engine that
    answers 3: afterwards `f1` reads the *int* 3; the other field, measurement and time are as
    before. -/
theorem example_cast_float_to_int :
    (match builtin Ex2.env 1 .cast [] [.ident Ex2.f1 Ex2.p0, .strLit Ex2.intName Ex2.p0] Ex2.p0 0 Ex2.st with
     | .ok _ s' => some (s'.world.pt.get Ex2.f1, s'.world.pt.get Ex2.other, s'.world.pt.meas, s'.world.pt.time, s'.task.regs)
     | _ => none)
    = some (some ⟨.int 3, .int⟩, some ⟨.int 9, .int⟩, [109], 7, []) := by decide +kernel

namespace Ex3
def k : Bytes := [107]                       -- "k"
def bad : Bytes := [37, 122, 122]            -- "%zz"
def p0 : Pos := ⟨0, 1, 1⟩
def pt : Point := Point.init [109] [] [(k, .str bad)] 7
def st : St := { task := { name := [110], scopes := [[]] }, world := { pt := pt } }
/-- the URL engine cannot decode `%zz`: it answers `err:` -/
def oracle (q : Bytes) : Option Bytes :=
  if q = strQuery .urlDecode [] bad then some ([101, 114, 114, 58] ++ hexOf [98, 97, 100]) else none
def env : Env :=
  { bound := fun _ => none, fns := [], sigK := none, hasSignal := false, mapOrder := fun _ => 0, oracle := oracle }
end Ex3

/-- `url_decode(k)` on the undecodable text "%zz": a run error at the call position; the point is
    exactly the point before (no fabricated value), the registers are empty. -/
theorem example_url_decode_error :
    (match builtin Ex3.env 1 .urlDecode [] [.ident Ex3.k Ex3.p0] Ex3.p0 0 Ex3.st with
     | .err e s' => some (e, s'.world.pt, s'.task.regs)
     | _ => none)
    = some (PlErr.new [110] Ex3.p0 "engine-error", Ex3.pt, []) := by decide +kernel

namespace Ex4
def k : Bytes := [107]                       -- "k"
def a : Bytes := [97]                        -- "a"
def fmt : Bytes := [37, 118]                 -- "%v"
def p0 : Pos := ⟨0, 1, 1⟩
def pa : Pos := ⟨12, 1, 13⟩                  -- where the argument `a` starts
/-- list 0 holds a reference to itself (`a[0] = a`) -/
def heapSelf : Heap := [Obj.list [.ref 0]]
/-- list 0 holds the int 1 -/
def heapFlat : Heap := [Obj.list [.int 1]]
def pt : Point := Point.init [109] [] [(k, .int 9)] 7
def st (h : Heap) : St :=
  { task := { name := [110], scopes := [[(a, ⟨.ref 0, .list⟩)]] }, world := { heap := h, pt := pt } }
/-- no engine answers anything -/
def envNone : Env :=
  { bound := fun _ => none, fns := [], sigK := none, hasSignal := false, mapOrder := fun _ => 0, oracle := fun _ => none }
/-- the formatting engine answers "ok:" ++ hex "[1]" to the question about the flat list -/
def oracle (q : Bytes) : Option Bytes :=
  if q = sprintfQuery fmt heapFlat [⟨.ref 0, .list⟩] then some ([111, 107, 58] ++ hexOf [91, 49, 93]) else none
def env : Env :=
  { bound := fun _ => none, fns := [], sigK := none, hasSignal := false, mapOrder := fun _ => 0, oracle := oracle }
def args : List Node := [.ident k p0, .strLit fmt p0, .ident a pa]
end Ex4

/-- a list that holds a reference to itself contains itself … -/
example : containsItself Ex4.heapSelf (.ref 0) = true := by decide
/-- … a list of ints does not -/
example : containsItself Ex4.heapFlat (.ref 0) = false := by decide
/-- the rendering `[^0]`: the back reference is the byte `^` -/
example : renderV Ex4.heapSelf (.ref 0) = [91, 94, 48, 93] := by decide +kernel

/-- the first argument whose value contains itself is selected, with its position -/
example : (selfArg Ex4.heapSelf [.ident Ex4.k Ex4.p0, .ident Ex4.a Ex4.pa] [⟨.int 3, .int⟩, ⟨.ref 0, .list⟩]).map
    (fun nx => (Node.start nx.1, nx.2)) = some (Ex4.pa, ⟨.ref 0, .list⟩) := by decide +kernel
example : selfArg Ex4.heapFlat [.ident Ex4.a Ex4.pa] [⟨.ref 0, .list⟩] = none := by decide +kernel

/-- `strfmt(k, "%v", a)` with `a[0] = a`, *no* engine answering anything: a run error at the start
    of the argument `a`; point, trace and heap are as before. -/
theorem example_strfmt_contains_itself :
    (match builtin Ex4.envNone 3 .strfmt [] Ex4.args Ex4.p0 0 (Ex4.st Ex4.heapSelf) with
     | .err e s' => some (e, s'.world.pt, s'.world.trace, s'.world.heap)
     | _ => none)
    = some (PlErr.new [110] Ex4.pa "formats-a-value-that-contains-itself", Ex4.pt, [], Ex4.heapSelf) := by decide +kernel

/-- the same call with `a = [1]` (hypothesis `selfArg … = none` holds): the engine's text is stored -/
theorem example_strfmt_flat :
    (match builtin Ex4.env 3 .strfmt [] Ex4.args Ex4.p0 0 (Ex4.st Ex4.heapFlat) with
     | .ok _ s' => some (s'.world.pt.get Ex4.k, s'.world.trace)
     | _ => none)
    = some (some ⟨.str [91, 49, 93], .str⟩, []) := by decide +kernel

/-- `printf("%v", a)` with `a[0] = a`, no engine: a run error at `a`, nothing printed -/
theorem example_printf_contains_itself :
    (match builtin Ex4.envNone 3 .printf [] [.strLit Ex4.fmt Ex4.p0, .ident Ex4.a Ex4.pa] Ex4.p0 0 (Ex4.st Ex4.heapSelf) with
     | .err e s' => some (e, s'.world.pt, s'.world.trace)
     | _ => none)
    = some (PlErr.new [110] Ex4.pa "formats-a-value-that-contains-itself", Ex4.pt, []) := by decide +kernel

/-- `printf("%v", a)` with `a = [1]`: the engine's text is printed -/
theorem example_printf_flat :
    (match builtin Ex4.env 3 .printf [] [.strLit Ex4.fmt Ex4.p0, .ident Ex4.a Ex4.pa] Ex4.p0 0 (Ex4.st Ex4.heapFlat) with
     | .ok _ s' => some (s'.world.pt, s'.world.trace)
     | _ => none)
    = some (Ex4.pt, [Event.out [91, 49, 93]]) := by decide +kernel

end Platypus.C11
