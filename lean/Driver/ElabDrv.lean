import Driver.Run
import Platypus.Model.Elab
open Lean Platypus

/-! The front-end model against the implementation's own tree: `Elab.elabSource` (lexer model,
position-carrying parser model, literal values, line/column cache, call numbering) on the source
text must be, node for node and field for field, the tree `ParsePipeline` built — the very value
the evaluator model is run on. -/
namespace DrvElab
open DrvRun

def posS (p : Pos) : String := s!"{p.pos}:{p.ln}:{p.col}"

mutual
partial def ser : Node → String
  | .ident n p => s!"(id {J.toHex n} {posS p})"
  | .strLit v p => s!"(str {J.toHex v} {posS p})"
  | .intLit v p => s!"(int {v} {posS p})"
  | .floatLit b p =>
    -- NaNs are compared as one value (the harness prints every NaN as the canonical quiet NaN)
    let n := b.toNat
    let n := if n % 9223372036854775808 > 9218868437227405312 then 9221120237041090560 else n
    s!"(float {n} {posS p})"
  | .boolLit v p => s!"(bool {v} {posS p})"
  | .nilLit p => s!"(nil {posS p})"
  | .list xs lb rb => s!"(list {posS lb} {posS rb}{serL xs})"
  | .map kvs lb rb => s!"(map {posS lb} {posS rb}{String.join (kvs.map fun (k, v) => " <" ++ ser k ++ " " ++ ser v ++ ">")})"
  | .paren e lp rp => s!"(paren {posS lp} {posS rp} {ser e})"
  | .attr o a p => s!"(attr {posS p} {serO o} {serO a})"
  | .index obj idx lbs rbs =>
    let o := match obj with | some (n, p) => s!"{J.toHex n}@{posS p}" | none => "-"
    s!"(index {o} [{String.intercalate "," (lbs.map posS)}] [{String.intercalate "," (rbs.map posS)}]{serL idx})"
  | .unary op e p => s!"(unary {repr op} {posS p} {ser e})"
  | .arith op l r p => s!"(arith {repr op} {posS p} {ser l} {ser r})"
  | .cond op l r p => s!"(cond {repr op} {posS p} {ser l} {ser r})"
  | .inE l r p => s!"(in {posS p} {ser l} {ser r})"
  | .assign op l r p => s!"(assign {repr op} {posS p} [{serL l}] [{serL r}])"
  | .call n args np lp rp site => s!"(call {J.toHex n} #{site} {posS np} {posS lp} {posS rp}{serL args})"
  | .slice o a b c c2 lb rb => s!"(slice {c2} {posS lb} {posS rb} {ser o} {serO a} {serO b} {serO c})"
  | .ifelse ifs els ep =>
    s!"(if{String.join (ifs.map fun (c, b, p) => s!" <{posS p} {ser c} {serB b}>")} else {serB els} {posS ep})"
  | .forS i c l b p => s!"(for {posS p} {serO i} {serO c} {serO l} {serB b})"
  | .forIn v it b fp ip => s!"(forin {posS fp} {posS ip} {ser v} {ser it} {serB b})"
  | .brk p => s!"(break {posS p})"
  | .cont p => s!"(continue {posS p})"
partial def serL (xs : List Node) : String := String.join (xs.map fun x => " " ++ ser x)
partial def serO : Option Node → String
  | some x => ser x
  | none => "-"
partial def serB : Option (List Node) → String
  | some b => "{" ++ serL b ++ " }"
  | none => "nil"
end

/-- the number spellings of `src` that `strconv.ParseInt(_, 0, 64)` refuses (`ParseFloat` decides) -/
def floatTexts (src : Bytes) : List Bytes :=
  ((Lex.lexAll src).filter fun i => i.typ = .NUMBER && (Unq.parseInt0 i.val).isNone).map (·.val) |>.eraseDups

def floatQuery (ts : List Bytes) : Bytes :=
  B "parsefloats:" ++ (ts.foldl (fun acc t => acc ++ Platypus.hexOf t ++ [44]) [])

/-- `strconv.ParseFloat` on the spellings of `src`, from the engine answers; `.error q`: ask `q` -/
def pfOf (g : GOracle) (src : Bytes) : Except Bytes (Bytes → Option UInt64) :=
  let ts := floatTexts src
  if ts.isEmpty then .ok fun _ => none
  else
    let q := floatQuery ts
    match g.get? (J.toHex q) with
    | none => .error q
    | some a =>
      let parts := (bstr (unhex ((splitAnswer (J.hexBytes a)).2))).splitOn ","
      let tbl : List (Bytes × Option UInt64) := ts.zip (parts.map fun p => (p.trimAscii.toString.toNat?).map (·.toUInt64))
      .ok fun t => (tbl.find? (·.1 == t)).bind (·.2)

mutual
/-- number of the first call expression in walking order (the harness numbers the calls of all the
    scripts of a case in one sequence: a script's numbers start where the previous script's ended) -/
partial def firstSite : Node → Option Nat
  | .call _ _ _ _ _ site => some site
  | .list xs _ _ => firstSiteL xs
  | .map kvs _ _ => firstSiteL (kvs.flatMap fun (k, v) => [k, v])
  | .paren e _ _ => firstSite e
  | .attr o a _ => firstSiteL (o.toList ++ a.toList)
  | .index _ idx _ _ => firstSiteL idx
  | .unary _ e _ => firstSite e
  | .arith _ l r _ | .cond _ l r _ | .inE l r _ => firstSiteL [l, r]
  | .assign _ l r _ => firstSiteL (l ++ r)
  | .slice o a b c _ _ _ => firstSiteL (o :: (a.toList ++ b.toList ++ c.toList))
  | .ifelse ifs els _ => firstSiteL ((ifs.flatMap fun (c, b, _) => c :: b.getD []) ++ els.getD [])
  | .forS i c l b _ => firstSiteL (i.toList ++ c.toList ++ l.toList ++ b.getD [])
  | .forIn v it b _ _ => firstSiteL (v :: it :: b.getD [])
  | _ => none
partial def firstSiteL : List Node → Option Nat
  | [] => none
  | x :: r => match firstSite x with | some s => some s | none => firstSiteL r
end

/-- `some note` when the front-end model's tree differs from the implementation's -/
def compare (pf : Bytes → Option UInt64) (src : Bytes) (impl : List Node) : Option String :=
  match Elab.elabSource pf src (((firstSiteL impl).getD 1) - 1) with
  | none => some "the front-end model rejects a text the implementation parsed"
  | some ns =>
    let m := serL ns
    let i := serL impl
    if m == i then none else
      -- first differing statement
      let d := (ns.zip impl).find? fun (a, b) => ser a != ser b
      match d with
      | some (a, b) => some s!"front-end model tree {ser a} implementation tree {ser b}"
      | none => some s!"front-end model has {ns.length} statements, the implementation {impl.length}"

/-- kind `elab`: {src, ast} -/
def elabCase (g : GOracle) (j : Json) : Json :=
  let src := J.hx (J.get j "src")
  match pfOf g src with
  | .error q => J.obj [("id", J.get j "id"), ("agree", true), ("spec", true), ("need", J.toHex q), ("note", "")]
  | .ok pf =>
    match AstJson.nodes (J.get j "ast") with
    | .error e => J.obj [("id", J.get j "id"), ("agree", false), ("spec", true), ("note", s!"ast: {e}")]
    | .ok impl =>
      match compare pf src impl with
      | none => J.obj [("id", J.get j "id"), ("agree", true), ("spec", true), ("note", "")]
      | some n => J.obj [("id", J.get j "id"), ("agree", false), ("spec", true), ("note", n)]

/-- every loaded script of a `run` case: the tree the evaluator model is about to walk is the tree the
    front-end model builds from the script's text; `none`: all equal -/
def scriptsCheck (g : GOracle) (j : Json) : Option Json := Id.run do
  match J.get j "asts" with
  | .obj kvs =>
    for (name, ast) in kvs.toArray do
      let src := ((J.arr (J.get j "scripts")).toList.find? fun s => J.str (J.get s "name") == name).map fun s => J.hx (J.get s "src")
      match src with
      | none => pure ()
      | some sb =>
        match pfOf g sb with
        | .error q => return some (J.obj [("id", J.get j "id"), ("agree", true), ("spec", true), ("need", J.toHex q), ("note", "")])
        | .ok pf =>
          match AstJson.nodes ast with
          | .error _ => pure ()
          | .ok impl =>
            match compare pf sb impl with
            | some n => return some (J.obj [("id", J.get j "id"), ("agree", false), ("spec", true), ("note", s!"script {name}: {n}")])
            | none => pure ()
    return none
  | _ => return none

def run (g : GOracle) (j : Json) : Json :=
  match scriptsCheck g j with
  | some r => r
  | none => DrvRun.run g j

end DrvElab
