import Lean.Data.Json
/-! Small JSON helpers for the driver (core only). -/
open Lean

namespace J

def get (j : Json) (k : String) : Json := (j.getObjVal? k).toOption.getD Json.null
def str (j : Json) : String := (j.getStr?).toOption.getD ""
def int (j : Json) : Int := (j.getInt?).toOption.getD 0
def nat (j : Json) : Nat := (j.getNat?).toOption.getD 0
def bool (j : Json) : Bool := (j.getBool?).toOption.getD false
def arr (j : Json) : Array Json := (j.getArr?).toOption.getD #[]
def isNull (j : Json) : Bool := match j with | .null => true | _ => false
def bytes (j : Json) : List UInt8 := (arr j).toList.map (fun x => (nat x).toUInt8)
/-- strings cross the protocol as arrays of byte values or as hex strings -/
def hexVal (c : Char) : Nat :=
  if '0' ≤ c ∧ c ≤ '9' then c.toNat - '0'.toNat
  else if 'a' ≤ c ∧ c ≤ 'f' then c.toNat - 'a'.toNat + 10
  else if 'A' ≤ c ∧ c ≤ 'F' then c.toNat - 'A'.toNat + 10 else 0
def hexBytes (s : String) : List UInt8 :=
  let rec go : List Char → List UInt8
    | a :: b :: rest => (hexVal a * 16 + hexVal b).toUInt8 :: go rest
    | _ => []
  go s.toList
def hexDigit (n : Nat) : Char := if n < 10 then Char.ofNat (48 + n) else Char.ofNat (87 + n)
def toHex (bs : List UInt8) : String :=
  String.ofList (bs.foldr (fun b acc => hexDigit (b.toNat / 16) :: hexDigit (b.toNat % 16) :: acc) [])
def hx (j : Json) : List UInt8 := hexBytes (str j)

def obj (kvs : List (String × Json)) : Json := Json.mkObj kvs

end J
