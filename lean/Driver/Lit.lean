import Driver.Run
import Platypus.Model.Unquote
import Platypus.Spec.Denote
open Lean Platypus Platypus.Unq

namespace DrvLit
open DrvRun

def decOf (i : Int) : String := bstr (decInt i)

/-- canonical decimal or hexadecimal spelling (the property's "decimal or hexadecimal integer literal") -/
def canonInt (s : Bytes) : Option Nat :=
  match s with
  | [48] => some 0
  | 48 :: x :: rest =>
    if (x == 120 || x == 88) && !rest.isEmpty then digitsVal 16 rest else none
  | c :: _ => if 49 ≤ c && c ≤ 57 then digitsVal 10 s else none
  | [] => none

def kwSpec (s : Bytes) : Option String :=
  let l := String.ofList ((Lex.lowerAscii s).map fun c => Char.ofNat c.toNat)
  match l with
  | "true" => some "bool:t" | "false" => some "bool:f" | "nil" => some "nil" | "null" => some "nil"
  | _ => none

def lits (g : GOracle) (j : Json) : Json := Id.run do
  let items := (J.arr (J.get j "lits")).toList.map fun x => let a := J.arr x; (J.hx a[0]!, J.str a[1]!)
  -- float spellings of this line are answered by one combined engine query
  let floats := items.filterMap fun (l, _) => match classify l with | .floatOf t _ => some t | _ => none
  let q : Bytes := B "parsefloats:" ++ (floats.foldl (fun acc t => acc ++ hexOf t ++ [44]) [])
  let ans : Option (List String) :=
    if floats.isEmpty then some []
    else (g.get? (J.toHex q)).map fun a =>
      ((bstr (unhex ((splitAnswer (J.hexBytes a)).2))).splitOn ",")
  match ans with
  | none => return J.obj [("id", J.get j "id"), ("agree", true), ("spec", true), ("need", J.toHex q), ("note", "")]
  | some bitsList =>
    let mut fi := 0
    let mut agree := true
    let mut spec := true
    let mut note := ""
    let mut n := 0
    let mut key := ""
    let mut otherFail := ""   -- first specification failure that is not of the known class
    for (l, impl) in items do
      n := n + 1
      let c := classify l
      let m : Option String := match c with
        | .str b => some ("str:" ++ J.toHex b)
        | .ident b => some ("ident:" ++ J.toHex b)
        | .int i => some ("int:" ++ decOf i)
        | .bool b => some (if b then "bool:t" else "bool:f")
        | .nil => some "nil"
        | .rejected => some "rejected"
        | .floatOf _ neg =>
          let bits := (bitsList.getD fi "").trimAscii.toString
          -- the sign is applied to the parsed value: flip the sign bit
          let b := bits.toNat?.getD 0
          let b' := if neg then (if b ≥ 9223372036854775808 then b - 9223372036854775808 else b + 9223372036854775808) else b
          -- NaN stays canonical
          some (if bits == "err" then "rejected" else if b % 9223372036854775808 > 9218868437227405312 then "float:9221120237041090560" else s!"float:{b'}")
        | .name | .multi => none
      if let .floatOf _ _ := c then fi := fi + 1
      match m with
      | some ms =>
        if ms != impl then
          agree := false
          if note == "" then note := s!"literal {J.toHex l}: model {ms} impl {impl}"
      | none => pure ()
      -- the specification, on the implementation's answer
      let isStrShape := match l with | q :: _ => q == 34 || q == 39 || q == 96 | [] => false
      if isStrShape then
        match Denote.denote l with
        | some b =>
          let want := (if l.headD 0 == 96 then "ident:" else "str:") ++ J.toHex b
          if impl != want then
            spec := false; note := s!"literal {J.toHex l} denotes {J.toHex b} but parsed as {impl}"
            if otherFail == "" then otherFail := s!"lit:{J.toHex l}"
        | none =>
          if impl.startsWith "str:" || impl.startsWith "ident:" then
            spec := false; note := s!"malformed literal {J.toHex l} accepted as {impl}"
            if otherFail == "" then otherFail := s!"lit:{J.toHex l}"
      else
        let (neg, body) := match l with | 45 :: r => (true, r) | 43 :: r => (false, r) | r => (false, r)
        match canonInt body with
        | some v =>
          if v ≤ 9223372036854775807 then
            let want := "int:" ++ (if neg then (if v == 0 then "0" else "-" ++ toString v) else toString v)
            if impl != want then
              spec := false; note := s!"integer literal {bstr l} parsed as {impl}"
              if otherFail == "" then otherFail := s!"lit:{bstr l}"
          else if !(impl.startsWith "float:") then do
            spec := false
            note := s!"integer literal beyond int64 {bstr l} parsed as {impl}"
            -- class key: all hexadecimal spellings beyond int64 fail the same way
            let isHex := match body with | 48 :: x :: _ => x == 120 || x == 88 | _ => false
            if isHex then
              if key == "" then key := "lit:hex-integer-beyond-int64"
            else
              if otherFail == "" then otherFail := s!"lit:{bstr body}"
        | none =>
          match kwSpec l with
          | some want =>
            if impl != want then
              spec := false; note := s!"keyword {bstr l} parsed as {impl}"
              if otherFail == "" then otherFail := s!"lit:{bstr l}"
          | none => pure ()
    -- a batch is reported under the known class only when every failure in it is of that class
    let key' := if otherFail != "" then otherFail else if !agree then "lit:disagreement" else key
    return J.obj [("id", J.get j "id"), ("agree", agree), ("spec", spec), ("n", n), ("note", note), ("key", key')]

end DrvLit
