import Driver.J
import Driver.C17
open Lean

partial def loop (h : IO.FS.Stream) (out : IO.FS.Stream) (f : Json → Json) : IO Unit := do
  let line ← h.getLine
  if line.isEmpty then return ()
  let t := line.trimAscii.toString
  if t.isEmpty then loop h out f else
  match Json.parse t with
  | .error e => out.putStrLn (J.obj [("id", "?"), ("agree", false), ("spec", true), ("note", s!"bad json: {e}")]).compress
  | .ok j => out.putStrLn (f j).compress
  loop h out f

def main (args : List String) : IO UInt32 := do
  let stdin ← IO.getStdin
  let stdout ← IO.getStdout
  match args with
  | ["C17"] => loop stdin stdout DrvC17.handle; return 0
  | _ => IO.eprintln "usage: drv <property>"; return 2
