import Driver.J
import Driver.C17
import Driver.Run
open Lean

partial def loop (h : IO.FS.Stream) (out : IO.FS.Stream) (f : Json → Json) : IO Unit := do
  let line ← h.getLine
  if line.isEmpty then return ()
  let t := line.trimAscii.toString
  if t.isEmpty then loop h out f else
  match Json.parse t with
  | .error e => out.putStrLn (J.obj [("id", "?"), ("agree", false), ("spec", true), ("note", s!"bad json: {e}")]).compress
  | .ok j => out.putStrLn (f j).compress
  loop h out f

def generic (j : Json) : Json :=
  match J.str (J.get j "k") with
  | "run" => DrvRun.run j
  | "lncol" => DrvC17.lncol j
  | k => J.obj [("id", J.get j "id"), ("agree", false), ("spec", true), ("note", s!"unknown kind {k}")]

def main (args : List String) : IO UInt32 := do
  let stdin ← IO.getStdin
  let stdout ← IO.getStdout
  match args with
  | ["C17"] => loop stdin stdout DrvC17.handle; return 0
  | [_] => loop stdin stdout generic; return 0
  | _ => IO.eprintln "usage: drv <property>"; return 2
