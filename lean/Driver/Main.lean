import Driver.J
import Driver.C17
import Driver.Run
import Driver.Load
import Driver.Bind
import Driver.LexDrv
import Driver.Lit
import Driver.CliDrv
import Driver.Run2
import Driver.ParseDrv
import Driver.ElabDrv
open Lean

partial def loop (h : IO.FS.Stream) (out : IO.FS.Stream) (f : Json → Json) : IO Unit := do
  let line ← h.getLine
  if line.isEmpty then return ()
  let t := line.trimAscii.toString
  if t.isEmpty then loop h out f else
  match Json.parse t with
  | .error e => out.putStrLn (J.obj [("id", "?"), ("agree", false), ("spec", true), ("note", s!"bad json: {e}")]).compress
  | .ok j => out.putStrLn (f j).compress
  loop h out f

/-- both judgements of one case: agreement and specification of both, the notes joined; a pending
    engine query of the second comes first -/
def both (j a b : Json) : Json :=
  if !J.isNull (J.get b "need") then b
  else J.obj [("id", J.get j "id"), ("agree", J.bool (J.get a "agree") && J.bool (J.get b "agree")),
              ("spec", J.bool (J.get a "spec") && J.bool (J.get b "spec")),
              ("note", J.str (J.get a "note") ++ (if J.str (J.get b "note") == "" then "" else " | " ++ J.str (J.get b "note")))]

partial def generic (g : DrvRun.GOracle) (j : Json) : Json :=
  match J.str (J.get j "k") with
  | "run" => DrvElab.run g j
  | "load" => DrvLoad.load g j
  | "bind" => DrvBind.bind j
  | "typed" => DrvBind.typed j
  | "lex" =>
    -- the item stream and the parser's verdict against the specification (DrvLex), and the verdict -
    -- accepted with this tree, or rejected - against the parser model (DrvParse); an accepted text whose
    -- tree was not dumped (very long inputs) is compared by verdict only
    let a := DrvLex.lex j
    if !J.bool (J.get j "has_err") && J.isNull (J.get j "ast") then a
    else
      let b := DrvParse.parseCase j
      if !J.isNull (J.get b "skipped") then a else both j a b
  | "lit" => DrvLit.lits g j
  | "cli" => DrvCli.cli j
  | "run2" => DrvRun2.run2 g j
  | "parse" =>
    -- the position-free comparison, and (for an accepted text) the whole tree against the front-end model
    let a := DrvParse.parseCase j
    if !J.isNull (J.get a "skipped") || J.isNull (J.get j "ast") || J.bool (J.get j "has_err") then a
    else both j a (DrvElab.elabCase g j)
  | "hist" =>
    -- a history of operations run in one process: every operation is judged on its own against
    -- the (history-free) model
    if !J.isNull (J.get j "death") then
      J.obj [("id", J.get j "id"), ("agree", false), ("spec", false), ("note", s!"history process ended: {J.str (J.get j "death")}")]
    else Id.run do
      let mut agree := true
      let mut spec := true
      let mut note := ""
      let mut need : Option Json := none
      let mut n : Nat := 0
      for op in J.arr (J.get j "ops") do
        -- (an operation without a kind is a run; concurrent histories also hold parses)
        let r := if J.str (J.get op "k") == "hist" || J.isNull (J.get op "k") then DrvElab.run g op else generic g op
        if !J.isNull (J.get r "skipped") then continue
        n := n + 1
        if !J.isNull (J.get r "need") then need := some (J.get r "need")
        if !J.bool (J.get r "agree") && agree then
          agree := false; note := s!"operation {n}: {J.str (J.get r "note")}"
        if !J.bool (J.get r "spec") then spec := false
      match need with
      | some q => return J.obj [("id", J.get j "id"), ("agree", true), ("spec", spec), ("need", q), ("note", "")]
      | none => return J.obj [("id", J.get j "id"), ("agree", agree), ("spec", spec && agree), ("n", n), ("note", note)]
  | "lncol" => DrvC17.lncol j
  | "errpos" => DrvC17.errpos j
  | "chainops" => DrvC17.chainops j
  | "elab" => DrvElab.elabCase g j
  | "treepos" =>
    -- the stored positions one by one (DrvC17.treepos) and the whole tree against the front-end model
    both j (DrvC17.treepos j) (DrvElab.elabCase g j)
  | k => J.obj [("id", J.get j "id"), ("agree", false), ("spec", true), ("note", s!"unknown kind {k}")]

def main (args : List String) : IO UInt32 := do
  let stdin ← IO.getStdin
  let stdout ← IO.getStdout
  match args with
  | [_] =>
    -- shared engine answers: one JSON array [query-hex, answer-hex] per line
    let mut g : DrvRun.GOracle := {}
    match (← IO.getEnv "VERIF_ORACLE") with
    | some path =>
      if (← System.FilePath.pathExists path) then
        for line in (← IO.FS.lines path) do
          match Json.parse line with
          | .ok j => let a := J.arr j; g := g.insert (J.str (a[0]?.getD Json.null)) (J.str (a[1]?.getD Json.null))
          | .error _ => pure ()
    | none => pure ()
    loop stdin stdout (generic g); return 0
  | _ => IO.eprintln "usage: drv <property>"; return 2
