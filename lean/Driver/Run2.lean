import Driver.Run
import Platypus.Model.EvalV2
open Lean Platypus

namespace DrvRun2
open DrvRun

/-- v2 load-time check: the traversal of the check pass with every registered function accepted -/
def check2 (l : Loaded) : Option String :=
  l.scripts.foldl (fun acc (name, stmts) =>
    match acc with
    | some e => some e
    | none =>
      match checkNodes name (fun n => l.fns.contains n) (fun _ => some (pure ())) 10000 stmts {} with
      | .ok _ _ => none
      | .err e => some s!"model check rejects {bstr name}: {e.msg} {(chainJson e).compress}"
      | .fuel => some "check fuel"
      | .need _ => some "check need") none

def runModel2 (g : GOracle) (l : Loaded) (orderCode : Nat) (fuel : Nat := 20000) : Obs :=
  match l.scripts.find? (·.1 == l.entry) with
  | none => { outcome := "notloaded" }
  | some (name, stmts) => obsOf (V2.runScript2 (envOf g l orderCode) fuel name stmts {})

/-- v2 observables: outcome, error chain, probe trace, polls (there is no point) -/
def diff2 (m : Obs) (obs : Json) (hasSig : Bool) : String :=
  let io := J.str (J.get obs "outcome")
  if m.outcome != io then s!"outcome model={m.outcome}({m.msg}) impl={io} {J.str (J.get obs "panic")} {J.str (J.get (J.get obs "err") "msg")}"
  else if io == "panic" || io == "notloaded" then ""
  else if io == "err" && m.chain.compress != (implChain obs).compress then s!"errpos model={m.chain.compress}({m.msg}) impl={(implChain obs).compress}({J.str (J.get (J.get obs "err") "msg")})"
  else if m.trace.compress != (J.get obs "trace").compress then s!"trace model={m.trace.compress} impl={(J.get obs "trace").compress}"
  else if hasSig && m.polls != J.nat (J.get obs "polls") then s!"polls model={m.polls} impl={J.nat (J.get obs "polls")}"
  else ""

/-- C18's "no stale value" on the implementation's own output for the generated probes: a probe
    argument list never contains a value when the source argument was a construct yielding none —
    decided through agreement with the model, whose value positions demand exactly one value -/
def run2 (g : GOracle) (j : Json) : Json :=
  match load j with
  | .error e => J.obj [("id", J.get j "id"), ("agree", false), ("spec", true), ("note", s!"load: {e}")]
  | .ok l =>
    let obs := J.get j "obs"
    let strict := J.bool (J.get j "strict")
    let io := J.str (J.get obs "outcome")
    let c14 := if J.bool (J.get j "c14") then c14spec j obs else (true, "")
    let specGeneric := io != "panic" && io != "crash" && io != "timeout" && implWellTyped obs && c14.1
    if io == "notloaded" then
      -- rejected at load time: when the text parses (the tree is given), the model's check pass
      -- (same traversal; any registered function is accepted) must reject it too
      if J.bool (J.get j "check_rejected") then
        match check2 l with
        | some _ => J.obj [("id", J.get j "id"), ("agree", true), ("spec", specGeneric), ("note", "")]
        | none =>
          let msg := match J.get j "loaderrs" with
            | .obj kvs => kvs.foldl (fun acc _ v => acc ++ J.str (J.get v "msg")) ""
            | _ => ""
          J.obj [("id", J.get j "id"), ("agree", false), ("spec", false), ("note", s!"the v2 check pass rejects a program the check model accepts: {msg}")]
      else
      J.obj [("id", J.get j "id"), ("agree", true), ("spec", specGeneric), ("note", "")]
    else
    match check2 l with
    | some msg => J.obj [("id", J.get j "id"), ("agree", false), ("spec", specGeneric && !strict), ("note", msg)]
    | none =>
      let m0 := runModel2 g l 0
      let d0 := diff2 m0 obs l.hasSig
      let (d, tried) := Id.run do
        if d0 == "" || m0.mapIters == 0 then return (d0, (1 : Nat))
        let mut n : Nat := 1
        let bits := min m0.mapIters 10
        for c in [1:2 ^ bits] do
          let code := (List.range bits).foldl (fun acc i => acc + ((c / 2 ^ i) % 2) * 6 ^ i) 0
          n := n + 1
          if diff2 (runModel2 g l code) obs l.hasSig == "" then return ("", n)
        return (d0, n)
      let agree := d == ""
      J.obj [("id", J.get j "id"), ("agree", agree), ("spec", specGeneric && (agree || !strict)), ("note", if !c14.1 then c14.2 ++ " | " ++ d else d), ("orders", tried)]

end DrvRun2
