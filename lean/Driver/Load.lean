import Driver.Run
import Platypus.Model.Link
open Lean Platypus

namespace DrvLoad
open DrvRun

/-- all call nodes of a tree: (site, name, args, namePos) -/
partial def calls (n : Node) : List (Nat × Bytes × List Node × Pos) :=
  let many (ns : List Node) := ns.flatMap calls
  let opt (o : Option Node) := match o with | some x => calls x | none => []
  let blk (o : Option (List Node)) := match o with | some b => many b | none => []
  match n with
  | .list xs _ _ => many xs
  | .map kvs _ _ => kvs.flatMap fun (k, v) => calls k ++ calls v
  | .paren e _ _ => calls e
  | .attr o a _ => opt o ++ opt a
  | .index _ idx _ _ => many idx
  | .unary _ e _ => calls e
  | .arith _ l r _ | .cond _ l r _ | .inE l r _ => calls l ++ calls r
  | .assign _ l r _ => many l ++ many r
  | .call name args np _ _ site => (site, name, args, np) :: many args
  | .slice o a b c _ _ _ => calls o ++ opt a ++ opt b ++ opt c
  | .ifelse ifs els _ => (ifs.flatMap fun (c, b, _) => calls c ++ blk b) ++ blk els
  | .forS a b c body _ => opt a ++ opt b ++ opt c ++ blk body
  | .forIn v it body _ _ => calls v ++ calls it ++ blk body
  | _ => []

def errOfJson (j : Json) : PlErr :=
  { chain := (J.arr (J.get j "chain")).toList.map fun c =>
      let a := J.arr c
      (J.hx a[0]!, (⟨J.int a[1]!, J.int a[2]!, J.int a[3]!⟩ : Pos)),
    msg := J.str (J.get j "msg") }

def chainOfJson (j : Json) : String :=
  (Json.arr ((J.arr (J.get j "chain")).map fun c =>
    let a := J.arr c
    Json.arr #[a[0]!, a[1]!, a[2]!, a[3]!])).compress

/-- least fixed point of "parsed and checked, and every used script is good" -/
def goodSet (all : Link.Scripts) : List Bytes :=
  let step (g : List Bytes) : List Bytes := all.filterMap fun (n, st) =>
    match st with
    | .ok uses => if uses.all (fun u => g.contains u.callee) then some n else none
    | .bad _ => none
  -- iterate from the empty set (n+1 rounds reach the least fixed point)
  (List.range (all.length + 1)).foldl (fun g _ => step g) []

def sortB (xs : List Bytes) : List String := (xs.map J.toHex).toArray.qsort (· < ·) |>.toList

def load (g : GOracle) (j : Json) : Json := Id.run do
  let id := J.get j "id"
  if !J.isNull (J.get j "death") then
    return J.obj [("id", id), ("agree", false), ("spec", false), ("note", s!"loader process ended: {J.str (J.get j "death")}")]
  let fns := (J.arr (J.get j "fns")).toList.map J.hx
  let oracle : Bytes → Option Bytes := fun q => (g.get? (J.toHex q)).map J.hexBytes
  let nocheck := (J.arr (J.get j "nocheck")).toList.map J.hx
  let mut all : Link.Scripts := []
  let mut notes : List String := []
  let mut specOk := true
  for sj in J.arr (J.get j "scripts") do
    let name := J.hx (J.get sj "name")
    if !J.isNull (J.get sj "parse_err") then
      all := all ++ [(name, .bad (errOfJson (J.get sj "parse_err")))]
    else
      match AstJson.nodes (J.get sj "ast") with
      | .error e => return J.obj [("id", id), ("agree", false), ("spec", true), ("note", s!"ast: {e}")]
      | .ok stmts =>
        let cs := stmts.flatMap calls
        -- the v2 check pass (same traversal, table of the same names, arity rule as the checker)
        if J.bool (J.get sj "check2") then
          let arity : CallInfo → Option (CM Unit) := fun c =>
            some (if c.args.length > 3 then cErr name c.np "too-many-arguments" else pure ())
          match checkNodes name (fun n => fns.contains n) arity 10000 stmts {} with
          | .err e =>
            if J.isNull (J.get sj "check2_err") then
              notes := notes ++ [s!"v2 check: model rejects {bstr name} ({e.msg} {(chainJson e).compress}) but the v2 check pass accepts"]
              specOk := false
            else if (chainJson e).compress != chainOfJson (J.get sj "check2_err") then
              notes := notes ++ [s!"v2 check: error position of {bstr name}: model {(chainJson e).compress} ({e.msg}) impl {chainOfJson (J.get sj "check2_err")} ({J.str (J.get (J.get sj "check2_err") "msg")})"]
          | .ok _ _ =>
            if !J.isNull (J.get sj "check2_err") then
              notes := notes ++ [s!"v2 check: model accepts {bstr name} but the v2 check pass rejects: {J.str (J.get (J.get sj "check2_err") "msg")}"]
              specOk := false
          | _ => notes := notes ++ ["v2 check: model fuel"]
        -- (a name dropped from the checker table has no checker: "not found check for func")
        let fcheck : CallInfo → Option (CM Unit) := fun c =>
          if nocheck.contains c.name then none else some (builtinCheck oracle name c)
        match checkNodes name (fun n => fns.contains n) fcheck 10000 stmts {} with
        | .need q => return J.obj [("id", id), ("agree", true), ("spec", true), ("need", J.toHex q), ("note", "")]
        | .fuel => return J.obj [("id", id), ("agree", false), ("spec", true), ("note", "check fuel")]
        | .err e =>
          if J.isNull (J.get sj "check_err") then
            notes := notes ++ [s!"check: model rejects {bstr name} ({e.msg} {(chainJson e).compress}) but the implementation accepts"]
            specOk := false     -- the check model is the executable specification of validity
          else if (chainJson e).compress != chainOfJson (J.get sj "check_err") then
            notes := notes ++ [s!"check: error position of {bstr name}: model {(chainJson e).compress} ({e.msg}) impl {chainOfJson (J.get sj "check_err")} ({J.str (J.get (J.get sj "check_err") "msg")})"]
          all := all ++ [(name, .bad (errOfJson (J.get sj "check_err")))]
        | .ok _ st =>
          if !J.isNull (J.get sj "check_err") then
            notes := notes ++ [s!"check: model accepts {bstr name} but the implementation rejects: {J.str (J.get (J.get sj "check_err") "msg")}"]
            specOk := false
            all := all ++ [(name, .bad (errOfJson (J.get sj "check_err")))]
          else
            let uses : List Link.Use := st.callRef.filterMap fun site =>
              match cs.find? (·.1 == site) with
              | some (_, _, [.strLit callee _], np) => some ⟨callee, np, site⟩
              | _ => none
            let implRefs := (J.arr (J.get sj "callref")).toList.map J.nat
            if implRefs != st.callRef then
              notes := notes ++ [s!"callref order of {bstr name}: model {st.callRef} impl {implRefs}"]
            all := all ++ [(name, .ok uses)]
  -- link
  let order := (J.arr (J.get j "order")).toList.map J.hx
  let r := Link.link all order
  let hook := J.get j "hook"
  let implAcc := (J.arr (J.get hook "accepted")).toList.map J.str
  if sortB r.accepted != implAcc then
    notes := notes ++ [s!"accepted: model {sortB r.accepted} impl {implAcc}"]
  for (n, e) in r.errors do
    let ie := J.get (J.get hook "errors") (J.toHex n)
    if J.isNull ie then notes := notes ++ [s!"link error of {bstr n} missing in impl"]
    else if (chainJson e).compress != chainOfJson ie then
      notes := notes ++ [s!"link error chain of {bstr n}: model {(chainJson e).compress} ({e.msg}) impl {chainOfJson ie} ({J.str (J.get ie "msg")})"]
  let implErrCount := match J.get hook "errors" with | .obj kvs => kvs.foldl (fun n _ _ => n + 1) 0 | _ => 0
  if implErrCount != r.errors.length then notes := notes ++ [s!"link error count: model {r.errors.length} impl {implErrCount}"]
  -- bindings (PrivateData) of the scripts that were linked successfully
  let okSites : List Nat := all.flatMap fun (n, st) => match st with
    | .ok uses => if r.accepted.contains n then uses.map (·.site) else []
    | _ => []
  let mb := (r.bind.filter fun (s, _) => okSites.contains s).map fun (s, c) => s!"{s}:{J.toHex c}"
  let ib := (J.arr (J.get hook "bind")).toList.filterMap fun b =>
    let a := J.arr b
    if okSites.contains (J.nat a[0]!) then some s!"{J.nat a[0]!}:{J.str a[1]!}" else none
  if mb.toArray.qsort (· < ·) != ib.toArray.qsort (· < ·) then
    notes := notes ++ [s!"bindings of accepted scripts: model {mb} impl {ib}"]
  -- C09 specification on the implementation's own results
  let good := goodSet all
  let mut specNote := ""
  if sortB good != implAcc then
    specOk := false; specNote := s!"accepted set {implAcc} is not the set of good scripts {sortB good}"
  -- every accepted use call is bound to the script of that name
  for (n, st) in all do
    match st with
    | .ok uses =>
      if good.contains n then
        for u in uses do
          let want := s!"{u.site}:{J.toHex u.callee}"
          if !(ib.contains want) then
            specOk := false; specNote := s!"use call site {u.site} of {bstr n} is not bound to {bstr u.callee}"
    | _ => pure ()
  -- the verdict is the same on every load (real loader, Go map order)
  for rj in J.arr (J.get j "real") do
    let ra := (J.arr (J.get rj "accepted")).toList.map J.str
    if ra != implAcc then
      specOk := false; specNote := s!"a real load accepted {ra}, another order accepted {implAcc}"
    for (n, _) in all do
      let e1 := J.get (J.get rj "errors") (J.toHex n)
      let e2 := J.get (J.get hook "errors") (J.toHex n)
      if !J.isNull e1 && !J.isNull e2 && chainOfJson e1 != chainOfJson e2 then
        specOk := false; specNote := s!"error of {bstr n} differs between loads: {chainOfJson e1} vs {chainOfJson e2}"
  let note := String.intercalate " || " ((if specNote == "" then [] else [specNote]) ++ notes)
  return J.obj [("id", id), ("agree", notes.isEmpty), ("spec", specOk), ("note", note)]

end DrvLoad
