import Driver.AstJson
import Platypus.Model.Parse
import Platypus.Spec.OutcomeSem
import Platypus.Model.Check
import Std.Data.HashMap
open Lean Platypus

namespace DrvRun

/-- engine answers shared by all cases of a run (hex query ↦ hex answer), loaded from $VERIF_ORACLE -/
abbrev GOracle := Std.HashMap String String

def bstr (b : Bytes) : String := String.ofList (b.map fun c => Char.ofNat c.toNat)

/-- scalar from its canonical rendering -/
def parseScalar (s : String) : Val :=
  match s.toList with
  | 'n' :: _ => .nil
  | 't' :: _ => .bool true
  | 'f' :: _ => .bool false
  | 'i' :: r => .int ((String.ofList r).toInt?.getD 0)
  | 'd' :: r => .float ((String.ofList r).toNat?.getD 0).toUInt64
  | 's' :: r => .str (J.hexBytes (String.ofList r))
  | _ => .nil

def pointOfJson (j : Json) : Point :=
  let tags := (J.arr (J.get j "tags")).toList.map fun t =>
    let a := J.arr t; (J.hx (a[0]?.getD Json.null), J.hx (a[1]?.getD Json.null))
  let fields := (J.arr (J.get j "fields")).toList.map fun t =>
    let a := J.arr t; (J.hx (a[0]?.getD Json.null), parseScalar (J.str (a[1]?.getD Json.null)))
  Point.init (J.hx (J.get j "m")) tags fields (J.int (J.get j "time"))

def pointJson (h : Heap) (pt : Point) : Json :=
  let tags := (sortKeys pt.tags).map fun (k, v) => Json.arr #[J.toHex k, J.toHex v]
  let fields := (sortKeys pt.fields).map fun (k, v) => Json.arr #[J.toHex k, bstr (renderV h v)]
  let idx := (sortKeys pt.idx).map fun (k, (t, tag)) => Json.arr #[J.toHex k, t.name, if tag then "tag" else "field"]
  J.obj [("m", J.toHex pt.meas), ("tags", Json.arr tags.toArray), ("fields", Json.arr fields.toArray),
         ("meta", Json.arr idx.toArray), ("time", Json.num (JsonNumber.fromInt pt.time)), ("drop", pt.drop)]

def traceJson (tr : List Event) : Json :=
  Json.arr (tr.reverse.filterMap fun e => match e with
    | .probe n args => some (Json.arr ((Json.str (bstr n)) :: args.map fun a => Json.str (bstr a)).toArray)
    | .out _ => none).toArray

/-- everything printf wrote, in order -/
def stdoutOf (tr : List Event) : String :=
  J.toHex (tr.reverse.foldl (fun acc e => match e with | .out t => acc ++ t | _ => acc) [])

def chainJson (e : PlErr) : Json :=
  Json.arr (e.chain.map fun (f, p) => Json.arr #[J.toHex f, Json.num (JsonNumber.fromInt p.pos), Json.num (JsonNumber.fromInt p.ln), Json.num (JsonNumber.fromInt p.col)]).toArray

structure Obs where
  outcome : String
  chain : Json := Json.null
  msg : String := ""
  point : Json := Json.null
  trace : Json := Json.null
  polls : Nat := 0
  stdout : String := ""
  mapIters : Nat := 0
  need : Option Bytes := none

def obsOf (r : Res Unit) : Obs :=
  match r with
  | .ok _ s => { outcome := "ok", point := pointJson s.world.heap s.world.pt, trace := traceJson s.world.trace, stdout := stdoutOf s.world.trace, polls := s.world.polls, mapIters := s.world.mapIters }
  | .err e s => { outcome := "err", chain := chainJson e, msg := e.msg, point := pointJson s.world.heap s.world.pt, trace := traceJson s.world.trace, stdout := stdoutOf s.world.trace, polls := s.world.polls, mapIters := s.world.mapIters }
  | .panic m => { outcome := "panic", msg := m }
  | .fuel => { outcome := "fuel" }
  | .need q => { outcome := "need", need := some q }

structure Loaded where
  scripts : List (Bytes × List Node)
  bounds : List (Nat × Bytes)
  fns : List Bytes
  entry : Bytes
  point : Point
  sigK : Option Nat
  hasSig : Bool
  oracle : List (Bytes × Bytes)

def load (j : Json) : Except String Loaded := do
  let asts := J.get j "asts"
  let scripts ← match asts with
    | .obj kvs => kvs.foldl (fun acc k v => do
        let l ← acc
        let ns ← AstJson.nodes v
        pure ((J.hexBytes k, ns) :: l)) (pure [])
    | _ => pure []
  let sigk := J.nat (J.get j "sigk")
  let oracle := (J.arr (J.get j "oracle")).toList.map fun kv =>
    let a := J.arr kv; (J.hx (a[0]?.getD Json.null), J.hx (a[1]?.getD Json.null))
  pure { scripts := scripts, bounds := AstJson.bounds asts [], fns := (J.arr (J.get j "fns")).toList.map J.hx,
         entry := J.hx (J.get j "entry"), point := pointOfJson (J.get j "point"),
         sigK := if sigk == 0 then none else some sigk, hasSig := J.bool (J.get j "hassig"), oracle := oracle }

def oracleOf (g : GOracle) (l : Loaded) : Bytes → Option Bytes := fun q =>
  match alookup q l.oracle with
  | some a => some a
  | none => (g.get? (J.toHex q)).map J.hexBytes

/-- model of the load-time check of every accepted script: collects the compiled grok sites;
    `Except.error (inl q)` = engine question, `(inr msg)` = the model rejects a script the
    implementation accepted -/
def checkAll (g : GOracle) (l : Loaded) : Except (Sum Bytes String) (List (Nat × Bytes)) :=
  l.scripts.foldlM (fun acc (name, stmts) =>
    match checkScript 10000 (oracleOf g l) l.fns name stmts with
    | .ok _ st => .ok (st.grok ++ acc)
    | .err e => .error (.inr s!"model check rejects {bstr name}: {e.msg} at {(chainJson e).compress}")
    | .fuel => .error (.inr "check out of fuel")
    | .need q => .error (.inl q)) []

def envOf (g : GOracle) (l : Loaded) (orderCode : Nat) (grok : List (Nat × Bytes) := []) : Env :=
  { bound := fun site => match l.bounds.find? (·.1 == site) with
      | some (_, name) => (match l.scripts.find? (·.1 == name) with | some (n, st) => some (n, st) | none => none)
      | none => none
    fns := l.fns
    sigK := l.sigK
    hasSignal := l.hasSig
    mapOrder := fun i => (orderCode / 6 ^ i) % 6
    grok := fun site => (grok.find? (·.1 == site)).map (·.2)
    oracle := oracleOf g l }

def runModel (g : GOracle) (l : Loaded) (orderCode : Nat) (grok : List (Nat × Bytes) := []) (fuel : Nat := 20000) : Obs :=
  match l.scripts.find? (·.1 == l.entry) with
  | none => { outcome := "notloaded" }
  | some (name, stmts) => obsOf (runScript (envOf g l orderCode grok) fuel name stmts { pt := l.point })

def outName : Sem.Out → String
  | .normal => "normal" | .brk => "brk" | .cont => "cont" | .exit => "exit"

/-- self-check of the refinement statement `semStmts = absU ∘ runStmts` on this case's top-level
    block (the theorem C03.flags_refine_outcomes proves it for all programs) -/
def semCheck (g : GOracle) (l : Loaded) (orderCode : Nat) (fuel : Nat := 20000) : Bool :=
  match l.scripts.find? (·.1 == l.entry) with
  | none => true
  | some (name, stmts) =>
    let env := envOf g l orderCode
    let s0 : St := { task := { name := name, scopes := [[]] }, world := { pt := l.point } }
    let m := Sem.absU (runStmts env (evalNode env fuel) fuel stmts s0)
    let sm := Sem.semStmts env (evalNode env fuel) fuel stmts s0
    let show' (r : Res Sem.Out) : String :=
      match r with
      | .ok o s => s!"ok {outName o} {(pointJson s.world.heap s.world.pt).compress} {(traceJson s.world.trace).compress} {s.world.polls} {s.task.exit} {s.task.brk} {s.task.cont} {s.task.scopes.length}"
      | .err e s => s!"err {(chainJson e).compress} {(pointJson s.world.heap s.world.pt).compress} {(traceJson s.world.trace).compress} {s.world.polls} {s.task.exit} {s.task.scopes.length}"
      | .panic m => s!"panic {m}"
      | .fuel => "fuel"
      | .need q => s!"need {bstr q}"
    show' m == show' sm

def implChain (obs : Json) : Json :=
  Json.arr ((J.arr (J.get (J.get obs "err") "chain")).map fun c =>
    let a := J.arr c
    Json.arr #[a[0]?.getD Json.null, a[1]?.getD Json.null, a[2]?.getD Json.null, a[3]?.getD Json.null])

/-- first difference between the model's observation and the implementation's, or "" -/
def diff (m : Obs) (obs : Json) (hasSig : Bool) : String :=
  let io := J.str (J.get obs "outcome")
  if m.outcome != io then s!"outcome model={m.outcome}({m.msg}) impl={io} {J.str (J.get obs "panic")} {J.str (J.get (J.get obs "err") "msg")}"
  else if io == "panic" then ""
  else if io == "notloaded" then ""
  else if io == "err" && m.chain.compress != (implChain obs).compress then s!"errpos model={m.chain.compress}({m.msg}) impl={(implChain obs).compress}({J.str (J.get (J.get obs "err") "msg")})"
  else if m.stdout != J.str (J.get obs "stdout") then s!"stdout model={m.stdout} impl={J.str (J.get obs "stdout")}"
  else if m.trace.compress != (J.get obs "trace").compress then s!"trace model={m.trace.compress} impl={(J.get obs "trace").compress}"
  else
    let ip := J.get obs "point"
    let cmp (k : String) : String :=
      if (J.get m.point k).compress != (J.get ip k).compress then s!"point.{k} model={(J.get m.point k).compress} impl={(J.get ip k).compress}" else ""
    let ds := ["m", "tags", "fields", "meta", "time", "drop"].map cmp |>.filter (· != "")
    match ds with
    | d :: _ => d
    | [] => if hasSig && m.polls != J.nat (J.get obs "polls") then s!"polls model={m.polls} impl={J.nat (J.get obs "polls")}" else ""

/-- well-typedness of everything observable in the implementation's output: no `?T` renderings
    (Go values of a type the language does not have, e.g. a Go `int`), used by C01/C02/C10 specs -/
def implWellTyped (obs : Json) : Bool := !((obs.compress.splitOn "?").length > 1)

def renderType (r : String) : String :=
  match r.toList.head? with
  | some 'n' => "nil" | some 't' => "bool" | some 'f' => "bool" | some 'i' => "int"
  | some 'd' => "float" | some 's' => "str" | _ => "?"

/-- C10's invariant evaluated on the implementation's own output point: every tag key is indexed
    (str, tag); every field key is indexed (type of the stored value, field); no key is both; field
    values have a language type; and (for the C10 generator, whose last probe reads the five keys
    back) each key reads back exactly what the point holds -/
def c10spec (j obs : Json) : Bool × String := Id.run do
  let pt := J.get obs "point"
  let tags := (J.arr (J.get pt "tags")).toList.map fun t => let a := J.arr t; (J.str a[0]!, J.str a[1]!)
  let fields := (J.arr (J.get pt "fields")).toList.map fun t => let a := J.arr t; (J.str a[0]!, J.str a[1]!)
  let metas := (J.arr (J.get pt "meta")).toList.map fun t => let a := J.arr t; (J.str a[0]!, J.str a[1]!, J.str a[2]!)
  for (k, _) in tags do
    if fields.any (·.1 == k) then return (false, s!"key {k} is both tag and field")
    match metas.find? (·.1 == k) with
    | some (_, t, fl) => if t != "str" || fl != "tag" then return (false, s!"tag {k} indexed as ({t},{fl})")
    | none => return (false, s!"tag {k} not indexed")
  for (k, r) in fields do
    if renderType r == "?" then return (false, s!"field {k} holds a non-language value {r}")
    match metas.find? (·.1 == k) with
    | some (_, t, fl) => if t != renderType r || fl != "field" then return (false, s!"field {k}={r} indexed as ({t},{fl})")
    | none => return (false, s!"field {k} not indexed")
  -- read-back through get_key (C10 generator only)
  if (J.str (J.get j "gen")).startsWith "seq" && J.str (J.get obs "outcome") == "ok" then
    let tr := J.arr (J.get obs "trace")
    match tr.back? with
    | some ev =>
      let vals := (J.arr ev).toList.drop 1 |>.map J.str
      let keys := ["6631", "7431", "6d657373616765", "6b31", "6b32", "7432"]
      for (k, got) in keys.zip vals do
        let want := match fields.find? (·.1 == k) with
          | some (_, r) => s!"{renderType r}={r}"
          | none => match tags.find? (·.1 == k) with
            | some (_, v) => s!"str=s{v}"
            | none => "nil=n"
        if got != want then return (false, s!"get_key({k}) read {got}, the point holds {want}")
    | none => pure ()
  return (true, "")

/-- C14 evaluated on the implementation's own outputs: the run interrupted at poll `kfire` ends
    (no timeout/crash), performs a prefix of the probe events and of the output of the
    uninterrupted run -/
def c14spec (j obs : Json) : Bool × String := Id.run do
  let io := J.str (J.get obs "outcome")
  if io != "ok" && io != "err" then return (false, s!"interrupted run ended with {io}")
  -- (each task on the use() chain observes the signal by its own poll, so the poll count may exceed
  --  kfire by the depth of the chain: not judged)
  let ft := J.get j "full_trace"
  if !J.isNull ft then
    let full := (J.arr ft).toList.map (·.compress)
    let got := (J.arr (J.get obs "trace")).toList.map (·.compress)
    if !(got.isPrefixOf full) then return (false, "effects are not a prefix of the uninterrupted run")
    let fo := J.str (J.get j "full_stdout")
    let go := J.str (J.get obs "stdout")
    if !(go.toList.isPrefixOf fo.toList) then return (false, "output is not a prefix of the uninterrupted run")
  return (true, "")

def run (g : GOracle) (j : Json) : Json :=
  match load j with
  | .error e => J.obj [("id", J.get j "id"), ("agree", false), ("spec", true), ("note", s!"load: {e}")]
  | .ok l =>
    let obs := J.get j "obs"
    let strict := J.bool (J.get j "strict")
    let io := J.str (J.get obs "outcome")
    -- generic part of the specification: never a panic, only language-typed values
    let c10 := if J.bool (J.get j "c10") && (io == "ok" || io == "err") then c10spec j obs else (true, "")
    let c14 := if J.bool (J.get j "c14") then c14spec j obs else (true, "")
    -- C09/C13 on the implementation's own loaded trees: the scripts of a case that runs were all
    -- accepted, so every use("name") naming one of them is bound to exactly that script
    let names := l.scripts.map (·.1)
    let wantB := ((AstJson.useSites (J.get j "asts") []).filter fun (_, n) => names.contains n).map fun (s, n) => s!"{s}:{J.toHex n}"
    let haveB := l.bounds.map fun (s, n) => s!"{s}:{J.toHex n}"
    let bindOk := io == "notloaded" || io == "loaderr" || wantB.toArray.qsort (· < ·) == haveB.toArray.qsort (· < ·)
    -- a script rejected at the parse stage must be a text the parser model rejects too (the model is
    -- history-free: a pooled parser left in a bad state by an earlier load shows here)
    let parseNote : String := Id.run do
      let mut note := ""
      match J.get j "loaderrs" with
      | .obj kvs =>
        for (name, le) in kvs.toArray do
          if J.str (J.get le "stage") == "parse" then
            let src := ((J.arr (J.get j "scripts")).toList.find? fun s => J.str (J.get s "name") == name).map fun s => J.hx (J.get s "src")
            match src with
            | some sb =>
              let its := Platypus.Lex.lexAll sb
              if !(its.any fun i => i.typ = .NUMBER && !Platypus.Parse.numModelled i.val) then
                if (Platypus.Parse.parseItems its).isSome then
                  note := s!"script {name} was rejected by the parser ({J.str (J.get le "msg")}) although its text parses"
            | none => pure ()
      | _ => pure ()
      return note
    -- C04/C02 "evaluated exactly once": in the straight-line programs of the `index-once` family every
    -- written `pr(…)` is one evaluation (the probe records each)
    let onceOk : Bool :=
      if J.str (J.get j "gen") == "index-once" && (io == "ok" || io == "err") then
        ((J.arr (J.get obs "trace")).toList.filter fun ev => J.str ((J.arr ev)[0]?.getD Json.null) == "pr").length ≤ J.nat (J.get j "once")
      else true
    let specGeneric := io != "panic" && io != "crash" && implWellTyped obs && c10.1 && c14.1 && bindOk && parseNote == "" && onceOk
    match checkAll g l with
    | .error (.inl q) => J.obj [("id", J.get j "id"), ("agree", true), ("spec", specGeneric), ("need", J.toHex q), ("note", "")]
    | .error (.inr msg) => J.obj [("id", J.get j "id"), ("agree", false), ("spec", specGeneric), ("note", msg)]
    | .ok grok =>
    let m0 := runModel g l 0 grok
    match m0.need with
    | some q =>
      J.obj [("id", J.get j "id"), ("agree", true), ("spec", specGeneric), ("need", J.toHex q), ("note", "")]
    | none =>
      let d0 := diff m0 obs l.hasSig
      -- map iteration order is unspecified: accept any order of the (≤ 2) map iterations
      let (d, tried) := Id.run do
        if d0 == "" || m0.mapIters == 0 then return (d0, (1 : Nat))
        let mut n : Nat := 1
        -- binary choices for up to 10 map iterations (complete for maps of ≤ 2 keys) …
        let bits := min m0.mapIters 10
        for c in [1:2 ^ bits] do
          let code := (List.range bits).foldl (fun acc i => acc + ((c / 2 ^ i) % 2) * 6 ^ i) 0
          n := n + 1
          if diff (runModel g l code grok) obs l.hasSig == "" then return ("", n)
        -- … then all orders of the first 4 iterations (maps of 3 keys)
        for code in [1:6 ^ (min m0.mapIters 4)] do
          n := n + 1
          if diff (runModel g l code grok) obs l.hasSig == "" then return ("", n)
        return (d0, n)
      let agree := d == ""
      J.obj [("id", J.get j "id"), ("agree", agree), ("spec", specGeneric && (agree || !strict)),
             ("note", if !onceOk then "a subscript written once was evaluated more than once (probe events: " ++ (J.get obs "trace").compress ++ ") | " ++ d else if parseNote != "" then parseNote ++ " | " ++ d else if !bindOk then s!"use() call sites bound to {haveB}, expected {wantB} | " ++ d else if !c10.1 then c10.2 ++ " | " ++ d else if !c14.1 then c14.2 ++ " | " ++ d else d), ("orders", tried), ("moutcome", m0.outcome), ("semok", semCheck g l 0)]

end DrvRun
