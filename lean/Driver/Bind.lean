import Driver.J
import Platypus.Spec.BindSpec
open Lean Platypus Platypus.Bind

namespace DrvBind

def gotStr : Got → String
  | .value e => s!"value{e}"
  | .default => "default"
  | .list es => "list[" ++ " ".intercalate (es.map toString) ++ "]"
  | .error => "error"

def resStr : Option (List Got) → String
  | none => "rejected"
  | some gs => ",".intercalate (gs.map gotStr)

/-- {"k":"bind","params":[[hexname,hasDefault,variadic]…],"defok":b,"calls":[[[ [hexname|"",e]… ], result]…]} -/
def bind (j : Json) : Json := Id.run do
  let ps : List Param := (J.arr (J.get j "params")).toList.map fun p =>
    let a := J.arr p; ⟨J.hx a[0]!, J.bool a[1]!, J.bool a[2]!⟩
  -- names with a rune whose Unicode class the model does not know are not judged
  if ps.any (fun p => !nameModelled p.name) then
    return J.obj [("id", J.get j "id"), ("skipped", "parameter name with a rune outside the model's class table")]
  let mut agree := true
  let mut spec := true
  let mut note := ""
  let mut n := 0
  let defok := J.bool (J.get j "defok")
  if checkDef ps != defok then
    agree := false; note := s!"CheckFnParamDef: model {checkDef ps} impl {defok}"
  if wf ps != defok then
    spec := false; note := s!"parameter list validated as {defok} but well-formedness is {wf ps}"
  for c in J.arr (J.get j "calls") do
    let ca := J.arr c
    let args : List Arg := (J.arr ca[0]!).toList.map fun a =>
      let x := J.arr a
      let nm := J.hx x[0]!
      if nm.isEmpty then Arg.pos (J.nat x[1]!) else Arg.named nm (J.nat x[1]!)
    let impl := J.str ca[1]!
    let m := resStr (implBind ps args)
    n := n + 1
    if m != impl then
      agree := false
      if note == "" then note := s!"call {ca[0]!.compress}: model {m} impl {impl}"
    if wf ps then
      let sp := resStr (bindSpec ps args)
      if sp != impl then
        spec := false; note := s!"call {ca[0]!.compress}: specification {sp} impl {impl}"
  return J.obj [("id", J.get j "id"), ("agree", agree), ("spec", spec), ("n", n), ("note", note)]

/-- kind `typed`: rows [type of the argument, getter asked, outcome].  A typed getter (GetParamInt, …) hands
    over the argument exactly when it has that type and reports an error otherwise -/
def typed (j : Json) : Json := Id.run do
  let mut spec := true
  let mut note := ""
  let mut n := 0
  for r in J.arr (J.get j "rows") do
    let a := J.arr r
    let typ := J.str a[0]!
    let getter := J.str a[1]!
    let res := J.str a[2]!
    n := n + 1
    let want := if typ == getter then "value" else "error"
    if res != want then
      spec := false
      if note == "" then note := s!"the {getter} getter on an argument of type {typ}: {res}, expected {want}"
  return J.obj [("id", J.get j "id"), ("agree", true), ("spec", spec), ("n", n), ("note", note)]

end DrvBind
