import Driver.J
import Platypus.Model.Eval
open Lean Platypus

namespace AstJson

def pos (j : Json) : Pos :=
  let a := J.arr j
  ⟨J.int (a[0]?.getD Json.null), J.int (a[1]?.getD Json.null), J.int (a[2]?.getD Json.null)⟩

def u64 (j : Json) : UInt64 :=
  match j with
  | .str s => (s.toNat?.getD 0).toUInt64
  | _ => (J.nat j).toUInt64

def uop : String → UOp
  | "neg" => .neg | "pos" => .pos | _ => .not
def aop : String → AOp
  | "add" => .add | "sub" => .sub | "mul" => .mul | "div" => .div | _ => .mod
def cop : String → COp
  | "eq" => .eq | "ne" => .ne | "lt" => .lt | "le" => .le | "gt" => .gt | "ge" => .ge | "and" => .and | _ => .or
def asop : String → AsOp
  | "eq" => .eq | "addEq" => .addEq | "subEq" => .subEq | "mulEq" => .mulEq | "divEq" => .divEq | _ => .modEq

mutual
partial def node (j : Json) : Except String Node := do
  let g := J.get j
  match J.str (g "t") with
  | "id" => pure (.ident (J.hx (g "n")) (pos (g "p")))
  | "str" => pure (.strLit (J.hx (g "v")) (pos (g "p")))
  | "int" => pure (.intLit (J.int (g "v")) (pos (g "p")))
  | "float" => pure (.floatLit (u64 (g "v")) (pos (g "p")))
  | "bool" => pure (.boolLit (J.bool (g "v")) (pos (g "p")))
  | "nil" => pure (.nilLit (pos (g "p")))
  | "list" => do pure (.list (← nodes (g "xs")) (pos (g "lb")) (pos (g "rb")))
  | "map" => do
    let kvs ← (J.arr (g "kvs")).toList.mapM fun kv => do
      let a := J.arr kv
      pure ((← node (a[0]?.getD Json.null)), (← node (a[1]?.getD Json.null)))
    pure (.map kvs (pos (g "lb")) (pos (g "rb")))
  | "paren" => do pure (.paren (← node (g "e")) (pos (g "lp")) (pos (g "rp")))
  | "attr" => do pure (.attr (← onode (g "obj")) (← onode (g "attr")) (pos (g "p")))
  | "index" => do
    let obj := if J.isNull (g "obj") then none else some (J.hx (J.get (g "obj") "n"), pos (J.get (g "obj") "p"))
    pure (.index obj (← nodes (g "idx")) ((J.arr (g "lbs")).toList.map pos) ((J.arr (g "rbs")).toList.map pos))
  | "unary" => do pure (.unary (uop (J.str (g "op"))) (← node (g "e")) (pos (g "p")))
  | "arith" => do pure (.arith (aop (J.str (g "op"))) (← node (g "l")) (← node (g "r")) (pos (g "p")))
  | "cond" => do pure (.cond (cop (J.str (g "op"))) (← node (g "l")) (← node (g "r")) (pos (g "p")))
  | "in" => do pure (.inE (← node (g "l")) (← node (g "r")) (pos (g "p")))
  | "assign" => do pure (.assign (asop (J.str (g "op"))) (← nodes (g "lhs")) (← nodes (g "rhs")) (pos (g "p")))
  | "call" => do pure (.call (J.hx (g "n")) (← nodes (g "args")) (pos (g "np")) (pos (g "lp")) (pos (g "rp")) (J.nat (g "site")))
  | "slice" => do pure (.slice (← node (g "obj")) (← onode (g "s")) (← onode (g "e")) (← onode (g "st")) (J.bool (g "c2")) (pos (g "lb")) (pos (g "rb")))
  | "if" => do
    let ifs ← (J.arr (g "ifs")).toList.mapM fun i => do
      pure ((← node (J.get i "c")), (← oblock (J.get i "b")), pos (J.get i "p"))
    pure (.ifelse ifs (← oblock (g "els")) (pos (g "ep")))
  | "for" => do pure (.forS (← onode (g "init")) (← onode (g "c")) (← onode (g "loop")) (← oblock (g "b")) (pos (g "p")))
  | "forin" => do pure (.forIn (← node (g "var")) (← node (g "iter")) (← oblock (g "b")) (pos (g "fp")) (pos (g "ip")))
  | "break" => pure (.brk (pos (g "p")))
  | "continue" => pure (.cont (pos (g "p")))
  | t => throw s!"unknown node kind {t}"
partial def onode (j : Json) : Except String (Option Node) :=
  if J.isNull j then pure none else some <$> node j
partial def nodes (j : Json) : Except String (List Node) := (J.arr j).toList.mapM node
partial def oblock (j : Json) : Except String (Option (List Node)) :=
  if J.isNull j then pure none else some <$> nodes j
end

/-- collect (site, bound script name) of every call node -/
partial def bounds (j : Json) (acc : List (Nat × Bytes)) : List (Nat × Bytes) :=
  match j with
  | .arr a => a.foldl (fun acc x => bounds x acc) acc
  | .obj _ =>
    let acc := if J.str (J.get j "t") == "call" && !J.isNull (J.get j "bound")
      then (J.nat (J.get j "site"), J.hx (J.get j "bound")) :: acc else acc
    match j with
    | .obj kvs => kvs.foldl (fun acc _ v => bounds v acc) acc
    | _ => acc
  | _ => acc

/-- every `use("lit")` call node: (site, lit) -/
partial def useSites (j : Json) (acc : List (Nat × Bytes)) : List (Nat × Bytes) :=
  match j with
  | .arr a => a.foldl (fun acc x => useSites x acc) acc
  | .obj kvs =>
    let acc :=
      if J.str (J.get j "t") == "call" && J.hx (J.get j "n") == "use".toUTF8.toList then
        match (J.arr (J.get j "args")).toList with
        | [a] => if J.str (J.get a "t") == "str" then (J.nat (J.get j "site"), J.hx (J.get a "v")) :: acc else acc
        | _ => acc
      else acc
    kvs.foldl (fun acc _ v => useSites v acc) acc
  | _ => acc

end AstJson
