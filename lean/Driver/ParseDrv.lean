import Driver.J
import Platypus.Model.Parse
open Lean Platypus Platypus.Parse

/-! C06 driver: the model parser (lexer model + `Parse.parse`) on the same text as the real parser.
    Trees are compared through one canonical rendering, positions dropped; literals by value. -/
namespace DrvParse

def hexs (b : Bytes) : String := J.toHex b

def bopName : BOp → String
  | .or => "or" | .and => "and" | .in_ => "in" | .gte => "ge" | .gt => "gt" | .neq => "ne" | .eqeq => "eq"
  | .lte => "le" | .lt => "lt" | .add => "add" | .sub => "sub" | .mul => "mul" | .div => "div" | .mod => "mod"
def unName : UnOp → String | .pos => "pos" | .neg => "neg" | .not => "not"
def asName : AsgOp → String
  | .eq => "eq" | .addEq => "addEq" | .subEq => "subEq" | .mulEq => "mulEq" | .divEq => "divEq" | .modEq => "modEq"

def identName (q : Bool) (v : Bytes) : String := hexs (if q then (Unq.unquote v).getD [] else v)

def sepBy (xs : List String) : String := ",".intercalate xs

mutual
/-- canonical rendering of a model tree; literal tokens are read as the parser reads them -/
partial def canon : PT → String
  | .ident q v => s!"id({identName q v})"
  | .num neg v =>
    match Unq.parseInt0 v with
    | some n => s!"int({if neg then -n else n})"
    | none => s!"float({neg != false},{zeroNum v})"
  | .str m v => s!"str({hexs ((if m then Unq.unquoteMultiline v else Unq.unquote v).getD [])})"
  | .bool b => s!"bool({b})"
  | .nil => "nil"
  | .list xs => s!"list[{sepBy (xs.map canon)}]"
  | .map kvs => s!"map[{sepBy (kvs.map fun (k, v) => canon k ++ ":" ++ canon v)}]"
  | .paren e => s!"paren({canon e})"
  | .attr o a => s!"attr({canon o},{canon a})"
  | .index o idx => s!"index({match o with | some (q, v) => identName q v | none => "-"};{sepBy (idx.map canon)})"
  | .unary op e => s!"unary({unName op},{canon e})"
  | .bin op l r => s!"bin({bopName op},{canon l},{canon r})"
  | .assign op l r => s!"assign({asName op};{sepBy (l.map canon)};{sepBy (r.map canon)})"
  | .call q n args => s!"call({identName q n};{sepBy (args.map canon)})"
  | .slice o a b c c2 => s!"slice({canon o};{copt a};{copt b};{copt c};{c2})"
  | .ifelse ifs els => s!"if({sepBy (ifs.map fun (c, b) => canon c ++ "?" ++ cblock b)};{match els with | some b => cblock b | none => "-"})"
  | .forS i c l b => s!"for({copt i};{copt c};{copt l};{cblock b})"
  | .forIn v it b => s!"forin({canon v};{canon it};{cblock b})"
  | .brk => "break"
  | .cont => "continue"
partial def copt : Option PT → String
  | some e => canon e
  | none => "-"
partial def cblock (b : List PT) : String := "{" ++ sepBy (b.map canon) ++ "}"
end

mutual
/-- the same rendering of the implementation's dumped tree -/
partial def canonJ (j : Json) : String :=
  let g := J.get j
  if J.isNull j then "-" else
  match J.str (g "t") with
  | "id" => s!"id({J.str (g "n")})"
  | "int" => s!"int({J.int (g "v")})"
  | "float" =>
    let bits := match g "v" with | .str s => s.toNat?.getD 0 | x => J.nat x
    s!"float({decide (bits ≥ 9223372036854775808)},{decide (bits % 9223372036854775808 = 0)})"
  | "str" => s!"str({J.str (g "v")})"
  | "bool" => s!"bool({J.bool (g "v")})"
  | "nil" => "nil"
  | "list" => s!"list[{sepBy ((J.arr (g "xs")).toList.map canonJ)}]"
  | "map" => s!"map[{sepBy ((J.arr (g "kvs")).toList.map fun kv => let a := J.arr kv; canonJ a[0]! ++ ":" ++ canonJ a[1]!)}]"
  | "paren" => s!"paren({canonJ (g "e")})"
  | "attr" => s!"attr({canonJ (g "obj")},{canonJ (g "attr")})"
  | "index" => s!"index({if J.isNull (g "obj") then "-" else J.str (J.get (g "obj") "n")};{sepBy ((J.arr (g "idx")).toList.map canonJ)})"
  | "unary" => s!"unary({J.str (g "op")},{canonJ (g "e")})"
  | "arith" => s!"bin({J.str (g "op")},{canonJ (g "l")},{canonJ (g "r")})"
  | "cond" => s!"bin({J.str (g "op")},{canonJ (g "l")},{canonJ (g "r")})"
  | "in" => s!"bin(in,{canonJ (g "l")},{canonJ (g "r")})"
  | "assign" => s!"assign({J.str (g "op")};{sepBy ((J.arr (g "lhs")).toList.map canonJ)};{sepBy ((J.arr (g "rhs")).toList.map canonJ)})"
  | "call" => s!"call({J.str (g "n")};{sepBy ((J.arr (g "args")).toList.map canonJ)})"
  | "slice" => s!"slice({canonJ (g "obj")};{canonJ (g "s")};{canonJ (g "e")};{canonJ (g "st")};{J.bool (g "c2")})"
  | "if" => s!"if({sepBy ((J.arr (g "ifs")).toList.map fun i => canonJ (J.get i "c") ++ "?" ++ cblockJ (J.get i "b"))};{cblockJ (g "els")})"
  | "for" => s!"for({canonJ (g "init")};{canonJ (g "c")};{canonJ (g "loop")};{cblockJ (g "b")})"
  | "forin" => s!"forin({canonJ (g "var")};{canonJ (g "iter")};{cblockJ (g "b")})"
  | "break" => "break"
  | "continue" => "continue"
  | t => s!"?{t}"
partial def cblockJ (j : Json) : String :=
  if J.isNull j then "-" else "{" ++ sepBy ((J.arr j).toList.map canonJ) ++ "}"
end

def boolOf : BOp → Bool := fun _ => true

def bopOf : String → BOp
  | "or" => .or | "and" => .and | "in" => .in_ | "ge" => .gte | "gt" => .gt | "ne" => .neq | "eq" => .eqeq
  | "le" => .lte | "lt" => .lt | "add" => .add | "sub" => .sub | "mul" => .mul | "div" => .div | _ => .mod
def unOfS : String → UnOp | "pos" => .pos | "neg" => .neg | _ => .not
def asOfS : String → AsgOp
  | "eq" => .eq | "addEq" => .addEq | "subEq" => .subEq | "mulEq" => .mulEq | "divEq" => .divEq | _ => .modEq

mutual
/-- the generator's tree (the tree the text was printed from), in the model's own format -/
partial def ptOf (j : Json) : PT :=
  let g := J.get j
  match J.str (g "t") with
  | "ident" => .ident (J.bool (g "q")) (J.hx (g "v"))
  | "num" => .num (J.bool (g "neg")) (J.hx (g "v"))
  | "str" => .str (J.bool (g "m")) (J.hx (g "v"))
  | "bool" => .bool (J.bool (g "b"))
  | "nil" => .nil
  | "list" => .list (ptsOf (g "xs"))
  | "map" => .map ((J.arr (g "kvs")).toList.map fun kv => let a := J.arr kv; (ptOf a[0]!, ptOf a[1]!))
  | "paren" => .paren (ptOf (g "e"))
  | "attr" => .attr (ptOf (g "obj")) (ptOf (g "attr"))
  | "index" => .index (if J.isNull (g "obj") then none else some (J.bool (J.get (g "obj") "q"), J.hx (J.get (g "obj") "v"))) (ptsOf (g "idx"))
  | "unary" => .unary (unOfS (J.str (g "op"))) (ptOf (g "e"))
  | "bin" => .bin (bopOf (J.str (g "op"))) (ptOf (g "l")) (ptOf (g "r"))
  | "assign" => .assign (asOfS (J.str (g "op"))) (ptsOf (g "lhs")) (ptsOf (g "rhs"))
  | "call" => .call (J.bool (g "q")) (J.hx (g "n")) (ptsOf (g "args"))
  | "slice" => .slice (ptOf (g "obj")) (poptOf (g "a")) (poptOf (g "b")) (poptOf (g "c")) (J.bool (g "c2"))
  | "if" => .ifelse ((J.arr (g "ifs")).toList.map fun i => (ptOf (J.get i "c"), ptsOf (J.get i "b")))
      (if J.isNull (g "els") then none else some (ptsOf (g "els")))
  | "for" => .forS (poptOf (g "init")) (poptOf (g "c")) (poptOf (g "loop")) (ptsOf (g "b"))
  | "forin" => .forIn (ptOf (g "var")) (ptOf (g "iter")) (ptsOf (g "b"))
  | "break" => .brk
  | _ => .cont
partial def ptsOf (j : Json) : List PT := (J.arr j).toList.map ptOf
partial def poptOf (j : Json) : Option PT := if J.isNull j then none else some (ptOf j)
end

def canonProg (ss : List PT) : String := sepBy (ss.map canon)

/-- the implementation renders an `if` without block as "-"; the grammar always gives one -/
def parseCase (j : Json) : Json := Id.run do
  let src := J.hx (J.get j "src")
  let id := J.get j "id"
  if !J.isNull (J.get j "parse_death") then
    return J.obj [("id", id), ("agree", false), ("spec", false), ("note", s!"parser process ended: {J.str (J.get j "parse_death")}")]
  let its := Lex.lexAll src
  -- numbers whose validity only strconv.ParseFloat decides are outside the model
  if its.any (fun i => i.typ = .NUMBER && !numModelled i.val) then
    return J.obj [("id", id), ("skipped", "number spelling decided by strconv.ParseFloat")]
  let model := parseItems its
  let implErr := J.bool (J.get j "has_err")
  let implC := if implErr then none else some (sepBy ((J.arr (J.get j "ast")).toList.map canonJ))
  let modelC := model.map canonProg
  let agree := modelC == implC
  let want := J.get j "want"
  let (spec, snote) :=
    if J.isNull want then (true, "")
    else
      let w := canonProg (ptsOf want)
      match implC with
      | none => (false, s!"the text printed from the tree was rejected: {J.str (J.get j "msg")}")
      | some c => if c == w then (true, "") else (false, s!"parsed tree differs from the tree the text was printed from: want {w} got {c}")
  let note := if !spec then snote else if agree then "" else
    s!"model {modelC.getD "error"} impl {implC.getD ("error " ++ J.str (J.get j "msg"))}"
  return J.obj [("id", id), ("agree", agree), ("spec", spec), ("note", note)]

end DrvParse
