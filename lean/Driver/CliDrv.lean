import Driver.J
open Lean

namespace DrvCli

/-- drop the time token when the library run left the (text-input) time at the epoch placeholder:
    the runner stamps text input with the current time -/
def maskTime (s : String) (mask : Bool) : String :=
  if !mask then s.trimAscii.toString
  else
    let lines := (s.trimAscii.toString.splitOn "\n").filter (fun l => !(l.trimAscii.toString.startsWith "\"time\":"))
    let joined := "\n".intercalate lines
    -- line protocol: the last blank-separated token of the (single) line is the timestamp
    if joined.startsWith "{" then joined
    else
      let toks := joined.splitOn " "
      " ".intercalate toks.dropLast

def cli (j : Json) : Json :=
  let printed := J.str (J.get j "printed")
  let lib := J.str (J.get j "lib")
  let libErr := J.str (J.get j "lib_err")
  let noinput := J.bool (J.get j "noinput")
  let exit := J.int (J.get j "exit")
  let (ok, note) : Bool × String :=
    if exit == -1 then (false, "the runner did not terminate")
    else if J.bool (J.get j "crashed") then (false, s!"the runner crashed: {(J.str (J.get j "stderr_tail")).take 200}")
    else if noinput then
      (if printed == "" then (true, "") else (false, "output printed although no input file was given"))
    else if libErr != "" then
      if printed != "" then (false, s!"output printed although the library reports {libErr}")
      else
        -- a load or run error is *reported*: the runner's error output names the library's error
        -- (its first line: position and message)
        let body := if libErr.startsWith "load-error: " then (libErr.drop 12).toString
                    else if libErr.startsWith "run-error: " then (libErr.drop 11).toString else ""
        let first := (body.splitOn "\n").headD ""
        let shown := J.str (J.get j "stderr_head") ++ J.str (J.get j "stdout_tail")
        if first != "" && !J.isNull (J.get j "stderr_head") && (shown.splitOn first).length < 2 then
          (false, s!"the library reports '{first}' but the runner's output does not mention it: {(J.str (J.get j "stderr_head")).take 200}")
        else (true, "")
    else
      let unsetTime := J.str (J.get j "type") == "text" && (lib.splitOn "1970-01-01T00:00:00Z").length + (if lib.trimAscii.toString.endsWith " 0" then 1 else 0) > 1
      if maskTime printed unsetTime == maskTime lib unsetTime then (true, "")
      else (false, s!"printed {printed.take 300} but the library yields {lib.take 300}")
  J.obj [("id", J.get j "id"), ("agree", ok), ("spec", ok), ("note", note)]

end DrvCli
