import Driver.J
import Platypus.Model.Lexer
import Platypus.Spec.LnColSpec
open Lean Platypus Platypus.Lex

namespace DrvLex

def tokName (t : Tok) : String := (reprStr t).replace "Platypus.Lex.Tok." ""

/-- C05 on the implementation's own outputs: the items (up to EOF/ERROR) are in order, do not
    overlap, each spells exactly the source text cur its position, and only blanks (space, tab, CR)
    are skipped between them; the parser ended with exactly one of a tree and an error, the error is
    positioned inside the source with the line/column of its offset -/
def spec (src : Bytes) (items : List (String × Nat × Bytes)) (j : Json) : Bool × String := Id.run do
  let mut cur := 0
  for (name, pos, val) in items do
    if pos < cur then return (false, s!"item {name} at {pos} overlaps the previous item ending cur {cur}")
    if name == "ERROR" then
      -- the diagnostic ends the stream; the text from the last token to it is the offending lexeme
      if pos > src.length then return (false, "error item beyond the source")
      break
    -- the gap consists of blanks only
    if !(((src.drop cur).take (pos - cur)).all fun c => c == 32 || c == 9 || c == 13) then
      return (false, s!"non-blank source skipped before item {name} at {pos}")
    if name == "EOF" then
      if pos != src.length then return (false, s!"EOF item at {pos}, source length {src.length}")
    else
      if (src.drop pos).take val.length != val then return (false, s!"item {name} at {pos} does not spell the source text")
      if val.isEmpty then return (false, s!"empty item {name} at {pos}")
    cur := pos + val.length
  -- the parser's verdict
  if !J.isNull (J.get j "parse_death") then return (false, s!"parser process ended: {J.str (J.get j "parse_death")}")
  let ht := J.bool (J.get j "has_tree")
  let he := J.bool (J.get j "has_err")
  if ht == he then return (false, s!"parser returned tree={ht} error={he}")
  -- a text the lexer refuses (its item stream ends in an ERROR item) is not a program, whatever the
  -- items before the fault spell
  if ht && items.any (fun it => it.1 == "ERROR") then
    return (false, "the lexer refuses the text (ERROR item) but the parser returned a tree and no error")
  if he then
    let e := J.get j "err"
    if J.bool (J.get e "plain") then return (false, s!"position-less error: {J.str (J.get e "msg")}")
    match (J.arr (J.get e "chain"))[0]? with
    | none => return (false, "error without position")
    | some c =>
      let a := J.arr c
      let pos := J.int a[1]!
      let ln := J.int a[2]!
      let col := J.int a[3]!
      match Platypus.LnCol.spec src pos with
      | none => return (false, s!"error position {pos} outside the source (length {src.length})")
      | some lc =>
        if ln != lc.ln || col != lc.col then return (false, s!"error line/col {ln}:{col} is not that of offset {pos} ({lc.ln}:{lc.col})")
  return (true, "")

def lex (j : Json) : Json := Id.run do
  let src := J.hx (J.get j "src")
  let impl : List (String × Nat × Bytes) := (J.arr (J.get j "items")).toList.map fun it =>
    let a := J.arr it; (J.str a[0]!, J.nat a[1]!, J.hx a[2]!)
  let model := (lexAll src).map fun it => (tokName it.typ, it.pos, if it.typ = .ERROR then [] else it.val)
  let agree := model == impl
  let note := if agree then "" else
    let pairs := model.zip impl
    match pairs.find? (fun (a, b) => a != b) with
    | some (a, b) => s!"first differing item: model {a.1}@{a.2.1} impl {b.1}@{b.2.1}"
    | none => s!"item count: model {model.length} impl {impl.length}"
  let (sp, sn) := spec src impl j
  return J.obj [("id", J.get j "id"), ("agree", agree), ("spec", sp), ("note", if sp then note else sn ++ " | " ++ note)]

end DrvLex
