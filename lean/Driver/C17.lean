import Driver.J
import Platypus.Spec.LnColSpec
open Lean Platypus.LnCol

namespace DrvC17

def lcOfJson (ln col : Int) : Option LC := if ln < 0 then none else some ⟨ln.toNat, col.toNat⟩
def lcStr : Option LC → String
  | none => "invalid"
  | some ⟨l, c⟩ => s!"{l}:{c}"

/-- one line: {"id","k":"lncol","q":hex,"res":[[pos,cacheLn,cacheCol,linLn,linCol],...]} (−1 = invalid) -/
def lncol (j : Json) : Json := Id.run do
  let q := J.hx (J.get j "q")
  let mut agree := true
  let mut spec := true
  let mut note := ""
  let mut n := 0
  for r in J.arr (J.get j "res") do
    let a := J.arr r
    let pos := J.int a[0]!
    let ic := lcOfJson (J.int a[1]!) (J.int a[2]!)
    let il := lcOfJson (J.int a[3]!) (J.int a[4]!)
    let mc := cacheLnCol q pos
    let ml := linearLnCol q pos
    let sp := Platypus.LnCol.spec q pos
    n := n + 1
    if mc != ic || ml != il then
      agree := false
      if note == "" then note := s!"pos={pos} model cache={lcStr mc} lin={lcStr ml} impl cache={lcStr ic} lin={lcStr il}"
    if ic != sp || il != sp then
      spec := false
      note := s!"pos={pos} spec={lcStr sp} impl cache={lcStr ic} lin={lcStr il}"
  return J.obj [("id", J.get j "id"), ("agree", agree), ("spec", spec), ("n", n), ("note", note)]

def handle (j : Json) : Json :=
  match J.str (J.get j "k") with
  | "lncol" => lncol j
  | k => J.obj [("id", J.get j "id"), ("agree", false), ("spec", true), ("note", s!"unknown kind {k}")]

end DrvC17
