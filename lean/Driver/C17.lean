import Driver.J
import Platypus.Spec.LnColSpec
import Platypus.Model.ErrChain
import Platypus.Model.ParsePos
open Lean Platypus.LnCol

namespace DrvC17

def lcOfJson (ln col : Int) : Option LC := if ln < 0 then none else some ⟨ln.toNat, col.toNat⟩
def lcStr : Option LC → String
  | none => "invalid"
  | some ⟨l, c⟩ => s!"{l}:{c}"

/-- one line: {"id","k":"lncol","q":hex,"res":[[pos,cacheLn,cacheCol,linLn,linCol],...]} (−1 = invalid) -/
def lncol (j : Json) : Json := Id.run do
  let q := J.hx (J.get j "q")
  let mut agree := true
  let mut spec := true
  let mut note := ""
  let mut n := 0
  for r in J.arr (J.get j "res") do
    let a := J.arr r
    let pos := J.int a[0]!
    let ic := lcOfJson (J.int a[1]!) (J.int a[2]!)
    let il := lcOfJson (J.int a[3]!) (J.int a[4]!)
    let mc := cacheLnCol q pos
    let ml := linearLnCol q pos
    let sp := Platypus.LnCol.spec q pos
    n := n + 1
    if mc != ic || ml != il then
      agree := false
      if note == "" then note := s!"pos={pos} model cache={lcStr mc} lin={lcStr ml} impl cache={lcStr ic} lin={lcStr il}"
    if ic != sp || il != sp then
      spec := false
      note := s!"pos={pos} spec={lcStr sp} impl cache={lcStr ic} lin={lcStr il}"
  return J.obj [("id", J.get j "id"), ("agree", agree), ("spec", spec), ("n", n), ("note", note)]

/-! ### positions stored in the syntax tree (kind `treepos`) -/

def lowerB (b : List UInt8) : List UInt8 := b.map fun c => if 65 ≤ c && c ≤ 90 then c + 32 else c

/-- the source at offset `pos` starts with one of the given spellings (compared in lower case) -/
def spells (src : List UInt8) (pos : Int) (alts : List String) : Bool :=
  pos ≥ 0 && alts.any fun a =>
    let ab := a.toUTF8.toList
    lowerB ((src.drop pos.toNat).take ab.length) == ab

/-- a dumped position `[pos, ln, col]`: line and column are those of the offset -/
def lcOk (src : List UInt8) (p : Json) : Bool :=
  let a := J.arr p
  match Platypus.LnCol.spec src (J.int a[0]!) with
  | some lc => J.int a[1]! == lc.ln && J.int a[2]! == lc.col
  | none => false

def posOf (p : Json) : Int := J.int (J.arr p)[0]!

def arithSym : String → List String
  | "add" => ["+"] | "sub" => ["-"] | "mul" => ["*"] | "div" => ["/"] | "mod" => ["%"]
  | "eq" => ["=="] | "ne" => ["!="] | "lt" => ["<"] | "le" => ["<="] | "gt" => [">"] | "ge" => [">="]
  | "and" => ["&&"] | "or" => ["||"] | _ => []
def asgSym : String → List String
  | "eq" => ["="] | "addEq" => ["+="] | "subEq" => ["-="] | "mulEq" => ["*="] | "divEq" => ["/="] | "modEq" => ["%="] | _ => []

/-- offset of the first token of an identifier / index / attribute expression -/
partial def leftmost (j : Json) : Option Int :=
  match J.str (J.get j "t") with
  | "id" => some (posOf (J.get j "p"))
  | "index" =>
    if J.isNull (J.get j "obj") then
      -- `.[i]`: ast.NodeStartPos takes the first bracket
      (J.arr (J.get j "lbs"))[0]?.map fun p => posOf p
    else some (posOf (J.get (J.get j "obj") "p"))
  | "attr" => leftmost (J.get j "obj")
  | _ => none

/-- walk the dumped tree; every stored position must carry the line/column of its offset and the
    source must spell the node's token there.  Returns the first complaint. -/
partial def treeCheck (src : List UInt8) (j : Json) : Option String :=
  match j with
  | .arr a => a.foldl (fun acc x => acc <|> treeCheck src x) none
  | .obj kvs =>
    let g := J.get j
    let t := J.str (g "t")
    let want (field : String) (alts : List String) : Option String :=
      let p := g field
      if J.isNull p then none
      else if !lcOk src p then some s!"{t}.{field}: line/column of {p.compress} are not those of its offset"
      else if !spells src (posOf p) alts then some s!"{t}.{field} at {posOf p}: the source does not spell {alts} there"
      else none
    let wantAll (field : String) (alts : List String) : Option String :=
      (J.arr (g field)).foldl (fun acc p =>
        acc <|> (if !lcOk src p then some s!"{t}.{field}: line/column of {p.compress} are not those of its offset"
                 else if !spells src (posOf p) alts then some s!"{t}.{field} at {posOf p}: the source does not spell {alts} there" else none)) none
    -- (the name as text: identifiers are valid UTF-8; bytes that are not fall back to one character per byte)
    let name (h : Json) : List String :=
      let b := lowerB (J.hx h)
      [(String.fromUTF8? (ByteArray.mk b.toArray)).getD (String.ofList (b.map fun c => Char.ofNat c.toNat)), "`"]
    let digits := ["0","1","2","3","4","5","6","7","8","9",".","+","-"]
    let own : Option String :=
      match t with
      | "id" => want "p" (name (g "n"))
      | "str" => want "p" ["\"", "'"]
      | "int" => want "p" digits
      | "float" => want "p" (digits ++ ["i", "n"])   -- also the special numbers `inf`, `nan` (any letter case)
      | "bool" => want "p" ["true", "false"]
      | "nil" => want "p" ["nil", "null"]
      | "list" => want "lb" ["["] <|> want "rb" ["]"]
      | "map" => want "lb" ["{"] <|> want "rb" ["}"]
      | "paren" => want "lp" ["("] <|> want "rp" [")"]
      | "index" =>
        (if J.isNull (g "obj") then none else
          let o := g "obj"
          if !lcOk src (J.get o "p") then some "index.obj: line/column" else
          if !spells src (posOf (J.get o "p")) (name (J.get o "n")) then some s!"index.obj at {posOf (J.get o "p")}: the source does not spell the name there" else none)
        <|> wantAll "lbs" ["["] <|> wantAll "rbs" ["]"]
      | "attr" =>
        let p := g "p"
        if !lcOk src p then some s!"attr.p: line/column of {p.compress} are not those of its offset"
        else match leftmost j with
          | some st => if posOf p == st then none else some s!"attr.p is {posOf p}, the expression starts at {st}"
          | none => none
      | "unary" => want "p" (match J.str (g "op") with | "neg" => ["-"] | "pos" => ["+"] | _ => ["!"])
      | "arith" => want "p" (arithSym (J.str (g "op")))
      | "cond" => want "p" (arithSym (J.str (g "op")))
      | "in" => want "p" ["in"]
      | "assign" => want "p" (asgSym (J.str (g "op")))
      | "call" => want "np" (name (g "n")) <|> want "lp" ["("] <|> want "rp" [")"]
      | "slice" => want "lb" ["["] <|> want "rb" ["]"]
      | "if" =>
        ((J.arr (g "ifs")).toList.zipIdx.foldl (fun acc (i, k) =>
          acc <|> (let p := J.get i "p"
                   if !lcOk src p then some "if.p: line/column" else
                   if !spells src (posOf p) [if k == 0 then "if" else "elif"] then some s!"if element {k} at {posOf p}: keyword not there" else none)) none)
        <|> (if J.isNull (g "els") then none else want "ep" ["else"])
      | "for" => want "p" ["for"]
      | "forin" => want "fp" ["for"] <|> want "ip" ["in"]
      | "break" => want "p" ["break"]
      | "continue" => want "p" ["continue"]
      | _ => none
    own <|> kvs.foldl (fun acc _ v => acc <|> treeCheck src v) none
  | _ => none

/-! ### the position-carrying parser model against the stored positions (kind `treepos`) -/

open Platypus.ParsePos in
mutual
/-- positions only, in the order of the dump -/
partial def ppPos : PP → String
  | .ident _ _ p => s!"(id {p})"
  | .num _ _ p _ => s!"(num {p})"
  | .str _ _ p => s!"(str {p})"
  | .bool _ p => s!"(bool {p})"
  | .nil p _ => s!"(nil {p})"
  | .list xs lb rb => s!"(list {lb} {rb}{ppL xs})"
  | .map kvs lb rb => s!"(map {lb} {rb}{String.join (kvs.map fun (k, v) => " (" ++ ppPos k ++ " " ++ ppPos v ++ ")")})"
  | .paren e lp rp => s!"(paren {lp} {rp} {ppPos e})"
  | .attr o a p => s!"(attr {p} {ppPos o} {ppPos a})"
  | .index obj idx lbs rbs => s!"(index {match obj with | some o => toString o.2.2 | none => "-"} {lbs} {rbs}{ppL idx})"
  | .unary _ e p => s!"(unary {p} {ppPos e})"
  | .bin _ l r p => s!"(bin {p} {ppPos l} {ppPos r})"
  | .assign _ l r p => s!"(assign {p} [{ppL l}] [{ppL r}])"
  | .call _ _ args np lp rp => s!"(call {np} {lp} {rp}{ppL args})"
  | .slice o a b c _ lb rb => s!"(slice {lb} {rb} {ppPos o} {ppO a} {ppO b} {ppO c})"
  | .ifelse ifs els =>
    s!"(if{String.join (ifs.map fun (p, c, b) => s!" ({p} {ppPos c} [{ppL b}])")} {match els with | some (ep, b) => s!"({ep} [{ppL b}])" | none => "-"})"
  | .forS i c l b p => s!"(for {p} {ppO i} {ppO c} {ppO l} [{ppL b}])"
  | .forIn v it b fp ip => s!"(forin {fp} {ip} {ppPos v} {ppPos it} [{ppL b}])"
  | .brk p => s!"(break {p})"
  | .cont p => s!"(continue {p})"
partial def ppL (xs : List Platypus.ParsePos.PP) : String := String.join (xs.map fun x => " " ++ ppPos x)
partial def ppO : Option Platypus.ParsePos.PP → String
  | some x => ppPos x
  | none => "-"
end

mutual
/-- the same rendering of the implementation's dumped tree -/
partial def jsPos (j : Json) : String :=
  let g := J.get j
  let p (k : String) : Int := posOf (g k)
  if J.isNull j then "-" else
  match J.str (g "t") with
  | "id" => s!"(id {p "p"})"
  | "int" | "float" => s!"(num {p "p"})"
  | "str" => s!"(str {p "p"})"
  | "bool" => s!"(bool {p "p"})"
  | "nil" => s!"(nil {p "p"})"
  | "list" => s!"(list {p "lb"} {p "rb"}{jsL (g "xs")})"
  | "map" => s!"(map {p "lb"} {p "rb"}{String.join ((J.arr (g "kvs")).toList.map fun kv => let a := J.arr kv; " (" ++ jsPos a[0]! ++ " " ++ jsPos a[1]! ++ ")")})"
  | "paren" => s!"(paren {p "lp"} {p "rp"} {jsPos (g "e")})"
  | "attr" => s!"(attr {p "p"} {jsPos (g "obj")} {jsPos (g "attr")})"
  | "index" =>
    let o := if J.isNull (g "obj") then "-" else toString (posOf (J.get (g "obj") "p"))
    let ps (k : String) : List Int := (J.arr (g k)).toList.map posOf
    s!"(index {o} {ps "lbs"} {ps "rbs"}{jsL (g "idx")})"
  | "unary" => s!"(unary {p "p"} {jsPos (g "e")})"
  | "arith" | "cond" | "in" => s!"(bin {p "p"} {jsPos (g "l")} {jsPos (g "r")})"
  | "assign" => s!"(assign {p "p"} [{jsL (g "lhs")}] [{jsL (g "rhs")}])"
  | "call" => s!"(call {p "np"} {p "lp"} {p "rp"}{jsL (g "args")})"
  | "slice" => s!"(slice {p "lb"} {p "rb"} {jsPos (g "obj")} {jsPos (g "s")} {jsPos (g "e")} {jsPos (g "st")})"
  | "if" =>
    let elems := String.join ((J.arr (g "ifs")).toList.map fun i => s!" ({posOf (J.get i "p")} {jsPos (J.get i "c")} [{jsL (J.get i "b")}])")
    s!"(if{elems} {if J.isNull (g "els") then "-" else s!"({p "ep"} [{jsL (g "els")}])"})"
  | "for" => s!"(for {p "p"} {jsPos (g "init")} {jsPos (g "c")} {jsPos (g "loop")} [{jsL (g "b")}])"
  | "forin" => s!"(forin {p "fp"} {p "ip"} {jsPos (g "var")} {jsPos (g "iter")} [{jsL (g "b")}])"
  | "break" => s!"(break {p "p"})"
  | "continue" => s!"(continue {p "p"})"
  | t => s!"?{t}"
partial def jsL (j : Json) : String := String.join ((J.arr j).toList.map fun x => " " ++ jsPos x)
end

def treepos (j : Json) : Json :=
  let src := J.hx (J.get j "src")
  -- the position-carrying parser model on the same text (skipped for number spellings only
  -- strconv.ParseFloat decides)
  let its := Platypus.Lex.lexAll src
  let modelled := !(its.any fun i => i.typ = .NUMBER && !Platypus.Parse.numModelled i.val)
  let (agree, anote) : Bool × String :=
    if !modelled then (true, "") else
    match Platypus.ParsePos.parsePosItems its with
    | none => (false, "the position-carrying parser model rejects a text the implementation parsed")
    | some tps =>
      let m := ppL tps
      let i := jsL (J.get j "ast")
      if m == i then (true, "") else (false, s!"stored positions: model {m} impl {i}")
  match treeCheck src (J.get j "ast") with
  | none => J.obj [("id", J.get j "id"), ("agree", agree), ("spec", true), ("note", anote)]
  | some msg => J.obj [("id", J.get j "id"), ("agree", agree), ("spec", false), ("note", msg ++ " | " ++ anote)]

/-! ### positions of errors (kind `errpos`) -/

/-- the error names the script at fault and a position inside the statement at fault; every
    position of the chain carries the line/column of its offset in its own file -/
def errpos (j : Json) : Json := Id.run do
  let id := J.get j "id"
  let srcs := J.get j "srcs"
  let chain := (J.arr (J.get (J.get j "err") "chain")).toList
  match chain with
  | [] => return J.obj [("id", id), ("agree", true), ("spec", false), ("note", "error without a position")]
  | first :: _ =>
    let a := J.arr first
    let file := J.str a[0]!
    let pos := J.int a[1]!
    if file != J.str (J.get j "file") then
      return J.obj [("id", id), ("agree", true), ("spec", false), ("note", s!"error names file {file}, the fault is in {J.str (J.get j "file")}")]
    let span := J.arr (J.get j "span")
    if span.size == 2 && !(J.int span[0]! ≤ pos && pos < J.int span[1]!) then
      return J.obj [("id", id), ("agree", true), ("spec", false), ("note", s!"error position {pos} is outside the statement at fault [{J.int span[0]!}, {J.int span[1]!})")]
    for c in chain do
      let a := J.arr c
      let src := J.hx (J.get srcs (J.str a[0]!))
      match Platypus.LnCol.spec src (J.int a[1]!) with
      | none => return J.obj [("id", id), ("agree", true), ("spec", false), ("note", s!"chain position {J.int a[1]!} is beyond the source of its file")]
      | some lc =>
        if J.int a[2]! != lc.ln || J.int a[3]! != lc.col then
          return J.obj [("id", id), ("agree", true), ("spec", false), ("note", s!"chain position {J.int a[1]!}: line/column {J.int a[2]!}:{J.int a[3]!} are not those of the offset ({lc.ln}:{lc.col})")]
    -- the rendering of the real error: `file:ln:col: message` and one `file:ln:col:` line per outer call site
    let ej := J.get j "err"
    if !J.isNull (J.get ej "text") then
      let pe : Platypus.ErrChain.PlE :=
        ⟨chain.map fun c => let a := J.arr c; ⟨J.hx a[0]!, J.int a[2]!, J.int a[3]!, J.int a[1]!⟩, J.hx (J.get ej "msgx")⟩
      if J.hx (J.get ej "text") != pe.render then
        return J.obj [("id", id), ("agree", true), ("spec", false), ("note", s!"the error renders as {J.str (J.get ej "text")} (hex), not as file:ln:col: message plus one line per call site")]
    return J.obj [("id", id), ("agree", true), ("spec", true), ("note", "")]

/-! ### error chain objects (kind `chainops`) -/

open Platypus.ErrChain in
def chainops (j : Json) : Json := Id.run do
  let id := J.get j "id"
  let posOfJ (o : Json) : Position := ⟨J.hx (J.get o "file"), J.int (J.get o "ln"), J.int (J.get o "col"), J.int (J.get o "pos")⟩
  let mut store : Store := []
  let mut n := 0
  for (o, snap) in (J.arr (J.get j "ops")).toList.zip (J.arr (J.get j "snaps")).toList do
    n := n + 1
    let op : Op := match J.str (J.get o "op") with
      | "new" => .new (J.hx (J.get o "file")) (J.int (J.get o "ln")) (J.int (J.get o "col")) (J.int (J.get o "pos")) (J.hx (J.get o "msg"))
      | "append" => .append (J.nat (J.get o "h")) (posOfJ o)
      | _ => .copy (J.nat (J.get o "h"))
    store := step store op
    let impl := (J.arr snap).toList
    if impl.length != store.length then
      return J.obj [("id", id), ("agree", false), ("spec", false), ("note", s!"after operation {n}: {impl.length} errors, model {store.length}")]
    for (e, ij) in store.zip impl do
      let ichain := (J.arr (J.get ij "chain")).toList.map fun c => let a := J.arr c; (⟨J.hx a[0]!, J.int a[2]!, J.int a[3]!, J.int a[1]!⟩ : Position)
      if ichain != e.chain || J.hx (J.get ij "msg") != e.err then
        return J.obj [("id", id), ("agree", false), ("spec", false), ("note", s!"after operation {n}: an error's chain is {(J.get ij "chain").compress}, the model has {e.chain.length} positions (an append reached an error it was not applied to, or was lost)")]
      if J.hx (J.get ij "text") != e.render then
        return J.obj [("id", id), ("agree", false), ("spec", false), ("note", s!"after operation {n}: rendering differs: {J.str (J.get ij "text")}")]
      if !J.bool (J.get ij "json_rt") then
        return J.obj [("id", id), ("agree", true), ("spec", false), ("note", s!"after operation {n}: the error does not survive a JSON round trip")]
  return J.obj [("id", id), ("agree", true), ("spec", true), ("n", n), ("note", "")]

def handle (j : Json) : Json :=
  match J.str (J.get j "k") with
  | "lncol" => lncol j
  | "treepos" => treepos j
  | "errpos" => errpos j
  | "chainops" => chainops j
  | k => J.obj [("id", J.get j "id"), ("agree", false), ("spec", true), ("note", s!"unknown kind {k}")]

end DrvC17
