package main

import (
	"bytes"
	"encoding/json"
	"fmt"
	"math/rand"
	"os"
	"os/exec"
	"path/filepath"
	"sort"
	"strings"
	"time"

	"github.com/GuanceCloud/platypus/pkg/engine"
	"github.com/GuanceCloud/platypus/pkg/inimpl/guancecloud/funcs"
	"github.com/GuanceCloud/platypus/pkg/inimpl/guancecloud/input"
	"github.com/influxdata/influxdb1-client/models"
	influxdb "github.com/influxdata/influxdb1-client/v2"
)

func init() { gens["C20"] = genC20 }

// libraryRender: what the library API yields for the script set + input, rendered the way the
// command-line runner renders (same encoders), or the error class
func libraryRender(scripts map[string]string, entry string, data []byte, typ, outType string) (string, string) {
	oks, errs := engine.ParseScript(scripts, funcs.FuncsMap, funcs.FuncsCheckMap)
	if e, ok := errs[entry]; ok {
		return "", "load-error: " + e.Error()
	}
	s, ok := oks[entry]
	if !ok {
		return "", "not-found"
	}
	var measurement string
	var tags map[string]string
	var fields map[string]any
	tn := time.Unix(0, 0)
	switch typ {
	case "lineprotocol":
		pts, err := models.ParsePointsWithPrecision(data, time.Unix(0, 0), "")
		if err != nil || len(pts) == 0 {
			return "", "input-error"
		}
		pt := influxdb.NewPointFrom(pts[0])
		f, err := pt.Fields()
		if err != nil {
			return "", "input-error"
		}
		fields, tags, measurement, tn = f, pt.Tags(), pt.Name(), pt.Time()
	default:
		measurement = "default_name"
		fields = map[string]any{"message": string(data)}
	}
	pt := input.GetPoint()
	defer input.PutPoint(pt)
	input.InitPt(pt, measurement, tags, fields, tn)
	if err := s.Run(pt, nil); err != nil {
		return "", "run-error: " + err.Error()
	}
	if pt.Drop {
		return "", "dropped"
	}
	switch outType {
	case "lineprotocol":
		p, err := influxdb.NewPoint(pt.Measurement, pt.Tags, pt.Fields, pt.Time)
		if err != nil {
			return "", "encode-error"
		}
		return p.String(), ""
	default:
		buf := bytes.NewBuffer([]byte{})
		enc := json.NewEncoder(buf)
		enc.SetEscapeHTML(false)
		enc.SetIndent("", "  ")
		if err := enc.Encode(map[string]any{"measurement": pt.Measurement, "tags": pt.Tags, "fields": pt.Fields, "time": pt.Time}); err != nil {
			return "", "encode-error"
		}
		return buf.String(), ""
	}
}

func genC20(e *emitter, tier string, seed int64) {
	rng := rand.New(rand.NewSource(seed))
	repo := os.Getenv("VERIF_REPO")
	if repo == "" {
		repo = "/repo"
	}
	work, err := os.MkdirTemp("", "verif-c20-")
	if err != nil {
		panic(err)
	}
	defer os.RemoveAll(work)
	bin := filepath.Join(work, "platypus")
	build := exec.Command("go", "build", "-o", bin, "./cmd/platypus")
	build.Dir = repo
	build.Env = append(os.Environ(), "CGO_ENABLED=0")
	if out, err := build.CombinedOutput(); err != nil {
		fmt.Fprintln(os.Stderr, "cannot build cmd/platypus:", string(out))
		os.Exit(3)
	}
	// scripts: change measurement, time, tags; use sibling scripts; fail; drop nothing
	scriptSets := []map[string]string{
		{"a.p": "set_measurement(\"newm\")\nadd_key(k, 1)\n"},
		{"a.p": "add_key(ts, \"2021-03-15T00:08:10Z\")\ndefault_time(ts)\nset_tag(t2, \"v\")\n"},
		{"a.p": "set_measurement(message, true)\n"},
		{"a.p": "use(\"b.ppl\")\nadd_key(after, len(message))\n", "b.ppl": "set_measurement(\"fromb\")\nset_tag(bt, \"1\")\nrename(msg2, message)\n", "c.txt": "not a script"},
		{"a.p": "grok(_, \"%{WORD:w} %{NUMBER:n:int}\")\ncast(n, \"float\")\ndrop_key(message)\n"},
		{"a.p": "zero = 0\nadd_key(k, 1)\nx = 1 / zero\n"},
		{"a.p": "nosuch()\n"},
		{"a.p": "x = [1, 2\n"},
		{"a.p": "add_key(big, 9007199254740993)\nadd_key(fl, 1.5)\nadd_key(b, true)\nadd_key(s, \"q\\\"uote<>&\")\nadd_key(nl, nil)\nadd_key(lst, [1, \"a\"])\n"},
		{"a.p": "use(\"missing.p\")\n"},
		// the script is the file's bytes: CR LF inside a multi-line string, a lone CR, tabs, a final line without LF
		{"a.p": "add_key(ml, '''a\r\nb\r\n''')\r\nadd_key(mlen, len(\"\"\"x\r\ny\"\"\"))\r\nset_tag(crt, '''t\r\n''')"},
		{"a.p": "use(\"b.ppl\")\n", "b.ppl": "set_measurement('''m\r\nn''')\r\nadd_key(cr, \"a\\rb\")\r"},
		// the point is left without any field; only tags remain
		{"a.p": "drop_key(message)\ndrop_key(usage)\ndrop_key(n)\ndrop_key(ok)\ndrop_key(s)\n"},
		{"a.p": "set_tag(only, \"t\")\ndrop_key(message)\n"},
		// (round 7: a time with a sub-second part; a call written with blanks before its parenthesis)
		{"a.p": "add_key(ts, \"2021-03-04T05:06:07.250Z\")\ndefault_time(ts)\n"},
		{"a.p": "add_key(a, 1)\nuse (\"b.ppl\")\nuse\t(\"b.ppl\")\nadd_key(c, 3)\n", "b.ppl": "set_measurement(\"spaced\")\nset_tag(bt, \"1\")\n"},
		{"a.p": "for x in [1, 2, 3] {\n  add_key(last, x)\n}\nif last == 3 {\n  set_measurement(\"three\")\n}\n"},
	}
	inputs := []struct{ typ, data string }{
		{"text", "hello 42"}, {"text", ""}, {"text", "multi\nline é"},
		{"lineprotocol", "cpu,host=h1,region=r usage=1.5,n=3i,ok=true,s=\"str\" 1600000000000000000"},
		{"lineprotocol", "m2 message=\"abc 7\" 5"},
		{"lineprotocol", "cpu,host=h3 v=2i 1600000000123456789"}, {"lineprotocol", "cpu v=2i 1600000000000000001"},
		{"lineprotocol", "not line protocol"},
		// text is bytes: an input that is not valid UTF-8 becomes `message` as it is
		{"text", "caf\xe9 au lait"}, {"text", "\xff\xfe"},
		// inputs beyond a mebibyte are inputs like any other
		{"text", strings.Repeat("a", 1<<20+100) + " tail 7"},
		{"lineprotocol", "big s=\"" + strings.Repeat("b", 1<<20+50) + "\",v=1i 5"},
		// no point at all; the first point not on the first physical line; a newline inside a string field
		{"lineprotocol", ""}, {"lineprotocol", "# only a comment\n"},
		{"lineprotocol", "# comment first\ncpu,host=h2 v=1i 7\nsecond v=2i 8"}, {"lineprotocol", "\ncpu v=1.5 9"},
		{"lineprotocol", "cpu s=\"two\nlines\",v=1i 10\nsecond v=2i 11"},
	}
	N := 70
	if tier == "thorough" {
		N = 1200
	}
	for i := 0; i < N; i++ {
		set := scriptSets[i%len(scriptSets)]
		in := inputs[rng.Intn(len(inputs))]
		outType := []string{"json", "lineprotocol"}[rng.Intn(2)]
		single := rng.Intn(3) == 0
		noInput := rng.Intn(8) == 0
		dir := filepath.Join(work, fmt.Sprintf("ws%d", i))
		os.MkdirAll(filepath.Join(dir, "sub"), 0o755)
		// the workspace's files may be symbolic links to the scripts (mounted configuration directories)
		linked := !single && rng.Intn(4) == 0
		store := filepath.Join(work, fmt.Sprintf("store%d", i))
		if linked {
			os.MkdirAll(store, 0o755)
		}
		for n, src := range set {
			if linked {
				// (the target has another name: a script is known by the name of its workspace entry)
				os.WriteFile(filepath.Join(store, "v2_"+n+".txt"), []byte(src), 0o644)
				os.Symlink(filepath.Join(store, "v2_"+n+".txt"), filepath.Join(dir, n))
				continue
			}
			os.WriteFile(filepath.Join(dir, n), []byte(src), 0o644)
		}
		inPath := filepath.Join(dir, "sub", "input.dat")
		os.WriteFile(inPath, []byte(in.data), 0o644)
		args := []string{"run"}
		libScripts := map[string]string{}
		if single {
			// single-file mode, the script given with a directory component
			args = append(args, "-w", "", "-s", filepath.Join(dir, "a.p"))
			libScripts["a.p"] = set["a.p"]
		} else {
			args = append(args, "-w", dir, "-s", "a.p")
			for n, src := range set {
				if strings.HasSuffix(n, ".p") || strings.HasSuffix(n, ".ppl") {
					libScripts[n] = src
				}
			}
		}
		if !noInput {
			args = append(args, "-i", inPath, "-t", in.typ, "--output-type", outType)
		}
		cmd := exec.Command(bin, args...)
		cmd.Env = append(os.Environ(), "TZ=UTC")
		var so, se bytes.Buffer
		cmd.Stdout, cmd.Stderr = &so, &se
		done := make(chan error, 1)
		cmd.Start()
		go func() { done <- cmd.Wait() }()
		exit := 0
		select {
		case err := <-done:
			if err != nil {
				exit = 1
			}
		case <-time.After(20 * time.Second):
			cmd.Process.Kill()
			exit = -1
		}
		stdout := so.String()
		printed := ""
		if k := strings.Index(stdout, "Platypus Output Data:\n"); k >= 0 {
			printed = stdout[k+len("Platypus Output Data:\n"):]
		}
		want, werr := libraryRender(libScripts, "a.p", []byte(in.data), in.typ, outType)
		names := []string{}
		for n := range set {
			names = append(names, n)
		}
		sort.Strings(names)
		e.stat("cli:" + map[bool]string{true: "single", false: "workspace"}[single] + ":" + outType)
		e.emit(map[string]any{"k": "cli", "gen": "cli", "key": fmt.Sprintf("%v | %s %q | single=%v noinput=%v out=%s", names, in.typ, head(in.data, 200), single, noInput, outType),
			"files": set, "linked": linked, "input": in.data, "type": in.typ, "out_type": outType, "single": single, "noinput": noInput,
			"exit": exit, "crashed": strings.Contains(se.String(), "panic:") || strings.Contains(se.String(), "goroutine "), "stderr_tail": tail(se.String(), 400), "stderr_head": head(se.String(), 900), "printed": printed, "stdout_tail": tail(stdout, 600), "lib": want, "lib_err": werr})
	}
}

func head(s string, n int) string {
	if len(s) > n {
		return s[:n]
	}
	return s
}
