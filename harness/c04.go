package main

import (
	"fmt"
	"math/rand"
	"strings"
)

func init() { gens["C04"] = genC04 }

func genC04(e *emitter, tier string, seed int64) {
	pt := pointSpec{Meas: "m", Time: 1}
	// ---- exhaustive slice grid ----
	maxLen, lo, hi := 3, -4, 4
	if tier == "thorough" {
		maxLen, lo, hi = 5, -8, 8
	}
	bounds := []string{""}
	for i := lo; i <= hi; i++ {
		bounds = append(bounds, fmt.Sprint(i))
	}
	// extremes through variables (min int64 is not a literal)
	bounds = append(bounds, "2147483648", "-2147483648", "mx", "mn")
	prelude := "mx = 9223372036854775807\nmn = -9223372036854775807 - 1\n"
	elems := []string{"10", `"b"`, "nil", "[7]", "2.5", "true"}
	strs := []string{"", "a", "ab", "aéb", "héllo", "éé"}
	for n := 0; n <= maxLen; n++ {
		list := "[" + strings.Join(elems[:n], ", ") + "]"
		var str string
		if n < len(strs) {
			str = strs[n]
		} else {
			str = strs[len(strs)-1]
		}
		for _, obj := range []string{list, fmt.Sprintf("%q", str)} {
			var sb strings.Builder
			cnt := 0
			flush := func() {
				if cnt == 0 {
					return
				}
				// one program holds a batch of slices of the same object; every slice is probed
				emitProg(e, prelude+"a = "+obj+"\n"+sb.String(), pt, true, "slice-grid")
				sb.Reset()
				cnt = 0
			}
			for _, s := range bounds {
				for _, en := range bounds {
					for _, st := range bounds {
						if st == "0" {
							// step 0 is an error and would end the batch: its own program
							emitProg(e, prelude+"a = "+obj+fmt.Sprintf("\np(a[%s:%s:%s])\n", s, en, st), pt, true, "slice-step0")
							continue
						}
						if st == "" {
							fmt.Fprintf(&sb, "p(a[%s:%s])\n", s, en)
						}
						fmt.Fprintf(&sb, "p(a[%s:%s:%s])\n", s, en, st)
						cnt++
						if cnt >= 40 {
							flush()
						}
					}
				}
			}
			flush()
		}
	}
	// non-integer bounds, slices of slices / calls / literals
	for _, src := range []string{
		`a=[1,2,3]` + "\n" + `p(a[1.5:])`, `a=[1,2,3]` + "\n" + `x="1"` + "\n" + `p(a[x:])`, `a=[1,2,3]` + "\n" + `x=1.0` + "\n" + `p(a[::x])`,
		`a=[1,2,3]` + "\n" + `p(a[nil:2])`, `a=[1,2,3]` + "\n" + `p(a[zz:2])`, `a={"k":1}` + "\n" + `p(a[0:1])`, `a=5` + "\n" + `p(a[0:1])`,
		`p([1,2,3,4][1:3][0:1])`, `p("hello"[1:4][::-1])`, `p(pr([1,2,3])[::2])`, `a=[1,2,3]` + "\n" + `b=a[:]` + "\n" + `b[0]=9` + "\n" + `p(a,b)`,
		`a=[[1],[2]]` + "\n" + `b=a[:]` + "\n" + `b[0][0]=9` + "\n" + `p(a,b)`,
	} {
		emitProg(e, src+"\n", pt, true, "slice-misc")
	}
	// ---- index read/write paths of depth <= 3 over nested shapes ----
	shapes := []string{
		`[1, [2, {"b": 3}], {"a": [4, 5], "c": "s"}]`,
		`{"a": [1, {"b": [7, 8]}], "c": {"d": {"e": 9}}, "s": "str"}`,
		`[]`, `{}`, `[[[]]]`,
	}
	keys := []string{"0", "1", "2", "-1", "-3", "5", `"a"`, `"b"`, `"c"`, `"d"`, `"zz"`, "1.5", "nil", "true", "k0", "ks", "mx", "mn"}
	pre := "k0 = 0\nks = \"a\"\nmx = 9223372036854775807\nmn = -9223372036854775807 - 1\n"
	var paths []string
	for _, a := range keys {
		paths = append(paths, "["+a+"]")
		for _, b := range keys {
			paths = append(paths, "["+a+"]["+b+"]")
		}
	}
	rng := rand.New(rand.NewSource(seed))
	for _, sh := range shapes {
		for _, p := range paths {
			emitProg(e, pre+"x = "+sh+"\np(x"+p+")\n", pt, true, "index-read")
			emitProg(e, pre+"x = "+sh+"\ny = x\nx"+p+" = 99\np(x, y)\n", pt, true, "index-write")
		}
		// depth 3 sampled (quick) / all (thorough)
		for _, a := range keys {
			for _, b := range keys {
				for _, c := range keys {
					if tier != "thorough" && rng.Intn(12) != 0 {
						continue
					}
					p := "[" + a + "][" + b + "][" + c + "]"
					emitProg(e, pre+"x = "+sh+"\np(x"+p+")\n", pt, true, "index-read3")
					emitProg(e, pre+"x = "+sh+"\ny = x\nx"+p+" += 1\np(x, y)\n", pt, true, "index-write3")
				}
			}
		}
	}
	// object-less and non-indexable objects
	// a literal is a fresh value at every evaluation: a write through it never shows in the next one
	for _, src := range []string{
		"t = 0\nfor i = 0; i < 3; i = i + 1 {\n  a = [1, 2]\n  a[0] = a[0] + 100\n  t = t + a[0]\n}\np(t)\n",
		"for x in [1, 2] {\n  m = {\"k\": [[0, 1], 2]}\n  p(m)\n  m[\"k\"][0][1] = 9\n  m[\"n\"] = x\n}\n",
		"for i = 0; i < 2; i = i + 1 {\n  a = [\"x\", \"y\"]\n  b = a\n  p(a)\n  b[1] = \"changed\"\n}\n",
		"for i = 0; i < 2; i = i + 1 {\n  p([1, 2.5, \"s\", true, nil][i])\n  l = [1, [2, 3]]\n  l[1][0] = l[1][0] * 10\n  p(l)\n}\n",
	} {
		emitProg(e, src, pt, true, "literal-fresh")
	}
	// a subscript is evaluated once per statement, also in a compound assignment (the probe pr records
	// every evaluation); key "c04:compound-index-evaluated-twice" is a recorded finding
	for _, src := range []string{"a = [10, 20, 30]\na[pr(0)] += 5\np(a)\n", "m = {\"k\": 1}\nm[pr(\"k\")] *= 3\np(m)\n", "a = [[1, 2], [3, 4]]\na[pr(0)][pr(1)] -= 1\np(a)\n",
		"a = [10, 20, 30]\na[pr(1)] = 5\np(a)\n", "a = [10, 20, 30]\nx = a[pr(2)]\np(x)\n", "a = [1, 2, 3, 4]\nx = a[pr(0):pr(3):pr(2)]\np(x)\n"} {
		if propName != "C04" {
			break // judged by C04's specification only
		}
		out := runV1(runCase{Scripts: []scriptSrc{{"main.p", src}}, Entry: "main.p", Point: pt})
		out["gen"], out["key"], out["strict"] = "index-once", "c04:compound-index-evaluated-twice", true
		out["once"] = strings.Count(src, "pr(")
		e.stat("index-once")
		e.emit(out)
	}
	// errors and wrongly typed values inside subscripts and bounds (through variables: literals are rejected by the parser)
	for _, sub := range []string{"l[1 / zero:]", "l[:1 / zero]", "l[::1 / zero]", "l[:e]", "l[e:]", "l[::e]", "l[:f]", "l[f:]", "l[::f]", "l[nl:2]", "l[:nl]", "l[::nl]", "l[b:]", "l[:b]", "l[1 / zero]", "l[e]", "l[f]", "l[b]", "l[nl]",
		"m[1 / zero]", "m[b]", "m[f]", "m[nl]", "s[e:]", "s[:f]", "s[1 / zero]", "s[0][0]", "l[0][1 / zero]", "l[p(1):p(2):1 / zero]"} {
		pre := "l = [[1], 2, 3]\nm = {\"a\": 1}\ns = \"héllo\"\nzero = 0\ne = \"a\"\nf = 1.5\nb = true\nnl = nil\n"
		emitProg(e, pre+"p(\"before\")\nx = "+sub+"\np(\"after\", x)\n", pt, true, "index-misc")
		if !strings.Contains(sub, ":") {
			emitProg(e, pre+sub+" = 9\np(l, m, s)\n", pt, true, "index-misc")
			emitProg(e, pre+sub+" += 1\np(l, m, s)\n", pt, true, "index-misc")
		}
	}
	for _, src := range []string{"zero = 0\nfor x in 1 / zero {\n  p(x)\n}\np(\"after\")", "for x in nosuchname {\n  p(x)\n}\np(\"after\")", "p(.[0])", ".[0] = 1", "x = 5\np(x[0])", "x = \"abc\"\np(x[0])", "p(nosuch[0])", "nosuch[0] = 1", "x = nil\nx[0] = 1"} {
		emitProg(e, src+"\n", pt, true, "index-misc")
	}
	// ---- len / in on collections ----
	vals := []string{"[]", "[1,2]", "{}", `{"a":1}`, `""`, `"héllo"`, "5", "nil", "1.5", "true", "[[1],[1]]", `{"a": nil}`, `"a"`, "[nil]", `{"a": {"a": nil}}`, `[1, "x", {"a":1}]`, `[{}]`, `[[1,2], {"a": [1]}]`}
	for _, v := range vals {
		emitProg(e, "p(len("+v+"))\n", pt, true, "len")
		for _, w := range vals {
			emitProg(e, "p("+v+" in "+w+")\n", pt, true, "in")
		}
	}
	// ---- literals (empty ones too) copied into the point are snapshots of exactly their elements; an empty
	// list is an empty list wherever it came from ----
	for _, v := range []string{"[]", `[[], 1, {"k": []}]`, "{}", `{"a": {}, "b": []}`, "[{}]", "[nil]", "[[]]", `[[[]], ""]`} {
		emitProg(e, "add_key(k, "+v+")\nx = "+v+"\nadd_key(k2, x)\nset_tag(t, "+v+")\nstrfmt(out, \"%v|%v\", "+v+", x)\np(get_key(k), get_key(k2), get_key(t), get_key(out))\n", pt, true, "literal-snapshot")
		for _, w := range []string{"[l[3:]]", `[load_json("[]")]`, "[[]]", `[load_json("{}")]`, "[{}]", "[l[0:0], 1]", `load_json("[[], {}]")`, "[s[5:]]"} {
			emitProg(e, "l = [1, 2]\ns = \"ab\"\np("+v+" in "+w+")\n", pt, true, "literal-snapshot")
		}
	}
	// ---- two decodings of the same JSON text are independent objects; a key holding nil is a member ----
	for _, src := range []string{
		"t = \"[1, [2, 3], {\\\"k\\\": 4}]\"\na = load_json(t)\nb = load_json(t)\na[0] = \"changed\"\na[1][0] = 9\np(a, b)\nc = load_json(t)\np(c)\n",
		"t = \"{\\\"n\\\": 1, \\\"z\\\": null}\"\na = load_json(t)\nb = load_json(t)\na[\"n\"] = a[\"n\"] + 10\na[\"new\"] = 1\np(a, b, len(b), \"z\" in b, \"z\" in a)\n",
		"m = {\"a\": 1}\nm[\"a\"] = nil\nn = m\np(\"a\" in m, \"a\" in n, len(m))\nfor k in m {\n  p(k)\n}\n",
	} {
		emitProg(e, src, pt, true, "json-alias")
	}
	// ---- random alias / mutate / snapshot programs ----
	N := 1500
	if tier == "thorough" {
		N = 40000
	}
	for i := 0; i < N; i++ {
		emitProg(e, aliasProg(rng), pt, true, "alias")
	}
}

func aliasProg(rng *rand.Rand) string {
	// shapes are tracked loosely so that most statements are valid (errors end the script)
	vars := []string{"a", "b", "c"}
	shapeLit := map[string]string{"L": `[1, [2, 3], {"k": 4}]`, "M": `{"k": [1, 2], "m": {"z": 0}}`, "S": "7"}
	validPaths := map[string][]string{
		"L": {"[0]", "[1]", "[1][0]", "[1][-1]", `[2]["k"]`, `[-1]["k"]`, "[-3]", `[2]["new"]`},
		"M": {`["k"]`, `["k"][0]`, `["k"][-1]`, `["m"]`, `["m"]["z"]`, `["new"]`, `["m"]["new"]`},
		"S": {},
	}
	badPaths := []string{"[5]", `["zz"][0]`, "[1.5]", "[nil]", `[0]["k"]`, "[-9]"}
	vals := []string{"9", `"v"`, "nil", "[5]", "a", "b", "c", "1.5", `{"q": 1}`}
	shape := map[string]string{}
	var sb strings.Builder
	ks := []string{"L", "M", "S"}
	for _, v := range vars[:2] {
		shape[v] = ks[rng.Intn(3)]
		fmt.Fprintf(&sb, "%s = %s\n", v, shapeLit[shape[v]])
	}
	shape["c"] = shape["a"]
	sb.WriteString("c = a\n")
	n := 4 + rng.Intn(10)
	for i := 0; i < n; i++ {
		v := vars[rng.Intn(3)]
		w := vars[rng.Intn(3)]
		path := func(x string) string {
			ps := validPaths[shape[x]]
			if len(ps) == 0 || rng.Intn(12) == 0 {
				return badPaths[rng.Intn(len(badPaths))]
			}
			return ps[rng.Intn(len(ps))]
		}
		switch rng.Intn(10) {
		case 0:
			fmt.Fprintf(&sb, "%s = %s\n", v, w)
			shape[v] = shape[w]
		case 1, 2, 3:
			val := vals[rng.Intn(len(vals))]
			fmt.Fprintf(&sb, "%s%s = %s\n", v, path(v), val)
			if rng.Intn(3) == 0 { // the shape may have changed under the path: forget precision
				shape[v] = shape[v]
			}
		case 4:
			fmt.Fprintf(&sb, "add_key(k%d, %s)\n", rng.Intn(2), v)
		case 5:
			if shape[w] == "L" {
				fmt.Fprintf(&sb, "%s = %s[%s:%s]\n", v, w, []string{"", "0", "1", "-2"}[rng.Intn(4)], []string{"", "3", "-1"}[rng.Intn(3)])
				shape[v] = "S" // positions moved: treat as opaque
			}
		case 6:
			k := ks[rng.Intn(3)]
			fmt.Fprintf(&sb, "%s = %s\n", v, shapeLit[k])
			shape[v] = k
		case 7:
			fmt.Fprintf(&sb, "p(%s == %s, %s in %s, len(%s))\n", v, w, v, w, v)
		case 8:
			if shape[v] == "L" {
				fmt.Fprintf(&sb, "%s[0] += 1\n", v)
			} else if shape[v] == "M" {
				fmt.Fprintf(&sb, "%s[\"m\"][\"z\"] += 1\n", v)
			}
		case 9:
			fmt.Fprintf(&sb, "p(get_key(k%d))\n", rng.Intn(2))
		}
		fmt.Fprintf(&sb, "p(a, b, c, k0, k1)\n")
	}
	return sb.String()
}
