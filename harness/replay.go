package main

import (
	"bufio"
	"bytes"
	"encoding/hex"
	"encoding/json"
	"os"
)

// replayers re-run the implementation on the *input* part of a recorded case line.
var replayers = map[string]func(e *emitter, c map[string]any){}

func unhx(v any) string {
	s, _ := v.(string)
	b, _ := hex.DecodeString(s)
	return string(b)
}

func replayFile(e *emitter, path string) {
	f, err := os.Open(path)
	if err != nil {
		return
	}
	defer f.Close()
	sc := bufio.NewScanner(f)
	sc.Buffer(make([]byte, 1<<20), 1<<26)
	for sc.Scan() {
		var c map[string]any
		dec := json.NewDecoder(bytes.NewReader(sc.Bytes()))
		dec.UseNumber()
		if dec.Decode(&c) != nil {
			continue
		}
		k, _ := c["k"].(string)
		if r, ok := replayers[k]; ok {
			r(e, c)
		}
	}
}

// num reads an integer from a decoded JSON value (json.Number or float64)
func num(v any) (int64, bool) {
	switch x := v.(type) {
	case json.Number:
		i, err := x.Int64()
		return i, err == nil
	case float64:
		return int64(x), true
	}
	return 0, false
}
