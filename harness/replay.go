package main

import (
	"bufio"
	"encoding/hex"
	"encoding/json"
	"os"
)

// replayers re-run the implementation on the *input* part of a recorded case line.
var replayers = map[string]func(e *emitter, c map[string]any){}

func unhx(v any) string {
	s, _ := v.(string)
	b, _ := hex.DecodeString(s)
	return string(b)
}

func replayFile(e *emitter, path string) {
	f, err := os.Open(path)
	if err != nil {
		return
	}
	defer f.Close()
	sc := bufio.NewScanner(f)
	sc.Buffer(make([]byte, 1<<20), 1<<26)
	for sc.Scan() {
		var c map[string]any
		if json.Unmarshal(sc.Bytes(), &c) != nil {
			continue
		}
		k, _ := c["k"].(string)
		if r, ok := replayers[k]; ok {
			r(e, c)
		}
	}
}
