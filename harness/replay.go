package main

import (
	"bufio"
	"bytes"
	"encoding/hex"
	"encoding/json"
	"os"
)

// replayers re-run the implementation on the *input* part of a recorded case line.
var replayers = map[string]func(e *emitter, c map[string]any){}

func unhx(v any) string {
	s, _ := v.(string)
	b, _ := hex.DecodeString(s)
	return string(b)
}

func replayFile(e *emitter, path string) {
	f, err := os.Open(path)
	if err != nil {
		return
	}
	defer f.Close()
	sc := bufio.NewScanner(f)
	sc.Buffer(make([]byte, 1<<20), 1<<26)
	for sc.Scan() {
		var c map[string]any
		dec := json.NewDecoder(bytes.NewReader(sc.Bytes()))
		dec.UseNumber()
		if dec.Decode(&c) != nil {
			continue
		}
		k, _ := c["k"].(string)
		if r, ok := replayers[k]; ok {
			r(e, c)
		}
	}
}

// num reads an integer from a decoded JSON value (json.Number or float64)
func num(v any) (int64, bool) {
	switch x := v.(type) {
	case json.Number:
		i, err := x.Int64()
		return i, err == nil
	case float64:
		return int64(x), true
	}
	return 0, false
}

func init() {
	// a load case: scripts, visiting order, number of real loads
	replayers["load"] = func(e *emitter, c map[string]any) {
		lc := loadCase{}
		if ss, ok := c["scripts"].([]any); ok {
			for _, s := range ss {
				m, _ := s.(map[string]any)
				lc.Scripts = append(lc.Scripts, scriptSrc{unhx(m["name"]), unhx(m["src"])})
			}
		}
		if os, ok := c["order"].([]any); ok {
			for _, o := range os {
				lc.Order = append(lc.Order, unhx(o))
			}
		}
		if rs, ok := c["real"].([]any); ok {
			lc.Reps = len(rs)
		}
		if ns, ok := c["nocheck"].([]any); ok {
			for _, n := range ns {
				lc.DropCheck = append(lc.DropCheck, unhx(n))
			}
		}
		if ns, ok := c["dropcall"].([]any); ok {
			for _, n := range ns {
				lc.DropCall = append(lc.DropCall, unhx(n))
			}
		}
		out := loadV1(lc)
		carryOver(out, c)
		e.emit(out)
	}
	// a history: the operations are run cases
	replayers["hist"] = func(e *emitter, c map[string]any) {
		ops := []runCase{}
		if os, ok := c["ops"].([]any); ok {
			for _, o := range os {
				if m, ok := o.(map[string]any); ok {
					ops = append(ops, runCaseOf(m))
				}
			}
		}
		out := histV1(ops)
		carryOver(out, c)
		e.emit(out)
	}
	// a batch of literals
	replayers["lit"] = func(e *emitter, c map[string]any) {
		lits := []string{}
		if ls, ok := c["lits"].([]any); ok {
			for _, l := range ls {
				if a, ok := l.([]any); ok && len(a) > 0 {
					lits = append(lits, unhx(a[0]))
				}
			}
		}
		gen, _ := c["gen"].(string)
		emitLits(e, lits, gen)
	}
	// stored tree positions of a text
	replayers["treepos"] = func(e *emitter, c map[string]any) {
		src := unhx(c["src"])
		res := parseTreeV1(src)
		e.emit(map[string]any{"k": "treepos", "src": hx(src), "ast": res["ast"], "gen": "replay", "key": src})
	}
	// error-chain operation sequences
	replayers["chainops"] = func(e *emitter, c map[string]any) {
		b, _ := json.Marshal(c["ops"])
		var ops []chainOp
		if json.Unmarshal(b, &ops) == nil {
			runChainOps(e, ops, "replay")
		}
	}
}
