package main

import (
	"encoding/hex"
	"fmt"
	"sort"
	"strconv"
	"unsafe"
)

func u64s(u uint64) string { return strconv.FormatUint(u, 10) }

// canonical rendering of a Go `any` the interpreter produced; mirrors Platypus.render.
// Go dynamic types other than nil/bool/int64/float64/string/[]any/map[string]any are rendered
// as ?<type> so that a mis-typed value (e.g. a Go int) is visible.
const renderBudget = 3000

func render(v any) string {
	left := renderBudget
	return renderPath(v, nil, &left)
}

type eface struct {
	typ  unsafe.Pointer
	data unsafe.Pointer
}

func contID(v any) uintptr {
	switch x := v.(type) {
	case map[string]any:
		return uintptr((*eface)(unsafe.Pointer(&v)).data)
	case []any:
		if len(x) == 0 {
			return 0
		}
		return uintptr(unsafe.Pointer(&x[0]))
	}
	return 0
}

func renderPath(v any, path []uintptr, left *int) string {
	if *left == 0 {
		return "~"
	}
	*left--
	switch x := v.(type) {
	case nil:
		return "n"
	case bool:
		if x {
			return "t"
		}
		return "f"
	case int64:
		return "i" + strconv.FormatInt(x, 10)
	case float64:
		return "d" + fbits(x)
	case string:
		return "s" + hex.EncodeToString([]byte(x))
	case []any:
		id := contID(v)
		if id != 0 {
			for k := len(path) - 1; k >= 0; k-- {
				if path[k] == id {
					return "^" + strconv.Itoa(len(path)-1-k)
				}
			}
		}
		np := append(append([]uintptr{}, path...), id)
		s := "["
		for i, e := range x {
			if i > 0 {
				s += ","
			}
			s += renderPath(e, np, left)
		}
		return s + "]"
	case map[string]any:
		id := contID(v)
		for k := len(path) - 1; k >= 0; k-- {
			if path[k] == id {
				return "^" + strconv.Itoa(len(path)-1-k)
			}
		}
		np := append(append([]uintptr{}, path...), id)
		keys := make([]string, 0, len(x))
		for k := range x {
			keys = append(keys, k)
		}
		sort.Strings(keys)
		s := "{"
		for i, k := range keys {
			if i > 0 {
				s += ","
			}
			s += hex.EncodeToString([]byte(k)) + ":" + renderPath(x[k], np, left)
		}
		return s + "}"
	}
	return fmt.Sprintf("?%T", v)
}
