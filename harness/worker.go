package main

// Cases run in a child process ("worker") so that a fatal error of the implementation (stack
// overflow, out of memory, endless loop) is observed as an outcome instead of killing the run:
//   timeout — no answer within the per-case limit (worker killed, restarted)
//   crash   — the worker died (fatal error: not recoverable by the host) — a C01 violation
//   oom     — the worker hit the harness's own memory limit (not judged)

import (
	"bufio"
	"bytes"
	"encoding/json"
	"fmt"
	"io"
	"os"
	"os/exec"
	"runtime"
	"runtime/debug"
	"strings"
	"syscall"
	"time"
)

var inWorker = false
var caseTimeout = 10 * time.Second

type workerProc struct {
	cmd    *exec.Cmd
	in     io.WriteCloser
	out    *bufio.Reader
	stderr *bytes.Buffer
}

var wp *workerProc

func startWorker() *workerProc {
	cmd := exec.Command(os.Args[0], "worker")
	in, _ := cmd.StdinPipe()
	outp, _ := cmd.StdoutPipe()
	eb := &bytes.Buffer{}
	cmd.Stderr = eb
	cmd.Env = append(os.Environ(), "GOMAXPROCS=2", "GOTRACEBACK=single")
	if err := cmd.Start(); err != nil {
		panic(err)
	}
	return &workerProc{cmd: cmd, in: in, out: bufio.NewReaderSize(outp, 1<<20), stderr: eb}
}

func (w *workerProc) kill() {
	w.in.Close()
	w.cmd.Process.Kill()
	w.cmd.Wait()
}

type workerReq struct {
	Kind string
	RC   *runCase        `json:",omitempty"`
	Raw  json.RawMessage `json:",omitempty"`
}

// after this many worker deaths in one run the remaining cases are not run any more (each death is
// already a reported failure; a change that kills every case must not take hours to report)
const maxDeaths = 25

var deaths = 0

// callWorker sends one request and waits for one line.  A case that does not answer in time is
// run once more in a fresh worker with a longer limit before it counts as a timeout (a loaded
// machine must not look like a hanging interpreter).
func callWorker(req workerReq) (m map[string]any, death string) {
	m, death = callWorkerOnce(req, caseTimeout)
	if death == "timeout" {
		m, death = callWorkerOnce(req, retryLimit())
	}
	return m, death
}

// retryLimit: the second chance is four times the per-case limit on an idle machine and grows with the
// load (runnable processes per processor, /proc/loadavg), up to ten minutes: a round of sixteen goroutines
// under the race detector next to a hundred other busy processes is slow, not hanging
func retryLimit() time.Duration {
	limit := 4 * caseTimeout
	if b, err := os.ReadFile("/proc/loadavg"); err == nil {
		var l1 float64
		if _, err := fmt.Sscan(string(b), &l1); err == nil {
			if f := l1 / float64(runtime.NumCPU()); f > 1 {
				limit = time.Duration(float64(limit) * f)
			}
		}
	}
	if limit > 10*time.Minute {
		limit = 10 * time.Minute
	}
	return limit
}

func callWorkerOnce(req workerReq, limit time.Duration) (m map[string]any, death string) {
	if deaths >= maxDeaths {
		return map[string]any{"stderr": "not run: 25 worker processes already ended abnormally in this run"}, "not-run-after-deaths"
	}
	defer func() {
		if death != "" {
			deaths++
		}
	}()
	if wp == nil {
		wp = startWorker()
	}
	b, _ := json.Marshal(req)
	b = append(b, '\n')
	if _, err := wp.in.Write(b); err != nil {
		es := wp.stderr.String()
		wp.kill()
		wp = nil
		return nil, classifyDeath(es)
	}
	type res struct {
		line []byte
		err  error
	}
	ch := make(chan res, 1)
	w := wp
	go func() {
		l, err := w.out.ReadBytes('\n')
		ch <- res{l, err}
	}()
	select {
	case r := <-ch:
		if r.err != nil {
			w.cmd.Wait()
			es := w.stderr.String()
			wp.kill()
			wp = nil
			return map[string]any{"stderr": tail(es, 1500)}, classifyDeath(es)
		}
		var m map[string]any
		dec := json.NewDecoder(bytes.NewReader(r.line))
		dec.UseNumber() // keep 64-bit integers exact
		if err := dec.Decode(&m); err != nil {
			return nil, "badreply"
		}
		return m, ""
	case <-time.After(limit):
		wp.kill()
		wp = nil
		return nil, "timeout"
	}
}

func tail(s string, n int) string {
	if len(s) > n {
		return s[len(s)-n:]
	}
	return s
}

func classifyDeath(stderr string) string {
	if strings.Contains(stderr, "out of memory") || strings.Contains(stderr, "cannot allocate memory") {
		return "oom"
	}
	return "crash"
}

func workerMain() {
	inWorker = true
	// hard address-space limit for the worker: runaway allocations end the worker, not the machine
	lim := syscall.Rlimit{Cur: 6 << 30, Max: 6 << 30}
	syscall.Setrlimit(syscall.RLIMIT_AS, &lim)
	debug.SetMaxStack(256 << 20) // runaway recursion ends the worker in a second, not after 1 GB of stack
	sc := bufio.NewScanner(os.Stdin)
	sc.Buffer(make([]byte, 1<<20), 1<<28)
	w := bufio.NewWriterSize(os.Stdout, 1<<20)
	// the scripts' printf goes to os.Stdout: point it at a scratch file read back after each case
	if f, err := os.CreateTemp("", "verif-stdout-*"); err == nil {
		os.Remove(f.Name())
		captureFile = f
		os.Stdout = f
	}
	for sc.Scan() {
		var req workerReq
		if err := json.Unmarshal(sc.Bytes(), &req); err != nil {
			w.WriteString("{\"workererr\":\"bad request\"}\n")
			w.Flush()
			continue
		}
		var out map[string]any
		switch req.Kind {
		case "runV1":
			out = runV1Direct(*req.RC)
		default:
			if h, ok := workerKinds[req.Kind]; ok {
				out = h(req.Raw)
			} else {
				out = map[string]any{"workererr": "unknown kind"}
			}
		}
		b, _ := json.Marshal(out)
		w.Write(b)
		w.WriteByte('\n')
		w.Flush()
	}
}

var workerKinds = map[string]func(json.RawMessage) map[string]any{}

// parseV1 parses in the worker process.
func parseV1(src string) map[string]any {
	if inWorker {
		return parseDirect(src)
	}
	raw, _ := json.Marshal(hx(src)) // hex: JSON would replace invalid UTF-8
	m, death := callWorker(workerReq{Kind: "parse", Raw: raw})
	if death == "" {
		return m
	}
	r := map[string]any{"parse_death": death}
	if m != nil {
		r["stderr"] = m["stderr"]
	}
	return r
}

func init() {
	workerKinds["parse"] = func(raw json.RawMessage) map[string]any {
		var hsrc string
		json.Unmarshal(raw, &hsrc)
		r := parseDirect(unhx(hsrc))
		r["stderr_dump"] = false
		return r
	}
}

// runV1 runs the case in the worker process.
func runV1(rc runCase) map[string]any {
	if inWorker {
		return runV1Direct(rc)
	}
	m, death := callWorker(workerReq{Kind: "runV1", RC: &rc})
	if death == "" {
		return m
	}
	// describe the input ourselves; no observation beyond the way the worker ended
	res := caseHeader(rc)
	obs := map[string]any{"outcome": death}
	if m != nil {
		obs["stderr"] = m["stderr"]
	}
	res["obs"] = obs
	res["asts"] = map[string]any{}
	res["fns"] = []string{}
	res["loaderrs"] = map[string]any{}
	return res
}

var captureFile *os.File

// takeStdout returns what the case printed and empties the scratch file
func takeStdout() string {
	if captureFile == nil {
		return ""
	}
	captureFile.Seek(0, 0)
	b, _ := io.ReadAll(captureFile)
	captureFile.Truncate(0)
	captureFile.Seek(0, 0)
	return string(b)
}
