package main

import (
	"fmt"
	"math/rand"
	"strings"
)

func init() {
	gens["C02"] = genC02
	replayers["run"] = replayRun
}

// replayRun re-runs a recorded run case from its sources.
func replayRun(e *emitter, c map[string]any) {
	rc := runCaseOf(c)
	out := runV1(rc)
	carryOver(out, c)
	e.emit(out)
}

// carryOver copies the recorded case's annotations (everything the re-run did not produce itself:
// strictness, keys, C10/C14 flags, the uninterrupted run's trace, …) onto the fresh result
func carryOver(out, c map[string]any) {
	for k, v := range c {
		if _, ok := out[k]; !ok && k != "_reply" && k != "id" && k != "death" && k != "parse_death" && k != "stderr" {
			out[k] = v
		}
	}
}

// runCaseOf rebuilds the input of a recorded run case
func runCaseOf(c map[string]any) runCase {
	rc := runCase{}
	if ss, ok := c["scripts"].([]any); ok {
		for _, s := range ss {
			m, _ := s.(map[string]any)
			rc.Scripts = append(rc.Scripts, scriptSrc{unhx(m["name"]), unhx(m["src"])})
		}
	}
	rc.Entry = unhx(c["entry"])
	if p, ok := c["point"].(map[string]any); ok {
		rc.Point.Meas = unhx(p["m"])
		if ts, ok := p["tags"].([]any); ok {
			for _, t := range ts {
				a, _ := t.([]any)
				if len(a) == 2 {
					rc.Point.Tags = append(rc.Point.Tags, [2]string{unhx(a[0]), unhx(a[1])})
				}
			}
		}
		if fs, ok := p["fields"].([]any); ok {
			for _, f := range fs {
				a, _ := f.([]any)
				if len(a) == 2 {
					rc.Point.Fields = append(rc.Point.Fields, fieldFromRender(unhx(a[0]), a[1].(string)))
				}
			}
		}
		if fs, ok := p["foreign"].([]any); ok {
			for _, f := range fs {
				a, _ := f.([]any)
				if len(a) == 2 {
					rc.Point.Fields = append(rc.Point.Fields, fieldSpec{unhx(a[0]), "bytes", unhx(a[1])})
				}
			}
		}
		if gs, ok := p["gotypes"].([]any); ok {
			for _, g := range gs {
				a, _ := g.([]any)
				if len(a) == 3 {
					k, t, _ := unhx(a[0]), fmt.Sprint(a[1]), 0
					for i := range rc.Point.Fields {
						if rc.Point.Fields[i].K == k {
							rc.Point.Fields[i] = fieldSpec{k, t, fmt.Sprint(a[2])}
						}
					}
				}
			}
		}
		if t, ok := num(p["time"]); ok {
			rc.Point.Time = t
		}
	}
	if k, ok := num(c["sigk"]); ok {
		rc.SigK = int(k)
	}
	rc.HasSig, _ = c["hassig"].(bool)
	rc.Recheck, _ = c["recheck"].(bool)
	if h, ok := num(c["held"]); ok {
		rc.Held = int(h)
	}
	return rc
}

func fieldFromRender(k, r string) fieldSpec {
	if r == "" {
		return fieldSpec{k, "nil", ""}
	}
	switch r[0] {
	case 'n':
		return fieldSpec{k, "nil", ""}
	case 't':
		return fieldSpec{k, "bool", "true"}
	case 'f':
		return fieldSpec{k, "bool", "false"}
	case 'i':
		return fieldSpec{k, "int", r[1:]}
	case 'd':
		return fieldSpec{k, "float", r[1:]}
	case 's':
		return fieldSpec{k, "str", unhx(r[1:])}
	}
	return fieldSpec{k, "nil", ""}
}

// ---- operand representatives ----

type operand struct {
	class string
	src   string     // source expression producing the value
	field *fieldSpec // when the value can be supplied as a point field
}

func fs(t, v string) *fieldSpec { return &fieldSpec{"", t, v} }

func operands() []operand {
	ops := []operand{
		{"nil", "nil", fs("nil", "")},
		{"bool", "true", fs("bool", "true")},
		{"bool", "false", fs("bool", "false")},
	}
	ints := []string{"0", "1", "-1", "2", "-2", "3", "-7",
		"9007199254740991", "9007199254740992", "9007199254740993",
		"-9007199254740991", "-9007199254740992", "-9007199254740993",
		"2147483648", "-2147483648", "4294967296", "9223372036854775807", "-9223372036854775807"}
	for _, i := range ints {
		ops = append(ops, operand{"int", i, fs("int", i)})
	}
	ops = append(ops, operand{"int", "(-9223372036854775807 - 1)", fs("int", "-9223372036854775808")})
	floats := []string{"0.0", "-0.0", "0.5", "-0.5", "1.5", "2.0", "9007199254740992.0", "9007199254740993.0", "1e308", "5e-324", "-1e308", "9223372036854775808.0"}
	for _, f := range floats {
		ops = append(ops, operand{"float", f, nil})
	}
	ops = append(ops, operand{"float", "(1e308 * 10.0)", nil}, operand{"float", "((1e308 * 10.0) - (1e308 * 10.0))", nil})
	for _, s := range []string{`""`, `"a"`, `"ab"`, `"é"`, `"0"`} {
		ops = append(ops, operand{"str", s, fs("str", strings.Trim(s, `"`))})
	}
	// (an empty list that is not written as a literal: equal to `[]` however it was made)
	for _, s := range []string{"[]", "[1][1:]", "[1]", `[1, "a"]`, "[[1]]", `["a"]`, "[[1][1:]]"} {
		ops = append(ops, operand{"list", s, nil})
	}
	for _, s := range []string{"{}", `{"a": 1}`, `{"a": 1, "ab": nil}`} {
		ops = append(ops, operand{"map", s, nil})
	}
	return ops
}

var binOps = []string{"+", "-", "*", "/", "%", "==", "!=", "<", "<=", ">", ">=", "&&", "||", "in"}
var unOps = []string{"-", "+", "!"}
var asOps = []string{"+=", "-=", "*=", "/=", "%="}

// operand placement: literal in the expression, local variable, or point field
func place(o operand, mode int, name string, pre *[]string, pt *pointSpec) string {
	switch mode {
	case 1:
		*pre = append(*pre, fmt.Sprintf("%s = %s", name, o.src))
		return name
	case 2:
		if o.field != nil {
			f := *o.field
			f.K = name
			pt.Fields = append(pt.Fields, f)
			return name
		}
		*pre = append(*pre, fmt.Sprintf("%s = %s", name, o.src))
		return name
	}
	return o.src
}

func emitProg(e *emitter, src string, pt pointSpec, strict bool, gen string) {
	out := runV1(runCase{Scripts: []scriptSrc{{"main.p", src}}, Entry: "main.p", Point: pt})
	out["strict"] = strict
	out["gen"] = gen
	out["key"] = src
	if obs, ok := out["obs"].(map[string]any); ok {
		e.stat(gen + ":" + fmt.Sprint(obs["outcome"]))
	}
	e.emit(out)
}

func genC02(e *emitter, tier string, seed int64) {
	ops := operands()
	basePt := pointSpec{Meas: "m", Time: 1}
	// exhaustive: operator x ordered operand pair, operands as literals; the probes pr() record
	// evaluation order and "exactly once", p() records the result value and tag
	for _, op := range binOps {
		for _, l := range ops {
			for _, r := range ops {
				src := fmt.Sprintf("p(pr(%s) %s pr(%s))\n", l.src, op, r.src)
				emitProg(e, src, basePt, true, "bin-lit")
			}
		}
	}
	for _, op := range unOps {
		for _, x := range ops {
			emitProg(e, fmt.Sprintf("p(%s pr(%s))\n", op, x.src), basePt, true, "un-lit")
		}
	}
	// operands from variables and point keys (class pairs; one representative per class pair rotates)
	rng := rand.New(rand.NewSource(seed))
	for _, op := range binOps {
		for _, l := range ops {
			for _, r := range ops {
				if tier != "thorough" && rng.Intn(4) != 0 {
					continue
				}
				for mode := 1; mode <= 2; mode++ {
					pre := []string{}
					pt := basePt
					ls := place(l, mode, "x", &pre, &pt)
					rs := place(r, 3-mode, "y", &pre, &pt)
					src := strings.Join(pre, "\n") + fmt.Sprintf("\np(%s %s %s)\n", ls, op, rs)
					emitProg(e, src, pt, true, "bin-var")
				}
			}
		}
	}
	// compound assignment: x op= r, then observe x
	for _, op := range asOps {
		for _, l := range ops {
			for _, r := range ops {
				src := fmt.Sprintf("x = %s\nx %s pr(%s)\np(x)\n", l.src, op, r.src)
				emitProg(e, src, basePt, true, "asop")
			}
		}
	}
	// signed literals: the sign is folded into the literal by the parser - the value keeps its type
	// (a float stays a float at and around 2^63, an integer stays exact)
	for _, lit := range []string{"-9223372036854775808.0", "-9223372036854775808.0 / 3", "-9223372036854775809 - 1", "-(-9223372036854775808.0)", "-9.223372036854775808e18", "+9223372036854775808.0",
		"-9223372036854775808", "-9223372036854775808 + 1", "-9223372036854775807", "-9223372036854775807 - 1", "-0", "-0.0", "+1.5", "- 1.5", "-9223372036854775810.5", "-9223372036854776832", "- - 5", "-+-5", "+-9223372036854775808.0 % 2"} {
		emitProg(e, "p("+lit+")\nx = "+lit+"\np(x, x / 2, x == "+lit+")\n", basePt, true, "signed-literals")
	}
	// (round 7) membership is not numeric equality: an element of another type is another value
	for _, src := range membershipProgs() {
		emitProg(e, src, basePt, true, "membership-types")
	}
	// random expression trees up to size 12
	N := 3000
	if tier == "thorough" {
		N = 100000
	}
	for i := 0; i < N; i++ {
		src := "p(" + randExpr(rng, ops, 3) + ")\n"
		emitProg(e, src, basePt, true, "tree")
	}
}

// x in list, x in map, x in string for values and elements of every type (also numerically equal ones of
// different types)
func membershipProgs() []string {
	r := []string{}
	xs := []string{"1", "1.0", "0", "0.0", "true", "false", "nil", `"1"`, `"a"`, "3", "1.5", "[1]", `{"a": 1}`}
	cs := []string{"[1.0]", "[3, 1]", "[1]", "[true]", "[0]", `[false, "0"]`, `["1"]`, "[nil]", "[1.5, 1]", "[0.0, 3.0]", "[[1]]", `[{"a": 1}]`, `{"1": 1, "a": nil}`, `"a1true"`, "[]", "{}", `""`}
	for _, x := range xs {
		for _, c := range cs {
			r = append(r, fmt.Sprintf("p(pr(%s) in pr(%s))\nx = %s\nc = %s\nif x in c {\n  p(\"yes\")\n} else {\n  p(\"no\")\n}\n", x, c, x, c))
		}
	}
	return r
}

func randExpr(rng *rand.Rand, ops []operand, depth int) string {
	if depth == 0 || rng.Intn(4) == 0 {
		return "pr(" + ops[rng.Intn(len(ops))].src + ")"
	}
	switch rng.Intn(8) {
	case 0:
		return "(" + unOps[rng.Intn(3)] + " " + randExpr(rng, ops, depth-1) + ")"
	default:
		return "(" + randExpr(rng, ops, depth-1) + " " + binOps[rng.Intn(len(binOps))] + " " + randExpr(rng, ops, depth-1) + ")"
	}
}
