package main

import (
	"fmt"
	"strings"

	"github.com/GuanceCloud/platypus/pkg/ast"
	"github.com/GuanceCloud/platypus/pkg/engine"
	"github.com/GuanceCloud/platypus/pkg/engine/runtimev2"
	"github.com/GuanceCloud/platypus/pkg/errchain"
)

func init() { gens["C19"] = genC19 }

type pspec struct {
	Name string
	Def  bool
	Var  bool
}

func mkParams(ps []pspec) []*runtimev2.Param {
	r := []*runtimev2.Param{}
	for _, p := range ps {
		q := &runtimev2.Param{Name: p.Name, Variable: p.Var}
		if p.Def {
			// a default is made anew for every call that omits the parameter: the value is mutable, and the
			// function under test marks the one it received
			q.Val = func() any { return map[string]any{"def": true} }
		}
		r = append(r, q)
	}
	return r
}

// one call shape: each argument positional or named; expressions are the literals 1..n
type argSpec struct {
	Named string // "" = positional
}

// callSrc: argument i is the literal i+1; with nilLast the last argument is the literal nil
// (expression number 0: an explicit nil is a passed value, not "absent")
func callSrc(args []argSpec, nilLast bool) string {
	parts := []string{}
	for i, a := range args {
		val := fmt.Sprint(i + 1)
		if nilLast && i == len(args)-1 {
			val = "nil"
		}
		if a.Named == "" {
			parts = append(parts, val)
		} else {
			parts = append(parts, fmt.Sprintf("%s = %s", a.Named, val))
		}
	}
	return "f(" + strings.Join(parts, ", ") + ")\n"
}

func isDefault(v any) bool {
	m, ok := v.(map[string]any)
	return ok && m["def"] == true
}

// bindOnce loads and runs `f(args)` against the declared parameters with the real v2 engine
func bindOnce(params []*runtimev2.Param, src string) (res string) {
	defer func() {
		if r := recover(); r != nil {
			res = "panic:" + fmt.Sprint(r)
		}
	}()
	var got []string
	fn := &runtimev2.Fn{
		CallCheck: func(ctx *runtimev2.Task, expr *ast.CallExpr) *errchain.PlError {
			return runtimev2.CheckPassParam(ctx, expr, params)
		},
		Call: func(ctx *runtimev2.Task, expr *ast.CallExpr) *errchain.PlError {
			// (the binding of the call that finishes last is reported: for nested calls of f, the outermost)
			mine := []string{}
			defer func() { got = mine }()
			for i := range params {
				v, err := runtimev2.GetParam(ctx, expr, params, i)
				switch {
				case err != nil:
					mine = append(mine, "error")
				case params[i].Variable:
					l, _ := v.([]any)
					es := []string{}
					for _, x := range l {
						if x == nil {
							es = append(es, "0")
						} else {
							es = append(es, fmt.Sprint(x))
						}
					}
					mine = append(mine, "list["+strings.Join(es, " ")+"]")
				case isDefault(v):
					if m := v.(map[string]any); m["seen"] != nil {
						mine = append(mine, "default-used-before")
					} else {
						m["seen"] = true
						mine = append(mine, "default")
					}
				case v == nil:
					mine = append(mine, "value0")
				default:
					mine = append(mine, "value"+fmt.Sprint(v))
				}
			}
			// f yields 0, so that a call of f can stand among the arguments of another
			ctx.Regs.ReturnAppend(runtimev2.V{V: int64(0), T: ast.Int})
			return nil
		},
		Desc: runtimev2.FnDesc{Name: "f", Params: params},
	}
	s, err := engine.ParseV2("t.p", src, map[string]*runtimev2.Fn{"f": fn})
	if err != nil {
		return "rejected"
	}
	if rerr := s.Run(nil); rerr != nil {
		return "runerr"
	}
	first := strings.Join(got, ",")
	// binding is a function of the parameters and the call alone: checking the loaded script again
	// accepts it again and binds the same way
	got = nil
	if cerr := s.Check(); cerr != nil {
		return "rejected-when-checked-again(first: " + first + ")"
	}
	if rerr := s.Run(nil); rerr != nil {
		return "runerr-when-run-again(first: " + first + ")"
	}
	if second := strings.Join(got, ","); second != first {
		return "rebound(first: " + first + " then: " + second + ")"
	}
	// the verdict is about the call and the table in force: against a table that does not know f the same
	// loaded script is rejected, whatever an earlier check left on its call nodes
	saved := s.Fn
	s.Fn = map[string]*runtimev2.Fn{}
	cerr := s.Check()
	s.Fn = saved
	if cerr == nil {
		return "accepted-by-a-table-without-f(first: " + first + ")"
	}
	return first
}

func genC19(e *emitter, tier string, seed int64) {
	maxP, maxA := 3, 3
	if tier == "thorough" {
		maxP, maxA = 4, 4
	}
	kinds := []pspec{{"", false, false}, {"", true, false}, {"", false, true}, {"", true, true}}
	names := []string{"a", "b", "1x"}
	var popts []pspec
	for _, k := range kinds {
		for _, n := range names {
			popts = append(popts, pspec{n, k.Def, k.Var})
		}
	}
	// extra name classes only in single-parameter lists
	// (names outside ASCII: a first character longer than one byte, letters and digits of other scripts,
	// characters that are neither, an invalid byte)
	extraNames := []string{"", "_u", "a1", "a-b", "A", "é", "éa", "名", "aé", "a名", "Ж1", "a\u0661", "a\u0301", "\u00a0", "a\u00b2", "\xff", "a\xff", "_é"}
	argOpts := []argSpec{{""}, {"a"}, {"b"}, {"zz"}}
	var calls [][]argSpec
	var recA func(cur []argSpec)
	recA = func(cur []argSpec) {
		calls = append(calls, append([]argSpec{}, cur...))
		if len(cur) == maxA {
			return
		}
		for _, o := range argOpts {
			recA(append(cur, o))
		}
	}
	recA(nil)
	emitList := func(ps []pspec) {
		params := mkParams(ps)
		defOK := runtimev2.CheckFnParamDef(params) == nil
		pj := []any{}
		for _, p := range ps {
			pj = append(pj, []any{hx(p.Name), p.Def, p.Var})
		}
		results := []any{}
		for _, c := range calls {
			aj := []any{}
			for i, a := range c {
				aj = append(aj, []any{hx(a.Named), i + 1})
			}
			results = append(results, []any{aj, bindOnce(params, callSrc(c, false))})
			if len(c) > 0 {
				// the same call with an explicit nil as its last argument
				an := append([]any{}, aj[:len(aj)-1]...)
				an = append(an, []any{hx(c[len(c)-1].Named), 0})
				results = append(results, []any{an, bindOnce(params, callSrc(c, true))})
			}
		}
		e.stat("paramlist")
		e.emit(map[string]any{"k": "bind", "params": pj, "defok": defOK, "calls": results})
	}
	var recP func(cur []pspec)
	recP = func(cur []pspec) {
		emitList(cur)
		if len(cur) == maxP {
			return
		}
		for _, o := range popts {
			recP(append(append([]pspec{}, cur...), o))
		}
	}
	recP(nil)
	// (round 8) two functions declared from the same parameter objects in a different order (split(input,
	// sep, limit) / rsplit(input, limit, sep)): each call binds by the list of the function it calls,
	// whatever list was checked before
	for mask := 0; mask < 8; mask++ {
		base := []pspec{{"a", mask&1 != 0, false}, {"b", mask&2 != 0, false}, {"zz", mask&4 != 0, false}}
		objs := mkParams(base)
		for _, perm := range [][]int{{0, 1, 2}, {0, 2, 1}, {1, 0, 2}, {2, 1, 0}, {1, 2, 0}, {0, 2, 1}, {0, 1, 2}} {
			ps := []pspec{base[perm[0]], base[perm[1]], base[perm[2]]}
			params := []*runtimev2.Param{objs[perm[0]], objs[perm[1]], objs[perm[2]]}
			pj := []any{}
			for _, p := range ps {
				pj = append(pj, []any{hx(p.Name), p.Def, p.Var})
			}
			results := []any{}
			for _, c := range calls {
				aj := []any{}
				for i, a := range c {
					aj = append(aj, []any{hx(a.Named), i + 1})
				}
				results = append(results, []any{aj, bindOnce(params, callSrc(c, false))})
			}
			e.stat("shared-param-objects")
			e.emit(map[string]any{"k": "bind", "params": pj, "defok": runtimev2.CheckFnParamDef(params) == nil, "calls": results})
		}
	}
	// a call of f among the variadic arguments of a call of f (after an earlier variadic call in the same
	// run): every call keeps the arguments given to it, in order
	for _, ps := range [][]pspec{{{"v", false, true}}, {{"a", false, false}, {"v", false, true}}, {{"a", false, false}, {"b", true, false}, {"v", false, true}}} {
		params := mkParams(ps)
		pj := []any{}
		for _, p := range ps {
			pj = append(pj, []any{hx(p.Name), p.Def, p.Var})
		}
		results := []any{}
		for _, nc := range []struct {
			src  string
			vals []int
		}{
			{"f(9, 9)\nf(1, f(7, 8), 3)\n", []int{1, 0, 3}}, {"f(9)\nf(1, 2, f(7, 8, 9), 4)\n", []int{1, 2, 0, 4}}, {"f(9, 9, 9)\nf(1, f(7, f(8, 9)), 3)\n", []int{1, 0, 3}},
			{"f(1, f(7, 8))\n", []int{1, 0}}, {"for i = 0; i < 2; i = i + 1 {\n  f(1, 2, 3, f(7, 8), 5)\n}\n", []int{1, 2, 3, 0, 5}}, {"f(9, 9)\nf(1, 2, 3)\n", []int{1, 2, 3}},
		} {
			aj := []any{}
			for _, v := range nc.vals {
				aj = append(aj, []any{hx(""), v})
			}
			results = append(results, []any{aj, bindOnce(params, nc.src)})
		}
		e.stat("nested-variadic")
		e.emit(map[string]any{"k": "bind", "params": pj, "defok": runtimev2.CheckFnParamDef(params) == nil, "calls": results})
	}
	// the typed getters hand over the argument exactly when it has the asked-for type, and report an error
	// otherwise (GetParamInt on 1.5, GetParamString on nil, ...)
	{
		args := []struct{ src, typ string }{{"7", "int"}, {"1.5", "float"}, {"true", "bool"}, {"\"s\"", "str"}, {"[1, \"a\"]", "list"}, {"{\"a\": 1}", "map"}, {"nil", "nil"}}
		getters := []string{"int", "float", "bool", "str", "list", "map"}
		params := mkParams([]pspec{{"a", false, false}})
		rows := []any{}
		for _, a := range args {
			for _, g := range getters {
				res := "not-called"
				fn := &runtimev2.Fn{
					CallCheck: func(ctx *runtimev2.Task, expr *ast.CallExpr) *errchain.PlError {
						return runtimev2.CheckPassParam(ctx, expr, params)
					},
					Call: func(ctx *runtimev2.Task, expr *ast.CallExpr) *errchain.PlError {
						var v any
						var err *errchain.PlError
						switch g {
						case "int":
							v, err = runtimev2.GetParamInt(ctx, expr, params, 0)
						case "float":
							v, err = runtimev2.GetParamFloat(ctx, expr, params, 0)
						case "bool":
							v, err = runtimev2.GetParamBool(ctx, expr, params, 0)
						case "str":
							v, err = runtimev2.GetParamString(ctx, expr, params, 0)
						case "list":
							v, err = runtimev2.GetParamList(ctx, expr, params, 0)
						default:
							v, err = runtimev2.GetParamMap(ctx, expr, params, 0)
						}
						plain, _ := runtimev2.GetParam(ctx, expr, params, 0)
						switch {
						case err != nil:
							res = "error"
						case render(v) == render(plain):
							res = "value"
						default:
							res = "other-value:" + render(v)
						}
						return nil
					},
					Desc: runtimev2.FnDesc{Name: "f", Params: params},
				}
				func() {
					defer func() {
						if r := recover(); r != nil {
							res = "panic:" + fmt.Sprint(r)
						}
					}()
					s, err := engine.ParseV2("t.p", "f("+a.src+")\n", map[string]*runtimev2.Fn{"f": fn})
					if err != nil {
						res = "rejected"
						return
					}
					if rerr := s.Run(nil); rerr != nil {
						res = "runerr"
					}
				}()
				rows = append(rows, []any{a.typ, g, res})
			}
		}
		e.stat("typed-getters")
		e.emit(map[string]any{"k": "typed", "rows": rows, "gen": "typed-getters", "key": "typed-getters"})
	}
	for _, n := range extraNames {
		for _, k := range kinds {
			emitList([]pspec{{n, k.Def, k.Var}})
			emitList([]pspec{{"a", false, false}, {n, k.Def, k.Var}})
		}
	}
}
