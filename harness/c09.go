package main

import (
	"fmt"
	"math/rand"
	"sort"
	"strings"
)

func init() {
	gens["C09"] = genC09
	gens["C08"] = genC08
}

// positions: @ marks where an expression is expected, # where a statement is expected
var exprBases = []string{
	"x = @\n", "x = [1, @, 3]\n", "x = {\"k\": @}\n", "x = {\"k\": [1, {\"j\": @}]}\n", "x = (1 + @) * 2\n", "x = -@\n", "x = !@\n",
	"x = 1 < @\n", "x = @ && true\n", "x = true || @\n", "x = @ in [1]\n", "x = 1 in @\n",
	"l = [1]\nx = l[@]\n", "l = [[1]]\nx = l[0][@]\n", "l = [1]\nl[@] = 2\n", "l = [1]\nl[0] = @\n", "l = [1]\nl[0] += @\n",
	"l = [1]\nx = l[@:]\n", "l = [1]\nx = l[:@]\n", "l = [1]\nx = l[::@]\n", "l = [1]\nx = l[1:@:2]\n", "l = [1]\nx = l[@:2:1]\n", "l = [1]\nx = l[1:2:@]\n", "l = [1]\nx = l[:@:]\n", "l = [1]\nx = l[@::]\n",
	"l = [1]\na, l[@] = 1, 2\n", "l = [1]\na, l[@] = pr(1)\n", "a, b = 1, @\n", "x = len(@)\n", "add_key(k, @)\n", "x = pr(1, @)\n", "x = pr(len(@))\n", "p(a = @)\n", "x += @\n", "x = (@)\n",
	"if @ {\n  p(1)\n}\n", "if true {\n  p(1)\n} elif @ {\n  p(2)\n}\n", "if true {\n  x = @\n} else {\n  p(2)\n}\n", "if false {\n  p(1)\n} else {\n  x = @\n}\n",
	"for i = @; i < 2; i = i + 1 {\n  p(i)\n}\n", "for i = 0; @; i = i + 1 {\n  break\n}\n", "for i = 0; i < 2; i = @ {\n  p(i)\n}\n", "for i = 0; i < 2; i = i + 1 {\n  x = @\n}\n",
	"for x in @ {\n  p(x)\n}\n", "for x in [1] {\n  y = @\n}\n", "for x in [1] {\n  for y in [@] {\n    p(y)\n  }\n}\n",
	"#\n", "if true {\n  #\n}\n", "if false {\n} else {\n  #\n}\n", "for x in [1] {\n  p(x)\n}\n#\n", "for x in [1] {\n  if true {\n    #\n  }\n}\n",
	"for x in [1] {\n  if true {\n    break\n  }\n  #\n}\n", "for i = 0; i < 2; i = i + 1 {\n  if i == 1 {\n    continue\n  }\n  x = @\n}\n", "for x in [1] {\n  break\n  #\n}\n",
	"for x in [1] {\n  for y in [2] {\n    break\n  }\n  #\n}\n", "for x in [1] {\n  if false {\n  } else {\n    continue\n  }\n  y = [@]\n}\n", "for x in [1] {\n  if x == 2 {\n    break\n  }\n}\nx = @\n",
	// (round 7: surplus right-hand values, computed map keys)
	"a = 1, @\n", "a = 1, 2, [@]\n", "x = {@: 1}\n", "x = {\"k\" + @: 1}\n", "x = {(@): 1}\n", "l = [1]\nx = {l[@]: 1}\n", "x = {\"a\": 1, -@: 2}\n",
	"for i = 0; i < 1; i = i + 1 {\n  #\n}\n", "for i = 0; i < 1; i = i + 1 {\n}\n#\n", "for x in [1] {\n  for y in [2] {\n  }\n  #\n}\n", "if true {\n  for x in [1] {\n  }\n  #\n}\n",
}

func emitLoad(e *emitter, lc loadCase, gen, key string) {
	out := loadV1(lc)
	out["gen"] = gen
	out["key"] = key
	out["strict"] = true
	e.stat(gen)
	e.emit(out)
}

func perms(xs []string) [][]string {
	if len(xs) <= 1 {
		return [][]string{append([]string{}, xs...)}
	}
	var r [][]string
	for i := range xs {
		rest := append(append([]string{}, xs[:i]...), xs[i+1:]...)
		for _, p := range perms(rest) {
			r = append(r, append([]string{xs[i]}, p...))
		}
	}
	return r
}

// script options for a set of n scripts: unparsable, check-failing, or valid with 0..2 use calls
// to any member (including itself) or to a missing name
func scriptOptions(names []string) []string {
	targets := append(append([]string{}, names...), "x.p")
	// (the nested one fails its check three calls deep: its error already carries a chain of three positions)
	// (a check that fails inside a loop body, and a stray break: neither must influence the other's verdict)
	opts := []string{"a b\n", "p(1)\nnosuch()\n", "p(1)\n", "p(1)\n  x = [len(len(nosuch()))]\n", "for x in [1] {\n  for i = 0; i < 1; i = i + 1 {\n    nosuch()\n  }\n}\n", "p(1)\nbreak\n", "if true {\n  continue\n}\n"}
	for _, t := range targets {
		opts = append(opts, fmt.Sprintf("p(1)\nuse(%q)\n", t))
		for _, u := range targets {
			opts = append(opts, fmt.Sprintf("use(%q)\nif true {\n  use(%q)\n}\n", t, u))
		}
	}
	return opts
}

func genC09(e *emitter, tier string, seed int64) {
	rng := rand.New(rand.NewSource(seed))
	all := []string{"a.p", "b.p", "c.p", "d.p"}
	for n := 1; n <= 4; n++ {
		names := all[:n]
		opts := scriptOptions(names)
		total := 1
		for i := 0; i < n; i++ {
			total *= len(opts)
		}
		exhaustive := n <= 2 || (n == 3 && tier == "thorough")
		count := total
		if !exhaustive {
			count = 2500
			if tier == "thorough" {
				count = 60000
			}
		}
		ps := perms(names)
		for c := 0; c < count; c++ {
			idx := c
			if !exhaustive {
				idx = rng.Intn(total)
			}
			scripts := []scriptSrc{}
			key := []string{}
			x := idx
			for i := 0; i < n; i++ {
				o := opts[x%len(opts)]
				x /= len(opts)
				scripts = append(scripts, scriptSrc{names[i], o})
				key = append(key, names[i]+": "+strings.ReplaceAll(strings.TrimSpace(o), "\n", "; "))
			}
			// every visiting order (n <= 3) or two random orders
			orders := ps
			if n == 4 {
				orders = [][]string{ps[rng.Intn(len(ps))], ps[rng.Intn(len(ps))], ps[rng.Intn(len(ps))]}
			}
			for _, o := range orders {
				reps := 0
				if rng.Intn(8) == 0 {
					reps = 4 // the real loader (map order) as well
				}
				emitLoad(e, loadCase{Scripts: scripts, Order: o, Reps: reps}, fmt.Sprintf("sets%d", n),
					strings.Join(key, " | ")+" || order "+strings.Join(o, ","))
			}
		}
	}
	// named regression shapes: diamond, double use, use along two paths, long chain, cycles off the root
	named := map[string][]scriptSrc{
		"diamond":   {{"a.p", "use(\"b.p\")\nuse(\"c.p\")\n"}, {"b.p", "use(\"d.p\")\n"}, {"c.p", "use(\"d.p\")\n"}, {"d.p", "p(1)\n"}},
		"double":    {{"a.p", "use(\"b.p\")\nuse(\"b.p\")\nuse(\"b.p\")\n"}, {"b.p", "p(1)\n"}},
		"two-paths": {{"a.p", "use(\"b.p\")\nuse(\"c.p\")\n"}, {"b.p", "use(\"c.p\")\n"}, {"c.p", "p(1)\n"}},
		"cycle-off": {{"a.p", "use(\"b.p\")\n"}, {"b.p", "use(\"c.p\")\n"}, {"c.p", "p(1)\np(2)\n  use(\"b.p\")\n"}},
		"self":      {{"a.p", "use(\"a.p\")\n"}},
		// names are exact: a directory component is part of the name
		"dir-missing":   {{"a.p", "use(\"lib/b.p\")\n"}, {"b.p", "p(1)\n"}},
		"dir-both":      {{"a.p", "use(\"lib/b.p\")\nuse(\"b.p\")\n"}, {"b.p", "p(1)\n"}, {"lib/b.p", "p(2)\n"}},
		"dir-same-base": {{"a.p", "use(\"lib/a.p\")\n"}, {"lib/a.p", "p(1)\n"}},
		"dir-empty":     {{"a.p", "use(\"\")\n"}, {"b.p", "use(\"./b.p\")\n"}, {"c.p", "use(\"c.p/\")\n"}},
		// (round 7: an argument shape the linker refuses — the error is located and carries the chain of users)
		"kw-name":   {{"a.p", "p(0)\n  use(name=\"b.p\")\n"}, {"b.p", "p(1)\n"}, {"c.p", "p(2)\nuse(\"a.p\")\n"}, {"d.p", "if true {\n  use(\"c.p\")\n}\n"}},
		"kw-name2":  {{"a.p", "x = [use(name=\"x.p\")]\n"}, {"c.p", "use(\"a.p\")\n"}},
		"two-args":  {{"a.p", "use(\"b.p\", \"c.p\")\n"}, {"b.p", "p(1)\n"}, {"c.p", "use(\"a.p\")\n"}},
		"paren-arg": {{"a.p", "use((\"b.p\"))\n"}, {"b.p", "p(1)\n"}, {"c.p", "use(\"a.p\")\n"}},
		"bad-leaf":  {{"a.p", "p(0)\n\nuse(\"b.p\")\n"}, {"b.p", "p(0)\n  use(\"c.p\")\n"}, {"c.p", "p(1)\n\n\n   use(\"x.p\")\n"}},
	}
	// use() calls in every statement and expression context (loops with conditional and unconditional
	// break/continue before the call, nested blocks, operands, arguments): the call is registered, linked and
	// bound wherever it stands
	ctxs := []string{
		"@\n", "if true {\n  @\n}\n", "if false {\n} elif true {\n  @\n} else {\n}\n", "if false {\n} else {\n  if true {\n    @\n  }\n}\n",
		"for i = 0; i < 3; i = i + 1 {\n  if i == 1 {\n    break\n  }\n  @\n}\n",
		"for x in [1, 2] {\n  if x == 1 {\n    continue\n  }\n  @\n}\n",
		"for x in [1] {\n  break\n  @\n}\n", "for x in [1] {\n  continue\n  @\n}\n",
		"for x in [1] {\n  for y in [2] {\n    break\n  }\n  @\n}\n",
		"for x in [1] {\n  for y in [2] {\n    if true {\n      continue\n    }\n    @\n  }\n}\n",
		"for x in [1] {\n  if true {\n    break\n  } else {\n    @\n  }\n}\n",
		"for x in [1] {\n  if x == 2 {\n    break\n  }\n}\n@\n",
		"for i = 0; i < 1; i = i + 1 {\n  @\n}\n", "for x in [1] {\n  @\n  break\n}\n",
		"x = [1, @]\n", "p(@)\n", "p(a = @)\n", "x = {\"k\": @}\n", "if @ {\n  p(1)\n}\n", "for x in [1] {\n  if true {\n    break\n  }\n  y = [@]\n}\n",
		"p(1)\n\n  @\n@\n", "for x in [1] {\n  if true {\n    continue\n  }\n  @\n  @\n}\n",
	}
	for _, b := range exprBases {
		if strings.Contains(b, "@") {
			ctxs = append(ctxs, b)
		}
	}
	for ci, c := range ctxs {
		for _, t := range []string{"b.p", "x.p", "a.p", "c.p"} {
			ss := []scriptSrc{{"a.p", strings.ReplaceAll(c, "@", fmt.Sprintf("use(%q)", t))}, {"b.p", "p(1)\n"}, {"c.p", "p(2)\nuse(\"a.p\")\n"}}
			for _, o := range perms([]string{"a.p", "b.p", "c.p"}) {
				reps := 0
				if ci%3 == 0 {
					reps = 3
				}
				emitLoad(e, loadCase{Scripts: ss, Order: o, Reps: reps}, "use-context", strings.ReplaceAll(c, "\n", "; ")+" <= "+t+" || order "+strings.Join(o, ","))
			}
		}
	}
	for k, ss := range named {
		names := []string{}
		for _, s := range ss {
			names = append(names, s.Name)
		}
		for _, o := range perms(names) {
			emitLoad(e, loadCase{Scripts: ss, Order: o, Reps: 6}, "named", k+" || order "+strings.Join(o, ","))
		}
	}
}

// C08: valid base programs x every expression/statement position x every offender kind
func genC08(e *emitter, tier string, seed int64) {
	rng := rand.New(rand.NewSource(seed))
	// positions: @ marks where an expression is expected, # where a statement is expected
	bases := exprBases
	// offenders (expressions) and statement offenders
	exprOff := []string{
		"1", "nosuch()", "nosuch(1, 2)", "len()", "len(1, 2)", "get_key()", "get_key(1)", "get_key(k, k)", "add_key()", "add_key(1, 2)", "add_key(k, 1, 2)",
		"set_tag(k, 1)", "set_tag(1)", "drop_key(1)", "drop_key()", "rename(k)", "rename(k, \"lit\")", "rename(1, k)", "cast(k)", "cast(k, \"nosuchtype\")", "cast(k, k2)", "cast(k, \"int\")",
		"set_measurement(k, 1)", "set_measurement(1)", "set_measurement(k, true)", "load_json()", "strfmt(k)", "strfmt(k, k2)", "strfmt(k, \"%v\", 1)", "printf()", "printf(1)", "printf(\"x\")",
		"trim(k, 1)", "trim()", "trim(k, \"a\", \"b\")", "uppercase()", "uppercase(1)", "replace(k, \"a\")", "replace(k, 1, \"b\")", "replace(k, \"a\", 1)", "replace(k, \"a\", \"b\")",
		"url_decode()", "url_decode(1)", "use()", "use(k)", "use(1)", "exit()", "grok(_)", "grok(_, k)", "grok(_, \"%{NOSUCH:a}\")", "grok(_, \"%{WORD:a}\", 1)", "grok(_, \"%{WORD:a}\", true)",
		"add_pattern(\"P\")", "add_pattern(k, \"x\")", "add_pattern(\"P\", k)", "add_pattern(\"P\", \"(\")", "add_pattern(\"P\", \"x\")", "datetime(k, \"s\")", "datetime(k, k, \"RFC3339\")", "datetime(k, \"s\", k)", "datetime(1, \"s\", \"RFC3339\")",
		"default_time()", "default_time(k, 1)", "default_time(1)", "default_time(k, \"+8\")", "xml(k, \"/a\")", "xml(k, k, out)", "xml(k, \"/a\", 1)", "xml(k, \"/a\", out)", "sql_cover()", "sql_cover(1)", "sql_cover(k)",
		"{1: 2}", "{\"a\": 1, nil: 2}", "{k: 2}", "{[1]: 2}", "pr(nosuch())", "[nosuch()]", "len(len(nosuch()))", "p(a = nosuch())",
	}
	stmtOff := []string{"p(1)", "break", "continue", "nosuch()", "x = nosuch()", "if true {\n break \n}", "for y in [1] {\n break \n}", "if nosuch() {\n}", "for z in nosuch() {\n}", "for ; nosuch(); {\n break\n}"}
	for _, b := range bases {
		offs := exprOff
		mark := "@"
		if strings.Contains(b, "#") {
			offs, mark = stmtOff, "#"
		}
		for _, o := range offs {
			if tier != "thorough" && mark == "@" && rng.Intn(3) != 0 {
				continue
			}
			src := strings.Replace(b, mark, o, 1)
			emitLoad(e, loadCase{Scripts: []scriptSrc{{"a.p", src}}, Order: []string{"a.p"}}, "inject", strings.ReplaceAll(b, "\n", "; ")+" <= "+o)
		}
	}
	// every builtin with 0..4 arguments of every kind (the shape rules depend on count and kind jointly)
	{
		call, _ := fnTables()
		names := []string{}
		for n := range call {
			names = append(names, n)
		}
		sort.Strings(names)
		atoms := []string{"k", "k2", "_", "\"s\"", "\"int\"", "\"%{WORD:w}\"", "\"+8\"", "1", "1.5", "true", "nil", "[1]", "{\"a\": 1}", "a.b", "len(k)", "k + 1", "-1", "\"/a/b\"", "\"ms\"", "\"RFC3339\"", "x = 1"}
		M := 2500
		if tier == "thorough" {
			M = 60000
		}
		for i := 0; i < M; i++ {
			n := names[rng.Intn(len(names))]
			args := []string{}
			for k := rng.Intn(5); k > 0; k-- {
				args = append(args, atoms[rng.Intn(len(atoms))])
			}
			callSrc := n + "(" + strings.Join(args, ", ") + ")"
			src := []string{"@\n", "x = [@]\n", "if true {\n  @\n}\n", "for i = 0; i < 1; i = i + 1 {\n  if i == 0 {\n    continue\n  }\n  @\n}\n"}[rng.Intn(4)]
			emitLoad(e, loadCase{Scripts: []scriptSrc{{"a.p", strings.Replace(src, "@", callSrc, 1)}}, Order: []string{"a.p"}}, "builtin-arg-shapes", callSrc)
		}
	}
	// long valid scripts (hundreds of statements of every kind, flat): length alone never rejects a script
	for _, n := range []int{100, 600, 1500} {
		var sb strings.Builder
		for i := 0; i < n; i++ {
			switch i % 6 {
			case 0:
				fmt.Fprintf(&sb, "x%d = [1, {\"k\": len(\"ab\")}]\n", i%7)
			case 1:
				sb.WriteString("if k == 1 {\n  p(1)\n} elif k {\n} else {\n  add_key(k, 2)\n}\n")
			case 2:
				sb.WriteString("for x in [1, 2] {\n  if x == 1 {\n    continue\n  }\n  p(x)\n}\n")
			case 3:
				sb.WriteString("for i = 0; i < 2; i = i + 1 {\n  break\n}\n")
			case 4:
				sb.WriteString("p(len([1, 2][0:1]), -1 + 2 * 3, \"a\" in [\"a\"])\n")
			default:
				sb.WriteString("add_key(k, uppercase(k))\n")
			}
		}
		emitLoad(e, loadCase{Scripts: []scriptSrc{{"a.p", sb.String()}}, Order: []string{"a.p"}}, "long-valid", fmt.Sprintf("%d statements", n))
		emitLoad(e, loadCase{Scripts: []scriptSrc{{"a.p", sb.String() + "break\n"}}, Order: []string{"a.p"}}, "long-valid", fmt.Sprintf("%d statements then a stray break", n))
	}
	// asymmetric function tables: a name known to the checker table only, or to the call table only
	for _, src := range []string{"drop_key(k)\n", "x = [len(\"a\")]\nif true {\n  drop_key(k)\n}\n", "p(1)\nuppercase(k)\n", "add_key(k, len(\"ab\"))\n"} {
		for _, dc := range [][2][]string{{{"drop_key"}, nil}, {nil, {"drop_key"}}, {{"len", "uppercase"}, nil}, {nil, {"len"}}, {{"drop_key"}, {"drop_key"}}} {
			out := loadV1(loadCase{Scripts: []scriptSrc{{"a.p", src}}, Order: []string{"a.p"}, DropCall: dc[0], DropCheck: dc[1]})
			out["gen"], out["key"], out["strict"] = "asym-tables", fmt.Sprintf("%q call-%v check-%v", src, dc[0], dc[1]), true
			e.stat("asym-tables")
			e.emit(out)
		}
	}
	// random programs (valid and not) through the same comparison
	N := 3000
	if tier == "thorough" {
		N = 80000
	}
	for i := 0; i < N; i++ {
		g := newPG(rng)
		g.allowExit = true
		g.illTyped = 6
		g.maxDepth = 1 + rng.Intn(3)
		src := g.program(1 + rng.Intn(4))
		if rng.Intn(3) == 0 {
			// one random offender somewhere: replace the first probe by it
			src = strings.Replace(src, "p(1,", "p("+exprOff[rng.Intn(len(exprOff))]+",", 1)
		}
		emitLoad(e, loadCase{Scripts: []scriptSrc{{"a.p", src}}, Order: []string{"a.p"}}, "random", src)
	}
}
