package main

import (
	"encoding/json"
	"fmt"
	"math/rand"
	"runtime"
	"runtime/debug"
)

func init() {
	gens["C15"] = genC15
	workerKinds["hist"] = func(raw json.RawMessage) map[string]any {
		var ops []runCase
		json.Unmarshal(raw, &ops)
		return histDirect(ops)
	}
}

// histDirect runs the operations one after another in this process with one P and the collector
// off, so that sync.Pool hands back the objects just released (parser, Task, Point, TFMeta).
func histDirect(ops []runCase) map[string]any {
	prevP := runtime.GOMAXPROCS(1)
	prevGC := debug.SetGCPercent(-1)
	defer func() {
		runtime.GOMAXPROCS(prevP)
		debug.SetGCPercent(prevGC)
	}()
	res := []any{}
	sets := []*loadedSet{}
	for _, op := range ops {
		var held *loadedSet
		if op.Held > 0 && op.Held <= len(sets) {
			held = sets[op.Held-1]
		}
		m, set := runV1With(op, held)
		sets = append(sets, set)
		res = append(res, m)
	}
	return map[string]any{"k": "hist", "ops": res}
}

func histV1(ops []runCase) map[string]any {
	if inWorker {
		return histDirect(ops)
	}
	raw, _ := json.Marshal(ops)
	m, death := callWorker(workerReq{Kind: "hist", Raw: raw})
	if death == "" {
		return m
	}
	return map[string]any{"k": "hist", "ops": []any{}, "death": death}
}

func genC15(e *emitter, tier string, seed int64) {
	rng := rand.New(rand.NewSource(seed))
	// the pool of scripts: succeeding, failing mid-loop, exiting, cancelled, syntactically invalid,
	// grok-bearing, use()-bearing, register/scope heavy
	type sc struct {
		name    string
		scripts []scriptSrc
		sigK    int
	}
	pool := []sc{
		{"ok", []scriptSrc{{"a.p", "v = len(message)\nadd_key(n1, v)\nset_tag(t9, \"x\")\nfor i = 0; i < 2; i = i + 1 {\n  add_key(k, i)\n}\np(\"ok\", v, get_key(k))\n"}}, 0},
		{"fail-mid-loop", []scriptSrc{{"a.p", "zero = 0\nfor i = 0; i < 3; i = i + 1 {\n  add_key(seen, i)\n  if i == 1 {\n    x = 1 / zero\n  }\n}\np(\"never\")\n"}}, 0},
		{"exit", []scriptSrc{{"a.p", "add_key(e1, 1)\nif true {\n  exit()\n}\nadd_key(e2, 2)\n"}}, 0},
		{"cancelled", []scriptSrc{{"a.p", "for ;; {\n  add_key(c, 1)\n}\n"}}, 7},
		{"invalid", []scriptSrc{{"a.p", "x = [1, 2\nfor\n"}}, 0},
		{"check-fail", []scriptSrc{{"a.p", "nosuch(1)\n"}}, 0},
		{"grok", []scriptSrc{{"a.p", "add_pattern(\"W\", \"\\\\w+\")\nif true {\n  add_pattern(\"N\", \"\\\\d+\")\n  grok(_, \"%{W:w} %{N:n:int}\")\n}\np(get_key(w), get_key(n))\n"}}, 0},
		{"use", []scriptSrc{{"a.p", "v = \"a\"\nuse(\"b.p\")\np(v, get_key(fromb))\n"}, {"b.p", "v = \"b\"\nadd_key(fromb, v)\nexit()\nadd_key(never, 1)\n"}}, 0},
		{"regs-scopes", []scriptSrc{{"a.p", "x = pr(pr(1) + len(pr([1, 2])))\nif x {\n  y = x\n  if y {\n    z = [y, get_key(message)]\n    p(z)\n  }\n}\nrename(m2, message)\ncast(f1, \"str\")\n"}}, 0},
		// readers of names other scripts leave behind (a recycled task must start with no variables), also in a callee
		{"reader", []scriptSrc{{"a.p", "p(\"r\", zero, v, x, y, z, j, i, w)\nuse(\"b.p\")\n"}, {"b.p", "p(\"rb\", zero, v, x, y, z, j, i, w)\n"}}, 0},
		{"fail-in-if-after-use", []scriptSrc{{"a.p", "v = \"A\"\nzero = 0\nuse(\"b.p\")\nif true {\n  if true {\n    x = 1 / zero\n  }\n}\n"}, {"b.p", "w = \"B\"\n"}}, 0},
		{"callee-fails-in-for", []scriptSrc{{"a.p", "v = \"A2\"\nj = 5\nuse(\"b.p\")\n"}, {"b.p", "w = \"B2\"\nzz = 0\nfor i = 0; i < 1; i = i + 1 {\n  y = 1 / zz\n}\n"}}, 0},
		// an engine with adaptive internal state must not carry it from one point to the next
		{"sql", []scriptSrc{{"a.p", "sql_cover(message)\np(get_key(message))\n"}}, 0},
		// literals must be fresh objects in every run; a value-less store into a tag must not upset pooled key records
		{"empty-literals", []scriptSrc{{"a.p", "m = {}\nl = []\np(\"fresh\", m, l, len(m))\nm[\"seen\"] = 1\nl2 = [1]\nl2[0] = 2\nadd_key(dump, m)\n"}}, 0},
		{"void-into-tag", []scriptSrc{{"a.p", "add_key(t1, a.b)\nset_tag(f1, a.b)\np(get_key(t1), get_key(f1))\n"}}, 0},
		{"read-all-keys", []scriptSrc{{"a.p", "p(message + message, f1, t1, get_key(k))\nadd_key(n9, len(message))\n"}}, 0},
		// the same text loaded next to different companions, and the same grok text under different
		// pattern definitions: what a loaded script does is fixed by the set it was loaded with
		{"use-lib1", []scriptSrc{{"a.p", "use(\"b.p\")\np(\"lib\", get_key(from), get_key(more))\n"}, {"b.p", "add_key(from, \"one\")\n"}}, 0},
		{"use-lib2", []scriptSrc{{"a.p", "use(\"b.p\")\np(\"lib\", get_key(from), get_key(more))\n"}, {"b.p", "add_key(from, \"two\")\nadd_key(more, 2)\n"}}, 0},
		{"grok-code-digits", []scriptSrc{{"a.p", "add_pattern(\"code\", \"\\\\d+\")\ngrok(_, \"%{WORD:w} %{code:c}\")\np(get_key(w), get_key(c))\n"}}, 0},
		{"grok-code-any", []scriptSrc{{"a.p", "add_pattern(\"code\", \".*\")\ngrok(_, \"%{WORD:w} %{code:c}\")\np(get_key(w), get_key(c))\n"}}, 0},
		// (round 9) the same grok text inside a block, under definitions made outside the block that differ
		// from script to script, and in a script that does not define the name at all (refused at load)
		{"grok-code-block-digits", []scriptSrc{{"a.p", "add_pattern(\"code\", \"\\\\d+\")\nif true {\n  grok(_, \"%{WORD:w} %{code:c}\")\n}\np(get_key(w), get_key(c))\n"}}, 0},
		{"grok-code-block-letters", []scriptSrc{{"a.p", "add_pattern(\"code\", \"[a-z]+\")\nfor x in [1] {\n  grok(_, \"%{WORD:w} %{code:c}\")\n}\np(get_key(w), get_key(c))\n"}}, 0},
		{"grok-code-block-undefined", []scriptSrc{{"a.p", "if true {\n  grok(_, \"%{WORD:w} %{code:c}\")\n}\np(get_key(w), get_key(c))\n"}}, 0},
		{"grok-code-undefined", []scriptSrc{{"a.p", "grok(_, \"%{WORD:w} %{code:c}\")\np(get_key(w), get_key(c))\n"}}, 0},
		// a zone that cannot be loaded fails the same way every time
		{"bad-zone", []scriptSrc{{"a.p", "add_key(ts, \"2021-03-15 00:08:10\")\ndefault_time(ts, \"Mars/Phobos\")\np(get_key(ts), get_key(pl_msg))\n"}}, 0},
		{"bad-zone-house-layout", []scriptSrc{{"a.p", "add_key(ts, \"171113 14:14:20\")\ndefault_time(ts, \"Mars/Phobos\")\np(get_key(ts), get_key(pl_msg))\n"}}, 0},
		{"time-reader", []scriptSrc{{"a.p", "add_key(ts, \"not a time\")\ndefault_time(ts)\np(get_key(ts), get_key(pl_msg))\n"}}, 0},
		// an error object must be a fresh one in every run (its chain of call sites does not grow from run to run)
		{"bad-regex-nested", []scriptSrc{{"a.p", "add_key(k2, replace(message, \"(\", \"x\"))\np(\"never\")\n"}}, 0},
		{"bad-regex-through-use", []scriptSrc{{"a.p", "p(\"a\")\nuse(\"b.p\")\n"}, {"b.p", "if true {\n  replace(message, \"(\", \"x\")\n}\n"}}, 0},
		// an engine that keeps compiled queries: the answer for one document owes nothing to earlier ones
		{"xml-group", []scriptSrc{{"a.p", "xml(message, \"(//b)[1]\", out)\nxml(message, \"(//b)[last()]\", out2)\nxml(message, \"(/a/b)[2]\", out3)\np(get_key(out), get_key(out2), get_key(out3))\n"}}, 0},
		// a builtin's scratch storage is empty at every call, also after a call that failed half way
		{"strfmt-argument-fails", []scriptSrc{{"a.p", "l = [1]\nstrfmt(out, \"%v-%v\", message, l[5])\np(\"never\")\n"}}, 0},
		{"strfmt-one-argument", []scriptSrc{{"a.p", "strfmt(out, \"<%v>\", message)\nprintf(\"%v|\", f1)\np(get_key(out))\n"}}, 0},
		{"literal-mutation", []scriptSrc{{"a.p", "a = [\"x\", \"y\"]\np(a)\na[1] = \"changed\"\nm = {\"k\": [[0, 1], 2]}\np(m)\nm[\"k\"][0][1] = 9\nm[\"n\"] = 1\nadd_key(dump2, m)\n"}}, 0},
		// (round 7) what the check pass learnt from one script (pattern names of a block, being inside a loop) is gone with it
		{"grok-N-undefined-in-block", []scriptSrc{{"a.p", "if true {\n  grok(_, \"%{WORD:w} %{N:n}\")\n}\np(get_key(w), get_key(n))\n"}}, 0},
		{"check-fail-in-loop", []scriptSrc{{"a.p", "for i = 0; i < 1; i = i + 1 {\n  for x in [1] {\n    nosuch(1)\n  }\n}\n"}}, 0},
		{"stray-break", []scriptSrc{{"a.p", "add_key(sb1, 1)\nif true {\n  break\n}\nadd_key(sb2, 2)\n"}}, 0},
		{"map-json", []scriptSrc{{"a.p", "j = load_json(\"{\\\"a\\\": [1, 2.5]}\")\nadd_key(j)\nadd_key(k2, j[\"a\"][1])\n"}}, 0},
	}
	points := []pointSpec{
		{Meas: "m", Time: 1600000000000000000, Fields: []fieldSpec{{"message", "str", "hello 42"}, {"f1", "int", "7"}}, Tags: [][2]string{{"t1", "tv"}}},
		{Meas: "other", Time: 5, Fields: []fieldSpec{{"message", "str", "x"}, {"k", "str", "pre"}, {"f1", "float", "4609434218613702656"}}},
		// a point without a timestamp (the zero time): a recycled point object must not lend it one
		{Meas: "nots", Time: zeroTimeNanos, Fields: []fieldSpec{{"message", "str", "y 7"}}},
	}
	sqlPoints := []pointSpec{
		{Meas: "q", Time: 7, Fields: []fieldSpec{{"message", "str", "select * from t where name = 'backslash\\' AND id ='1234'"}}},
		{Meas: "q", Time: 8, Fields: []fieldSpec{{"message", "str", "SELECT * FROM t WHERE a = 'x\\' -- ' AND b = 'y'"}}},
	}
	mkOp := func(i, j int) runCase {
		s := pool[i]
		pt := points[j]
		if s.name == "sql" {
			pt = sqlPoints[j%2]
		}
		if s.name == "xml-group" {
			pt = pointSpec{Meas: "x", Time: int64(9 + j), Fields: []fieldSpec{{"message", "str", []string{"<a><b>one</b><b>two</b></a>", "<a><b>uno</b></a>", "<a><c/><b>eins</b><b>zwei</b><b>drei</b></a>"}[j%3]}}}
		}
		return runCase{Scripts: s.scripts, Entry: "a.p", Point: pt, SigK: s.sigK, HasSig: true}
	}
	// an operation is (script set, point, held): held > 0 runs again the set loaded by that earlier
	// operation of the history (the host kept it) instead of loading
	emitHist := func(idx [][3]int, gen string) {
		ops := []runCase{}
		key := ""
		for k, ij := range idx {
			set := ij[0]
			if ij[2] > 0 {
				set = idx[ij[2]-1][0]
				idx[k][0] = set
			}
			op := mkOp(set, ij[1])
			op.Held = ij[2]
			ops = append(ops, op)
			key += fmt.Sprintf("%s/%d", pool[set].name, ij[1])
			if ij[2] > 0 {
				key += fmt.Sprintf("@%d", ij[2])
			}
			key += " "
		}
		out := histV1(ops)
		out["gen"] = gen
		out["key"] = key
		out["strict"] = true
		e.stat(gen)
		e.emit(out)
	}
	n := len(pool)
	// all histories of length 2 (every ordered pair of operations), then longer ones
	for a := 0; a < n; a++ {
		for b := 0; b < n; b++ {
			emitHist([][3]int{{a, 0, 0}, {b, 1, 0}, {a, 1, 0}, {b, 0, 0}}, "pairs")
			// load a, load b, then run both sets as loaded
			emitHist([][3]int{{a, 0, 0}, {b, 1, 0}, {a, 1, 1}, {b, 0, 2}, {a, 0, 1}}, "pairs-held")
			// a time-stamped point, then points without a timestamp
			emitHist([][3]int{{a, 0, 0}, {b, 2, 0}, {a, 2, 0}}, "pairs-zero-time")
		}
	}
	N, maxLen := 150, 40
	if tier == "thorough" {
		N, maxLen = 3000, 200
	}
	for i := 0; i < N; i++ {
		l := 3 + rng.Intn(maxLen)
		idx := make([][3]int, l)
		for k := range idx {
			idx[k] = [3]int{rng.Intn(n), rng.Intn(3), 0}
			if k > 0 && rng.Intn(3) == 0 {
				idx[k][2] = 1 + rng.Intn(k)
			}
		}
		emitHist(idx, "random")
	}
}
