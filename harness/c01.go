package main

import (
	"math/rand"
)

func init() {
	gens["C01"] = genC01
	gens["C03"] = genC03
}

// C01: random programs over the whole grammar, weights towards ill-typed operands and extremes
func genC01(e *emitter, tier string, seed int64) {
	rng := rand.New(rand.NewSource(seed))
	N := 6000
	if tier == "thorough" {
		N = 150000
	}
	for i := 0; i < N; i++ {
		g := newPG(rng)
		g.allowExit = true
		g.illTyped = 5
		if i%3 == 0 {
			g.locals = []string{"u", "v"}
		}
		g.maxDepth = 1 + rng.Intn(3)
		src := g.program(1 + rng.Intn(5))
		out := runV1(runCase{Scripts: []scriptSrc{{"main.p", src}}, Entry: "main.p", Point: stdPoint(rng), HasSig: true, SigK: 3000})
		out["gen"] = "rand-prog"
		out["key"] = src
		out["strict"] = false
		if obs, ok := out["obs"].(map[string]any); ok {
			e.stat("rand-prog:" + obs["outcome"].(string))
		}
		e.emit(out)
	}
	// every builtin with the argument shapes its checker accepts, over subjects of every kind:
	// the matrices of C11 and C12, here under the no-panic specification
	genC11(e, tier, seed)
	genC12(e, tier, seed)
}

// C03: control flow and scoping; no builtins with engines, probes are the only effects besides variables
func genC03(e *emitter, tier string, seed int64) {
	rng := rand.New(rand.NewSource(seed))
	N := 8000
	if tier == "thorough" {
		N = 200000
	}
	for i := 0; i < N; i++ {
		g := newPG(rng)
		g.allowBuilt = false
		if i%2 == 0 {
			g.locals = []string{"u", "v", "w"}
		}
		g.maxDepth = 2 + rng.Intn(2)
		src := g.program(1 + rng.Intn(4))
		out := runV1(runCase{Scripts: []scriptSrc{{"main.p", src}}, Entry: "main.p", Point: stdPoint(rng), HasSig: true, SigK: 3000})
		out["gen"] = "ctl-prog"
		out["key"] = src
		out["strict"] = true
		if obs, ok := out["obs"].(map[string]any); ok {
			e.stat("ctl-prog:" + obs["outcome"].(string))
		}
		e.emit(out)
	}
}
