package main

import (
	"math/rand"
)

func init() {
	gens["C01"] = genC01
	gens["C03"] = genC03
}

// C01: random programs over the whole grammar, weights towards ill-typed operands and extremes
func genC01(e *emitter, tier string, seed int64) {
	rng := rand.New(rand.NewSource(seed))
	N := 6000
	if tier == "thorough" {
		N = 150000
	}
	for i := 0; i < N; i++ {
		g := newPG(rng)
		g.allowExit = true
		g.illTyped = 5
		if i%3 == 0 {
			g.locals = []string{"u", "v"}
		}
		g.maxDepth = 1 + rng.Intn(3)
		src := g.program(1 + rng.Intn(5))
		out := runV1(runCase{Scripts: []scriptSrc{{"main.p", src}}, Entry: "main.p", Point: stdPoint(rng), HasSig: true, SigK: 3000})
		out["gen"] = "rand-prog"
		out["key"] = src
		out["strict"] = false
		if obs, ok := out["obs"].(map[string]any); ok {
			e.stat("rand-prog:" + obs["outcome"].(string))
		}
		e.emit(out)
	}
	// every builtin with the argument shapes its checker accepts, over subjects of every kind:
	// the matrices of C11 and C12, here under the no-panic specification
	genC11(e, tier, seed)
	genC12(e, tier, seed)
}

// C03: control flow and scoping; no builtins with engines, probes are the only effects besides variables
func genC03(e *emitter, tier string, seed int64) {
	rng := rand.New(rand.NewSource(seed))
	N := 8000
	if tier == "thorough" {
		N = 200000
	}
	// branch selection, exhaustively: every if / elif / elif / else over truthy and falsy conditions of every
	// type, with every subset of the blocks empty (an empty taken branch still ends the statement)
	conds := []string{"true", "false", "1", "0", "\"x\"", "\"\"", "nil", "[0]", "[]", "{\"a\": 1}", "{}", "0.0", "1.5", "k == 1", "pr(0)", "pr(2)"}
	emitCtl := func(src, gen string) {
		out := runV1(runCase{Scripts: []scriptSrc{{"main.p", src}}, Entry: "main.p", Point: stdPoint(rng), HasSig: true, SigK: 3000})
		out["gen"], out["key"], out["strict"] = gen, src, true
		e.stat(gen)
		e.emit(out)
	}
	for ci := 0; ci < len(conds)*len(conds); ci++ {
		c1, c2 := conds[ci%len(conds)], conds[ci/len(conds)]
		c3 := conds[rng.Intn(len(conds))]
		for mask := 0; mask < 16; mask++ {
			blk := func(i int, tag string) string {
				if mask&(1<<i) != 0 {
					return []string{"{\n}", "{\n  # nothing\n}"}[(mask+i)%2]
				}
				return "{\n  r = \"" + tag + "\"\n  p(\"" + tag + "\")\n}"
			}
			if tier != "thorough" && mask != 0 && rng.Intn(4) != 0 {
				continue
			}
			emitCtl("k = 1\nr = \"none\"\nif "+c1+" "+blk(0, "if")+" elif "+c2+" "+blk(1, "elif1")+" elif "+c3+" "+blk(2, "elif2")+" else "+blk(3, "else")+"\np(r)\n", "branch-selection")
			if mask < 4 {
				emitCtl("k = 1\nr = \"none\"\nif "+c1+" "+blk(0, "if")+" else "+blk(1, "else")+"\np(r)\nif "+c2+" "+blk(1, "if2")+"\np(r)\n", "branch-selection")
			}
		}
	}
	for i := 0; i < N; i++ {
		g := newPG(rng)
		g.allowBuilt = false
		if i%2 == 0 {
			g.locals = []string{"u", "v", "w"}
		}
		g.maxDepth = 2 + rng.Intn(2)
		src := g.program(1 + rng.Intn(4))
		out := runV1(runCase{Scripts: []scriptSrc{{"main.p", src}}, Entry: "main.p", Point: stdPoint(rng), HasSig: true, SigK: 3000})
		out["gen"] = "ctl-prog"
		out["key"] = src
		out["strict"] = true
		if obs, ok := out["obs"].(map[string]any); ok {
			e.stat("ctl-prog:" + obs["outcome"].(string))
		}
		e.emit(out)
	}
}
