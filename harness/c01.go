package main

import (
	"math/rand"
	"strings"
)

func init() {
	gens["C01"] = genC01
	gens["C03"] = genC03
}

// C01: random programs over the whole grammar, weights towards ill-typed operands and extremes
func genC01(e *emitter, tier string, seed int64) {
	rng := rand.New(rand.NewSource(seed))
	N := 6000
	if tier == "thorough" {
		N = 150000
	}
	for i := 0; i < N; i++ {
		g := newPG(rng)
		g.allowExit = true
		g.illTyped = 5
		if i%3 == 0 {
			g.locals = []string{"u", "v"}
		}
		g.maxDepth = 1 + rng.Intn(3)
		src := g.program(1 + rng.Intn(5))
		out := runV1(runCase{Scripts: []scriptSrc{{"main.p", src}}, Entry: "main.p", Point: stdPoint(rng), HasSig: true, SigK: 3000})
		out["gen"] = "rand-prog"
		out["key"] = src
		out["strict"] = false
		if obs, ok := out["obs"].(map[string]any); ok {
			e.stat("rand-prog:" + obs["outcome"].(string))
		}
		e.emit(out)
	}
	// values that contain themselves (a[0] = a; a map holding a list holding the map) through every consumer:
	// formatting, output, stores into the point, membership, comparison, iteration, slicing, len, JSON
	makers := []string{"a = [1]\na[0] = a\n", "a = {\"k\": 1}\na[\"k\"] = a\n", "b = [1, 2]\na = {\"l\": b}\nb[1] = a\n", "a = [[1], 2]\na[0][0] = a\n", "a = [1, [2]]\nb = [a, a]\na = b\n"}
	users := []string{"strfmt(r, \"%v\", a)\np(get_key(r))", "strfmt(r, \"%v|%v\", 1, a)", "strfmt(r, \"%d\", p(1), a, p(2))", "printf(\"%v\\n\", a)", "printf(\"%v %v\\n\", \"x\", a)",
		"add_key(k, a)\np(get_key(k))", "set_tag(t, a)", "p(a)", "p(len(a))", "p(a in [a])", "p(a == a)", "for x in a {\n  p(len(x))\n}", "c = a[0:1]\np(c)", "c = a[::-1]\np(c)",
		"cast(a, \"str\")", "p(a[0])", "set_measurement(a)", "x = [a, a]\nstrfmt(r, \"%v\", x)", "m2 = {\"q\": a}\nprintf(\"%v\", m2)", "rename(nn, a)", "uppercase(a)", "x = a + a", "x = -a", "if a {\n  p(\"truthy\")\n}",
		"cast(a, \"int\")", "cast(a, \"bool\")", "cast(a, \"float\")", "trim(a)", "replace(a, \"x\", \"y\")", "url_decode(a)", "p(load_json(a))", "datetime(a, \"s\", \"RFC3339\")", "default_time(a)",
		"grok(a, \"%{WORD:w}\")", "sql_cover(a)", "xml(a, \"/a\", out)", "drop_key(a)", "add_key(a)", "add_key(a, a)", "p(a < a)", "p(a != [a])", "x = a % 2", "a += 1", "p(!a)", "m3 = {\"k\": a}\np(m3 == m3, \"k\" in m3)", "strfmt(r, \"%s\", [a])", "p(get_key(a))", "p([a] in [[a]])"}
	for _, mk := range makers {
		for _, u := range users {
			src := mk + u + "\np(\"end\")\n"
			out := runV1(runCase{Scripts: []scriptSrc{{"main.p", src}}, Entry: "main.p", Point: stdPoint(rng), HasSig: true, SigK: 3000})
			out["gen"], out["key"], out["strict"] = "self-containing", src, true
			e.stat("self-containing")
			e.emit(out)
		}
	}
	// every builtin with the argument shapes its checker accepts, over subjects of every kind:
	// the matrices of C11 and C12, here under the no-panic specification
	genC11(e, tier, seed)
	genC12(e, tier, seed)
	// indexing, slicing, membership, literals and aliasing (C04) and the operator table (C02), here under
	// the no-panic specification as well
	genC04(e, tier, seed)
	if tier == "thorough" {
		genC02(e, tier, seed)
	}
}

// C03: control flow and scoping; no builtins with engines, probes are the only effects besides variables
func genC03(e *emitter, tier string, seed int64) {
	rng := rand.New(rand.NewSource(seed))
	N := 8000
	if tier == "thorough" {
		N = 200000
	}
	// branch selection, exhaustively: every if / elif / elif / else over truthy and falsy conditions of every
	// type, with every subset of the blocks empty (an empty taken branch still ends the statement)
	conds := []string{"true", "false", "1", "0", "\"x\"", "\"\"", "nil", "[0]", "[]", "{\"a\": 1}", "{}", "0.0", "1.5", "k == 1", "pr(0)", "pr(2)"}
	emitCtl := func(src, gen string) {
		out := runV1(runCase{Scripts: []scriptSrc{{"main.p", src}}, Entry: "main.p", Point: stdPoint(rng), HasSig: true, SigK: 3000})
		out["gen"], out["key"], out["strict"] = gen, src, true
		e.stat(gen)
		e.emit(out)
	}
	for ci := 0; ci < len(conds)*len(conds); ci++ {
		c1, c2 := conds[ci%len(conds)], conds[ci/len(conds)]
		c3 := conds[rng.Intn(len(conds))]
		for mask := 0; mask < 16; mask++ {
			blk := func(i int, tag string) string {
				if mask&(1<<i) != 0 {
					return []string{"{\n}", "{\n  # nothing\n}"}[(mask+i)%2]
				}
				return "{\n  r = \"" + tag + "\"\n  p(\"" + tag + "\")\n}"
			}
			if tier != "thorough" && mask != 0 && rng.Intn(4) != 0 {
				continue
			}
			emitCtl("k = 1\nr = \"none\"\nif "+c1+" "+blk(0, "if")+" elif "+c2+" "+blk(1, "elif1")+" elif "+c3+" "+blk(2, "elif2")+" else "+blk(3, "else")+"\np(r)\n", "branch-selection")
			if mask < 4 {
				emitCtl("k = 1\nr = \"none\"\nif "+c1+" "+blk(0, "if")+" else "+blk(1, "else")+"\np(r)\nif "+c2+" "+blk(1, "if2")+"\np(r)\n", "branch-selection")
			}
		}
	}
	// assignments and compound assignments inside every kind of block to a name that is a point key, a tag,
	// an outer variable, or nothing: what the block created is gone after it, what it updated stays
	for _, blk := range []string{"if true {\n@\n}", "if false {\n} else {\n@\n}", "if false {\n} elif 1 {\n@\n}", "for i = 0; i < 2; i = i + 1 {\n@\n}", "for x in [1, 2] {\n@\n}", "if true {\n  if true {\n@\n  }\n}", "for x in \"ab\" {\n  if x == \"a\" {\n@\n  }\n}"} {
		for _, body := range []string{"K += 1", "K -= 1\nK *= 2", "K += 1\np(K)", "K = K + 1", "K += 1\nK = 9", "K = 7", "K %= 3\np(\"in\", K, get_key(K))", "p(K)\nK += 2\nK += 2"} {
			for _, k := range []string{"f1", "nf", "ov", "t1", "message"} {
				emitCtl("ov = 3\n"+strings.ReplaceAll(strings.ReplaceAll(blk, "@", body), "K", k)+"\np(\"after\", "+k+", get_key("+k+"))\n", "block-assignments")
			}
		}
	}
	// a for-in loop whose variable is a name that exists outside: the loop's own frame holds only what the body
	// creates, and is empty again at every pass
	for _, it := range []string{"[1, 2, 3]", "\"abc\"", "{\"a\": 1}"} {
		for _, body := range []string{"if c == nil {\n    cnt = cnt + 1\n  }\n  c = x", "p(c, d)\n  c = 1", "p(c)\n  c = x\n  d = x", "if x == 1 {\n    continue\n  }\n  p(c)\n  c = x", "p(c)\n  c = x\n  if true {\n    break\n  }"} {
			emitCtl("x = 0\ncnt = 0\nfor x in "+it+" {\n  "+body+"\n}\np(\"after\", x, cnt, c, d)\n", "forin-outer-variable")
			emitCtl("cnt = 0\nfor y in "+it+" {\n  "+strings.ReplaceAll(body, "x", "y")+"\n}\np(\"after\", y, cnt, c, d)\n", "forin-outer-variable")
		}
	}
	for i := 0; i < N; i++ {
		g := newPG(rng)
		g.allowBuilt = false
		if i%2 == 0 {
			g.locals = []string{"u", "v", "w"}
		}
		g.maxDepth = 2 + rng.Intn(2)
		src := g.program(1 + rng.Intn(4))
		out := runV1(runCase{Scripts: []scriptSrc{{"main.p", src}}, Entry: "main.p", Point: stdPoint(rng), HasSig: true, SigK: 3000})
		out["gen"] = "ctl-prog"
		out["key"] = src
		out["strict"] = true
		if obs, ok := out["obs"].(map[string]any); ok {
			e.stat("ctl-prog:" + obs["outcome"].(string))
		}
		e.emit(out)
	}
}
