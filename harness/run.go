package main

import (
	"fmt"
	"runtime/debug"
	"sort"
	"strings"
	"sync"
	"time"

	"github.com/GuanceCloud/platypus/pkg/ast"
	"github.com/GuanceCloud/platypus/pkg/engine"
	plruntime "github.com/GuanceCloud/platypus/pkg/engine/runtime"
	"github.com/GuanceCloud/platypus/pkg/errchain"
	"github.com/GuanceCloud/platypus/pkg/inimpl/guancecloud/funcs"
	"github.com/GuanceCloud/platypus/pkg/inimpl/guancecloud/input"
	"github.com/GuanceCloud/platypus/pkg/parser"
	"go.uber.org/zap"
)

func init() {
	funcs.InitLog(zap.NewNop().Sugar())
	parser.InitLog(zap.NewNop().Sugar())
}

// ---- probes, supplied through the public function tables ----

type probeRec struct {
	events [][]string
}

// recorders are keyed by the run's input point (shared by a caller and the scripts it reaches
// through use(), private to each run), so concurrent runs record separately
var probeRecs sync.Map

func probeFn(name string) plruntime.FuncCall {
	return func(ctx *plruntime.Task, fn *ast.CallExpr) *errchain.PlError {
		type tv struct {
			v any
			t ast.DType
		}
		vals := []tv{}
		for _, p := range fn.Param {
			v, t, err := plruntime.RunStmt(ctx, p)
			if err != nil {
				return err
			}
			vals = append(vals, tv{v, t})
		}
		ev := []string{name}
		for _, x := range vals {
			ev = append(ev, x.t.String()+"="+render(x.v))
		}
		if r, ok := probeRecs.Load(ctx.InData()); ok {
			rec := r.(*probeRec)
			rec.events = append(rec.events, ev)
		}
		if name == "pr" && len(vals) > 0 {
			ctx.Regs.ReturnAppend(vals[0].v, vals[0].t)
		}
		return nil
	}
}

func okCheck(ctx *plruntime.Task, fn *ast.CallExpr) *errchain.PlError { return nil }

func fnTables() (map[string]plruntime.FuncCall, map[string]plruntime.FuncCheck) {
	call := map[string]plruntime.FuncCall{}
	check := map[string]plruntime.FuncCheck{}
	for k, v := range funcs.FuncsMap {
		call[k] = v
	}
	for k, v := range funcs.FuncsCheckMap {
		check[k] = v
	}
	for _, n := range []string{"p", "pr", "void"} {
		call[n] = probeFn(n)
		check[n] = okCheck
	}
	return call, check
}

func fnNames() []string {
	call, _ := fnTables()
	r := []string{}
	for k := range call {
		r = append(r, hx(k))
	}
	sort.Strings(r)
	return r
}

// ---- signal ----

type sig struct{ n, k int }

func (s *sig) ExitSignal() bool {
	s.n++
	return s.k > 0 && s.n >= s.k
}

// the same signal behind Go values of other kinds: a host may implement Signal with a function
// type or a struct passed by value (the counter is shared through the pointer inside)
type sigFunc func() bool

func (f sigFunc) ExitSignal() bool { return f() }

type sigValue struct{ s *sig }

func (v sigValue) ExitSignal() bool { return v.s.ExitSignal() }

// ---- points ----

type fieldSpec struct {
	K string // key
	T string // nil|bool|int|float|str
	V string // decimal / bits / hex
}

type pointSpec struct {
	Meas   string
	Tags   [][2]string
	Fields []fieldSpec
	Time   int64 // nanoseconds; zeroTimeNanos stands for the zero time.Time (a point without a timestamp)
}

// UnixNano of the zero time.Time
var zeroTimeNanos = time.Time{}.UnixNano()

func (ps pointSpec) when() time.Time {
	if ps.Time == zeroTimeNanos {
		return time.Time{}
	}
	return time.Unix(0, ps.Time)
}

func (ps pointSpec) json() map[string]any {
	tags := [][]string{}
	for _, t := range ps.Tags {
		tags = append(tags, []string{hx(t[0]), hx(t[1])})
	}
	fs := []any{}
	for _, f := range ps.Fields {
		if f.T == "bytes" {
			// a field of a Go type the language does not have: the point keeps it, scripts cannot see it
			// (no key record) - for the model the key does not exist
			continue
		}
		fs = append(fs, []string{hx(f.K), renderField(f)})
	}
	foreign := []any{}
	for _, f := range ps.Fields {
		if f.T == "bytes" {
			foreign = append(foreign, []string{hx(f.K), hx(f.V)})
		}
	}
	gotypes := []any{}
	for _, f := range ps.Fields {
		if strings.HasPrefix(f.T, "go-") {
			gotypes = append(gotypes, []string{hx(f.K), f.T, f.V})
		}
	}
	return map[string]any{"m": hx(ps.Meas), "tags": tags, "fields": fs, "time": ps.Time, "foreign": foreign, "gotypes": gotypes}
}

func fieldVal(f fieldSpec) any {
	switch f.T {
	case "nil":
		return nil
	case "bool":
		return f.V == "true"
	case "int":
		var i int64
		fmt.Sscan(f.V, &i)
		return i
	case "float":
		var u uint64
		fmt.Sscan(f.V, &u)
		return bitsFloat(u)
	case "bytes":
		return []byte(f.V)
	// fields of Go's other numeric types: InitPt converts them to the language's int / float
	case "go-int32":
		var i int64
		fmt.Sscan(f.V, &i)
		return int32(i)
	case "go-int":
		var i int64
		fmt.Sscan(f.V, &i)
		return int(i)
	case "go-uint8":
		var i uint64
		fmt.Sscan(f.V, &i)
		return uint8(i)
	case "go-uint64":
		var i uint64
		fmt.Sscan(f.V, &i)
		return i
	case "go-float32":
		var x float64
		fmt.Sscan(f.V, &x)
		return float32(x)
	default:
		return f.V
	}
}

// the value as the language sees it (the model's input): Go's other numeric types become int64 / float64
func renderField(f fieldSpec) string {
	switch v := fieldVal(f).(type) {
	case int32:
		return render(int64(v))
	case int:
		return render(int64(v))
	case uint8:
		return render(int64(v))
	case uint64:
		return render(int64(v))
	case float32:
		return render(float64(v))
	default:
		return render(v)
	}
}

func (ps pointSpec) build() *input.Point {
	tags := map[string]string{}
	for _, t := range ps.Tags {
		tags[t[0]] = t[1]
	}
	fields := map[string]any{}
	for _, f := range ps.Fields {
		fields[f.K] = fieldVal(f)
	}
	pt := input.GetPoint()
	return input.InitPt(pt, ps.Meas, tags, fields, ps.when())
}

// (round 11) every third run of a worker process works on a point object the host owns and initialises
// again without ever handing it to the pool: InitPt alone makes a point describe its input
var hostPoint *input.Point
var heldBuilds int

func (ps pointSpec) buildHeld() *input.Point {
	heldBuilds++
	if heldBuilds%3 != 0 {
		return ps.build()
	}
	tags := map[string]string{}
	for _, t := range ps.Tags {
		tags[t[0]] = t[1]
	}
	fields := map[string]any{}
	for _, f := range ps.Fields {
		fields[f.K] = fieldVal(f)
	}
	if hostPoint == nil {
		hostPoint = &input.Point{}
	}
	return input.InitPt(hostPoint, ps.Meas, tags, fields, ps.when())
}

func dumpPoint(pt *input.Point) map[string]any {
	tags := [][]string{}
	for k, v := range pt.Tags {
		tags = append(tags, []string{hx(k), hx(v)})
	}
	sort.Slice(tags, func(i, j int) bool { return tags[i][0] < tags[j][0] })
	fs := [][]string{}
	for k, v := range pt.Fields {
		if _, foreign := v.([]byte); foreign {
			continue // an input field of a Go type the language does not have: invisible to the script, not judged
		}
		fs = append(fs, []string{hx(k), render(v)})
	}
	sort.Slice(fs, func(i, j int) bool { return fs[i][0] < fs[j][0] })
	meta := [][]string{}
	for k, m := range pt.Meta {
		fl := "field"
		if m.PtFlag == input.PtTag {
			fl = "tag"
		} else if m.PtFlag != input.PtField {
			fl = fmt.Sprintf("flag%d", m.PtFlag)
		}
		meta = append(meta, []string{hx(k), m.DType.String(), fl})
	}
	sort.Slice(meta, func(i, j int) bool { return meta[i][0] < meta[j][0] })
	return map[string]any{"m": hx(pt.Measurement), "tags": tags, "fields": fs, "meta": meta,
		"time": pt.Time.UnixNano(), "drop": pt.Drop}
}

func dumpErr(e *errchain.PlError) map[string]any {
	chain := []any{}
	for _, p := range e.PosChain {
		chain = append(chain, []any{hx(p.File), p.Pos, p.Ln, p.Col})
	}
	return map[string]any{"chain": chain, "msg": e.Err, "msgx": hx(e.Err), "text": hx(e.Error())}
}

// ---- one run case ----

type scriptSrc struct {
	Name string
	Src  string
}

type runCase struct {
	Scripts []scriptSrc
	Entry   string
	Point   pointSpec
	SigK    int  // 0 = never fires
	HasSig  bool // false = nil signal
	Recheck bool `json:",omitempty"` // validate every loaded script once more before running (validation must not undo the linking)
	Held    int  `json:",omitempty"` // in a history: 1-based index of an earlier operation whose loaded scripts are run again (0 = load now)
}

// the scripts an operation loaded, kept by the host for later runs
type loadedSet struct {
	oks      map[string]*plruntime.Script
	loadErrs map[string]any
}

func sortedNames(m map[string]string) []string {
	r := []string{}
	for k := range m {
		r = append(r, k)
	}
	sort.Strings(r)
	return r
}

// runV1 loads the scripts with the real loader and runs the entry script on the point.
func caseHeader(rc runCase) map[string]any {
	in := []any{}
	for _, s := range rc.Scripts {
		in = append(in, map[string]any{"name": hx(s.Name), "src": hx(s.Src)})
	}
	return map[string]any{"k": "run", "scripts": in, "entry": hx(rc.Entry), "point": rc.Point.json(),
		"sigk": rc.SigK, "hassig": rc.HasSig, "held": rc.Held, "recheck": rc.Recheck}
}

func runV1Direct(rc runCase) map[string]any {
	m, _ := runV1With(rc, nil)
	return m
}

// runV1With loads the scripts (or takes the set `held`, loaded by an earlier operation of the same
// history and kept since) and runs the entry script once
func runV1With(rc runCase, held *loadedSet) (map[string]any, *loadedSet) {
	srcs := map[string]string{}
	for _, s := range rc.Scripts {
		srcs[s.Name] = s.Src
	}
	res := caseHeader(rc)
	var oks map[string]*plruntime.Script
	loadErrs := map[string]any{}
	if held != nil {
		oks, loadErrs = held.oks, held.loadErrs
	} else {
		call, check := fnTables()
		var errs map[string]error
		oks, errs = engine.ParseScript(srcs, call, check)
		for name, e := range errs {
			var le map[string]any
			if pe, ok := e.(*errchain.PlError); ok {
				le = dumpErr(pe)
			} else {
				le = map[string]any{"chain": []any{}, "msg": e.Error()}
			}
			// which stage rejected it: the parser alone on the same text (same pooled parser objects)
			if _, perr := parser.ParsePipeline(name, srcs[name]); perr != nil {
				le["stage"] = "parse"
			} else {
				le["stage"] = "check-or-link"
			}
			loadErrs[hx(name)] = le
		}
	}
	if rc.Recheck && held == nil {
		_, check := fnTables()
		for name, sc := range oks {
			if cerr := sc.Check(check); cerr != nil {
				le := dumpErr(cerr)
				le["stage"] = "checked-again"
				loadErrs[hx(name)] = le
			}
		}
	}
	set := &loadedSet{oks: oks, loadErrs: loadErrs}
	res["loaderrs"] = loadErrs
	d := newDumper()
	asts := map[string]any{}
	names := []string{}
	for n := range oks {
		names = append(names, n)
	}
	sort.Strings(names)
	for _, n := range names {
		asts[hx(n)] = d.nodes(oks[n].Ast)
	}
	res["asts"] = asts
	res["fns"] = fnNames()
	s, ok := oks[rc.Entry]
	if !ok {
		res["obs"] = map[string]any{"outcome": "notloaded"}
		return res, set
	}
	pt := rc.Point.buildHeld()
	rec := &probeRec{events: [][]string{}}
	probeRecs.Store(any(pt), rec)
	obs := map[string]any{}
	func() {
		defer func() {
			if r := recover(); r != nil {
				obs["outcome"] = "panic"
				obs["panic"] = fmt.Sprint(r)
				obs["stack"] = string(debug.Stack())
			}
		}()
		var sg plruntime.Signal
		var sgp *sig
		if rc.HasSig {
			sgp = &sig{k: rc.SigK}
			sg = sgp
			// (which Go kind carries the signal is no business of the script: it rotates with the case)
			switch (len(rc.Entry) + len(rc.Scripts[0].Src) + rc.SigK) % 3 {
			case 1:
				sg = sigFunc(sgp.ExitSignal)
			case 2:
				sg = sigValue{sgp}
			}
		}
		err := s.Run(pt, sg)
		if err != nil {
			obs["outcome"] = "err"
			obs["err"] = dumpErr(err)
		} else {
			obs["outcome"] = "ok"
		}
		if sgp != nil {
			obs["polls"] = sgp.n
		}
	}()
	probeRecs.Delete(any(pt))
	obs["point"] = dumpPoint(pt)
	obs["trace"] = rec.events
	obs["stdout"] = hx(takeStdout())
	res["obs"] = obs
	if pt != hostPoint {
		input.PutPoint(pt)
	}
	return res, set
}
