package main

import (
	"encoding/json"
	"fmt"
	"math/rand"
	"os"
	"runtime"
	"sort"
	"sync"
	"time"

	"github.com/GuanceCloud/platypus/pkg/engine"
	plruntime "github.com/GuanceCloud/platypus/pkg/engine/runtime"
	"github.com/GuanceCloud/platypus/pkg/inimpl/guancecloud/input"
	"github.com/GuanceCloud/platypus/pkg/parser"
)

func init() {
	gens["C16"] = genC16
	workerKinds["conc"] = func(raw json.RawMessage) map[string]any {
		var rs concSpec
		json.Unmarshal(raw, &rs)
		return concDirect(rs)
	}
}

type concSpec struct {
	Scripts    []scriptSrc // loaded once, shared by all goroutines
	Entries    []string    // scripts the goroutines run
	ParseSrcs  []string    // sources parsed concurrently
	Goroutines int
	OpsEach    int
	Seed       int64
	Points     []pointSpec
}

// concDirect: one round. All goroutines share the loaded scripts; every run has a private point.
func concDirect(cs concSpec) map[string]any {
	runtime.GOMAXPROCS(16)
	srcs := map[string]string{}
	for _, s := range cs.Scripts {
		srcs[s.Name] = s.Src
	}
	call, check := fnTables()
	oks, errs := engine.ParseScript(srcs, call, check)
	loadErrs := map[string]any{}
	for n, e := range errs {
		loadErrs[hx(n)] = errJSON(e)
	}
	d := newDumper()
	asts := map[string]any{}
	names := []string{}
	for n := range oks {
		names = append(names, n)
	}
	sort.Strings(names)
	for _, n := range names {
		asts[hx(n)] = d.nodes(oks[n].Ast)
	}
	type opRes struct {
		g, i  int
		entry string
		pt    int
		obs   map[string]any
	}
	var mu sync.Mutex
	results := []opRes{}
	parseFails := 0
	parses := []any{}
	var wg sync.WaitGroup
	start := make(chan struct{})
	for g := 0; g < cs.Goroutines; g++ {
		wg.Add(1)
		go func(g int) {
			defer wg.Done()
			rng := rand.New(rand.NewSource(cs.Seed + int64(g)*7919))
			<-start
			// randomised start offset
			for k := rng.Intn(50); k > 0; k-- {
				runtime.Gosched()
			}
			if rng.Intn(3) == 0 {
				time.Sleep(time.Duration(rng.Intn(200)) * time.Microsecond)
			}
			for i := 0; i < cs.OpsEach; i++ {
				if rng.Intn(8) == 0 {
					// (round 8) a concurrent load of an unrelated script set whose scripts use() each other: judged
					// like a solo load; the loaded scripts running meanwhile (use() nested two deep) are not disturbed
					lo := loadDirect(loadCase{Scripts: []scriptSrc{{"x.p", "use(\"y.p\")\nadd_key(fromx, 1)\n"}, {"y.p", "add_key(fromy, 1)\nuse(\"z.p\")\n"}, {"z.p", "add_key(fromz, 1)\n"}}, Order: []string{"x.p", "y.p", "z.p"}, Reps: 1})
					lo["id"] = fmt.Sprintf("g%d.%d", g, i)
					mu.Lock()
					parses = append(parses, lo)
					mu.Unlock()
					continue
				}
				if len(cs.ParseSrcs) > 0 && rng.Intn(3) == 0 {
					src := cs.ParseSrcs[rng.Intn(len(cs.ParseSrcs))]
					// a concurrent parse: its outcome (tree or rejection) is judged like a solo parse
					pr := map[string]any{"k": "parse", "src": hx(src), "want": nil, "id": fmt.Sprintf("g%d.%d", g, i)}
					func() {
						defer func() {
							if r := recover(); r != nil {
								pr["parse_death"] = "panic " + fmt.Sprint(r)
							}
						}()
						stmts, err := parser.ParsePipeline("p.p", src)
						pr["has_err"] = err != nil
						if err != nil {
							pr["msg"] = err.Error()
						}
						if stmts != nil {
							pr["ast"] = newDumper().nodes(stmts)
						}
					}()
					mu.Lock()
					if pr["has_err"] == true {
						parseFails++
					}
					parses = append(parses, pr)
					mu.Unlock()
					continue
				}
				entry := cs.Entries[rng.Intn(len(cs.Entries))]
				pi := rng.Intn(len(cs.Points))
				s, ok := oks[entry]
				if !ok {
					continue
				}
				pt := cs.Points[pi].build()
				rec := &probeRec{events: [][]string{}}
				probeRecs.Store(any(pt), rec)
				obs := map[string]any{}
				func() {
					defer func() {
						if r := recover(); r != nil {
							obs["outcome"] = "panic"
							obs["panic"] = fmt.Sprint(r)
						}
					}()
					var sg plruntime.Signal = &sig{k: 0}
					if err := s.Run(pt, sg); err != nil {
						obs["outcome"] = "err"
						obs["err"] = dumpErr(err)
					} else {
						obs["outcome"] = "ok"
					}
					obs["polls"] = sg.(*sig).n
				}()
				probeRecs.Delete(any(pt))
				obs["point"] = dumpPoint(pt)
				obs["trace"] = rec.events
				obs["stdout"] = ""
				input.PutPoint(pt)
				mu.Lock()
				results = append(results, opRes{g, i, entry, pi, obs})
				mu.Unlock()
			}
		}(g)
	}
	close(start)
	wg.Wait()
	ops := []any{}
	scriptsJ := []any{}
	for _, s := range cs.Scripts {
		scriptsJ = append(scriptsJ, map[string]any{"name": hx(s.Name), "src": hx(s.Src)})
	}
	for _, r := range results {
		ops = append(ops, map[string]any{"k": "run", "scripts": scriptsJ, "entry": hx(r.entry), "point": cs.Points[r.pt].json(),
			"sigk": 0, "hassig": true, "loaderrs": loadErrs, "asts": asts, "fns": fnNames(), "obs": r.obs, "strict": true,
			"id": fmt.Sprintf("g%d.%d", r.g, r.i)})
	}
	ops = append(ops, parses...)
	return map[string]any{"k": "hist", "ops": ops, "goroutines": cs.Goroutines}
}

func genC16(e *emitter, tier string, seed int64) {
	rng := rand.New(rand.NewSource(seed))
	scripts := []scriptSrc{
		{"grok.p", "add_pattern(\"W\", \"\\\\w+\")\nif true {\n  add_pattern(\"N\", \"\\\\d+\")\n  grok(_, \"%{W:w} %{N:n:int}\")\n}\np(get_key(w), get_key(n))\n"},
		{"use.p", "v = [1, 2]\nuse(\"lib.p\")\nuse(\"grok.p\")\nv[0] = get_key(fromlib)\np(v)\n"},
		{"deep.p", "use(\"use.p\")\np(\"deep\", get_key(fromlib))\n"},
		{"lib.p", "add_key(fromlib, len(message))\nfor i = 0; i < 3; i = i + 1 {\n  add_key(cnt, i)\n}\n"},
		{"misc.p", "m = {\"a\": [1, 2, 3]}\nfor x in m[\"a\"] {\n  add_key(last, x)\n}\nrename(mm, message)\nset_tag(tg, \"t\")\ncast(f1, \"str\")\nl = [3, 2, 1]\np(l[::-1], \"é\"[0:1])\ndefault_time(ts)\nreplace(url, \"[0-9]+\", \"N\")\n"},
		{"err.p", "z = 0\nadd_key(before, 1)\nx = 1 / z\n"},
		// engines with internal state (the SQL obfuscator adapts to what it has seen): every run as if alone
		{"sql.p", "sql_cover(message)\np(get_key(message))\nurl_decode(url)\n"},
		{"fmtlist.p", "j = load_json(\"[1, [2, 3], {\\\"a\\\": [4]}]\")\nstrfmt(out, \"%v|%v\", j, [message, j])\np(get_key(out))\n"},
		{"xmlgroup.p", "xml(xdoc, \"(//b)[1]\", out)\nxml(xdoc, \"(//b)[last()]\", out2)\np(get_key(out), get_key(out2))\n"},
		// a value decoded from a literal belongs to the run that decoded it
		{"jsonlit.p", "t = load_json(\"{\\\"a\\\": [1, 2], \\\"n\\\": 0}\")\nt[\"a\"][0] += 1\nt[\"n\"] = t[\"n\"] + len(message)\nl = [1, 2]\nl[0] += 1\np(t, l)\n"},
		// a run that fails inside a block, and a run that reads names before assigning them: a recycled task
		// starts empty whatever the previous run left behind
		{"errblk.p", "seen = message\ncarry2 = 1\nif true {\n  for x in [1] {\n    n = 1 / nosuchvar\n  }\n}\n"},
		{"reader.p", "p(\"r\", seen, carry2, x, n)\nadd_key(carry, seen)\nseen = message\n"},
		// one grok text under two different local definitions of the pattern it names
		{"code1.p", "add_pattern(\"code\", \"\\\\d+\")\ngrok(_, \"%{WORD:w} %{code:c}\")\np(get_key(w), get_key(c))\n"},
		{"code2.p", "add_pattern(\"code\", \"[a-z]+\")\nif true {\n  grok(_, \"%{WORD:w} %{code:c}\")\n}\np(get_key(w), get_key(c))\n"},
		{"code3.p", "if true {\n  add_pattern(\"code\", \"4\")\n  grok(_, \"%{WORD:w} %{code:c}\")\n}\nadd_pattern(\"code\", \".+\")\ngrok(_, \"%{WORD:w} %{code:c}\")\np(get_key(w), get_key(c))\n"},
	}
	entries := []string{"grok.p", "use.p", "deep.p", "deep.p", "lib.p", "misc.p", "err.p", "sql.p", "sql.p", "code1.p", "code2.p", "code3.p", "errblk.p", "reader.p", "reader.p", "jsonlit.p", "jsonlit.p", "xmlgroup.p", "xmlgroup.p", "fmtlist.p", "fmtlist.p"}
	parseSrcs := []string{"a = 1\nif a {\n  b = [1, 2]\n}\n", "x = \"str\" # c\nfor i = 0; i < 3; i = i + 1 {\n}\n", "broken ( [", "'''multi\nline'''\n", "f(a = 1, 2 +)", "use(\"q.p\")\n",
		"x = (1 + [2", "y = f(1))\n", "}\n", "a = [1, 2]]\n", "m = {\"k\": (1\n", "z = a[1\n", "if x {\n  y = 1\n", "f(g(h(1, [2, {\"a\": 3}])))\n", "v = (1 + 2) * [3][0]\n"}
	points := []pointSpec{
		{Meas: "m", Time: 1600000000000000000, Fields: []fieldSpec{{"message", "str", "hello 42"}, {"f1", "int", "7"}, {"ts", "str", "2021-03-15T00:08:10Z"}, {"url", "str", "/a/123/b/45"}}, Tags: [][2]string{{"t1", "tv"}}},
		{Meas: "o", Time: 5, Fields: []fieldSpec{{"message", "str", "x"}, {"f1", "float", "4609434218613702656"}}},
		{Meas: "o", Time: 5, Fields: []fieldSpec{{"message", "str", "abc 7"}, {"ts", "str", "junk"}}},
		{Meas: "o", Time: 9, Fields: []fieldSpec{{"message", "str", "abc def"}, {"xdoc", "str", "<a><b>one</b><b>two</b></a>"}}},
		{Meas: "o", Time: 10, Fields: []fieldSpec{{"message", "str", "zz 1"}, {"xdoc", "str", "<a><b>uno</b></a>"}}},
		{Meas: "q", Time: 6, Fields: []fieldSpec{{"message", "str", "select * from t where a = 'C:\\' AND b = 'z'"}}},
		{Meas: "q", Time: 7, Fields: []fieldSpec{{"message", "str", "select * from t where a = 'x\\' OR b = ' OR 1=1 -- \\' "}}},
		{Meas: "q", Time: 8, Fields: []fieldSpec{{"message", "str", "select * from t where n = 'it\\'s'"}}},
	}
	rounds := 40
	if tier == "thorough" {
		rounds = 1500
	}
	// zones named for the first time in a round (whatever the process remembers about zones is first
	// touched while other goroutines are running)
	zones := []string{"Asia/Tokyo", "+5:45", "America/St_Johns", "Europe/Vatican", "-9:30", "Pacific/Chatham", "+13", "Asia/Kabul", "CST", "Australia/Eucla", "-2", "Africa/Cairo", "+6:30",
		"America/Noronha", "Asia/Almaty", "+14", "Europe/Kiev", "-11", "Indian/Maldives", "+10:30", "Mars/Phobos", "Asia/Dubai", "-7", "Atlantic/Azores", "+3:30", "Pacific/Apia", "UTC", "+12:45",
		"America/Lima", "Asia/Seoul", "-4", "Europe/Oslo", "+9:30", "Africa/Lagos", "-3:30", "Asia/Dhaka", "+2", "America/Bogota", "Asia/Manila", "-6"}
	for r := 0; r < rounds; r++ {
		g := []int{2, 3, 4, 8, 16}[rng.Intn(5)]
		rs := append(append([]scriptSrc{}, scripts...),
			scriptSrc{"tz1.p", fmt.Sprintf("default_time(ts, %q)\np(get_key(ts))\n", zones[(2*r)%len(zones)])},
			scriptSrc{"tz2.p", fmt.Sprintf("add_key(t2, \"171113 14:14:20\")\ndefault_time(t2, %q)\nrename(t3, t2)\nrename(m9, message)\np(get_key(t3), get_key(m9), get_key(pl_msg))\n", zones[(2*r+1)%len(zones)])})
		// (round 7) keywords in spellings no parse of this process has met before: whatever the lexer remembers
		// about a spelling is first touched while other goroutines are parsing
		mixCase := func(t string) string {
			b := []byte(t)
			for i, c := range b {
				if c >= 'A' && c <= 'Z' && rng.Intn(2) == 0 {
					b[i] = c + 32
				}
			}
			return string(b)
		}
		roundSrcs := append(append([]string{}, parseSrcs...),
			mixCase("IF TRUE {\n  x = NIL\n} ELIF FALSE {\n  y = 1\n} ELSE {\n  z = 2\n}\n"),
			mixCase("FOR i IN [1, 2] {\n  IF i == 1 {\n    CONTINUE\n  }\n  BREAK\n}\n"),
			mixCase("q = TRUE && FALSE || NIL == NIL\nFOR ;; {\n  BREAK\n}\n"))
		cs := concSpec{Scripts: rs, Entries: append(append([]string{}, entries...), "tz1.p", "tz2.p", "tz1.p", "tz2.p"), ParseSrcs: roundSrcs, Goroutines: g, OpsEach: 4 + rng.Intn(8), Seed: rng.Int63(), Points: points}
		raw, _ := json.Marshal(cs)
		var out map[string]any
		if inWorker {
			out = concDirect(cs)
		} else {
			m, death := callWorker(workerReq{Kind: "conc", Raw: raw})
			if death != "" {
				out = map[string]any{"k": "hist", "ops": []any{}, "death": death}
				if m != nil {
					out["stderr"] = m["stderr"]
				}
			} else {
				out = m
			}
		}
		out["gen"] = fmt.Sprintf("round-g%d", g)
		out["key"] = fmt.Sprintf("round %d goroutines %d", r, g)
		e.stat(fmt.Sprintf("goroutines=%d", g))
		e.emit(out)
	}
	// race reports written by the race-enabled worker (GORACE log_path) are collected by bin/check
	_ = os.Getenv
}
