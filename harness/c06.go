package main

import (
	"encoding/json"
	"math/rand"
	"strings"

	"github.com/GuanceCloud/platypus/pkg/parser"
)

// C06: trees -> text (only the parentheses the tree holds; every admissible layout) -> real parser.

func init() {
	gens["C06"] = genC06
	replayers["parse"] = func(e *emitter, c map[string]any) {
		parseCase(e, unhx(c["src"]), c["want"], "replay", "")
	}
	workerKinds["parsetree"] = func(raw json.RawMessage) map[string]any {
		var hsrc string
		json.Unmarshal(raw, &hsrc)
		return parseTreeDirect(unhx(hsrc))
	}
}

func parseTreeDirect(src string) map[string]any {
	res := map[string]any{}
	stmts, err := parser.ParsePipeline("t.p", src)
	res["has_err"] = err != nil
	if err != nil {
		res["msg"] = err.Error()
	}
	if stmts != nil {
		res["ast"] = newDumper().nodes(stmts)
	}
	return res
}

func parseTreeV1(src string) map[string]any {
	if inWorker {
		return parseTreeDirect(src)
	}
	raw, _ := json.Marshal(hx(src))
	m, death := callWorker(workerReq{Kind: "parsetree", Raw: raw})
	if death == "" {
		return m
	}
	return map[string]any{"parse_death": death}
}

// parseCase: the real parser's tree for src next to the tree the text was printed from
func parseCase(e *emitter, src string, want any, gen, layout string) {
	out := map[string]any{"k": "parse", "src": hx(src), "want": want, "gen": gen, "layout": layout}
	for k, v := range parseTreeV1(src) {
		out[k] = v
	}
	e.stat(gen + "/" + layout)
	e.emit(out)
}

type T = map[string]any

// ---- tree generator (trees the grammar can produce: children below the operator's level sit in paren nodes) ----

type tg struct {
	rng *rand.Rand
}

var binLevels = map[string]int{"or": 1, "and": 2, "in": 3, "ge": 4, "gt": 4, "ne": 4, "eq": 4, "le": 4, "lt": 4, "add": 5, "sub": 5, "mul": 6, "div": 6, "mod": 6}
var binText = map[string]string{"or": "||", "and": "&&", "in": "in", "ge": ">=", "gt": ">", "ne": "!=", "eq": "==", "le": "<=", "lt": "<", "add": "+", "sub": "-", "mul": "*", "div": "/", "mod": "%"}
var binNames = []string{"or", "and", "in", "ge", "gt", "ne", "eq", "le", "lt", "add", "sub", "mul", "div", "mod"}
var asgText = map[string]string{"eq": "=", "addEq": "+=", "subEq": "-=", "mulEq": "*=", "divEq": "/=", "modEq": "%="}

func (g *tg) pick(xs []string) string { return xs[g.rng.Intn(len(xs))] }

func (g *tg) ident() T {
	if g.rng.Intn(8) == 0 {
		return T{"t": "ident", "q": true, "v": hx(g.pick([]string{"`q`", "`a b`", "`é`", "`if`", "`two\nlines`", "`\nx`"}))}
	}
	if g.rng.Intn(6) == 0 {
		// names that begin with (or contain) a keyword: one token, never the keyword plus a rest
		return T{"t": "ident", "q": false, "v": hx(g.pick([]string{"elsewhere", "elif_seen", "else_count", "iffy", "forx", "inx", "in_", "nil0", "true1", "falsey", "breaks", "continue2", "null_", "Else1", "xif", "a_in"}))}
	}
	return T{"t": "ident", "q": false, "v": hx(g.pick([]string{"a", "b", "c", "x1", "_y", "abc", "k"}))}
}

func (g *tg) num(allowNeg bool) T {
	v := g.pick([]string{"0", "1", "2", "7", "42", "0x1f", "017", "9223372036854775807", "1.5", "2e3", "0.0", "10.25", "9223372036854775808", "inf", "NaN", "INF"})
	return T{"t": "num", "neg": allowNeg && g.rng.Intn(4) == 0, "v": hx(v)}
}

func (g *tg) str() T {
	if g.rng.Intn(6) == 0 {
		return T{"t": "str", "m": true, "v": hx(g.pick([]string{"'''m'''", "\"\"\"two\nlines\"\"\"", "''''''"}))}
	}
	return T{"t": "str", "m": false, "v": hx(g.pick([]string{`"s"`, `'s'`, `""`, `"a b"`, `"a\nb"`, `'it\'s'`, `"# no comment"`, `"é"`}))}
}

func (g *tg) literal(allowNeg bool) T {
	switch g.rng.Intn(6) {
	case 0, 1:
		return g.num(allowNeg)
	case 2, 3:
		return g.str()
	case 4:
		return T{"t": "bool", "b": g.rng.Intn(2) == 0}
	}
	return T{"t": "nil"}
}

func (g *tg) exprs(d, n int) []any {
	r := []any{}
	for i := 0; i < n; i++ {
		r = append(r, g.expr(d, 1))
	}
	return r
}

func isLit(t T, kinds ...string) bool {
	for _, k := range kinds {
		if t["t"] == k {
			return true
		}
	}
	return false
}

func isFloatSpelling(v string) bool {
	return strings.ContainsAny(v, ".e") && !strings.HasPrefix(v, "0x") || v == "9223372036854775808"
}

// bound: a slice bound (not a float, string or list literal)
func (g *tg) bound(d int) any {
	if g.rng.Intn(3) == 0 {
		return nil
	}
	for {
		e := g.expr(d, 1)
		if isLit(e, "str", "list") {
			continue
		}
		if e["t"] == "num" && isFloatSpelling(unhx(e["v"])) {
			continue
		}
		return e
	}
}

func (g *tg) sliceOf(d int, obj T) T {
	c2 := g.rng.Intn(2) == 0
	s := T{"t": "slice", "obj": obj, "a": g.bound(d), "b": g.bound(d), "c": nil, "c2": c2}
	if c2 {
		s["c"] = g.bound(d)
	}
	return s
}

func (g *tg) indexChain(d int, obj any) T {
	n := 1 + g.rng.Intn(2)
	return T{"t": "index", "obj": obj, "idx": g.exprs(d, n)}
}

func (g *tg) attrY(d int) T {
	switch g.rng.Intn(5) {
	case 0:
		id := g.ident()
		return g.indexChain(d, T{"q": id["q"], "v": id["v"]})
	case 1:
		return g.indexChain(d, nil) // a..[i]
	}
	return g.ident()
}

func (g *tg) call(d int) T {
	id := g.ident()
	n := g.rng.Intn(4)
	args := []any{}
	for i := 0; i < n; i++ {
		if g.rng.Intn(4) == 0 {
			args = append(args, T{"t": "assign", "op": "eq", "lhs": []any{g.ident()}, "rhs": []any{g.expr(d, 1)}})
		} else {
			args = append(args, g.expr(d, 1))
		}
	}
	return T{"t": "call", "q": id["q"], "n": id["v"], "args": args}
}

// primary: level-8 expressions
func (g *tg) primary(d int) T {
	if d <= 0 {
		if g.rng.Intn(2) == 0 {
			return g.ident()
		}
		return g.literal(false)
	}
	d--
	switch g.rng.Intn(14) {
	case 0, 1:
		return g.ident()
	case 2:
		return g.literal(false)
	case 3:
		return T{"t": "paren", "e": g.expr(d, 1)}
	case 4:
		return T{"t": "list", "xs": g.exprs(d, g.rng.Intn(4))}
	case 5:
		kvs := []any{}
		for i := g.rng.Intn(3); i > 0; i-- {
			kvs = append(kvs, []any{g.expr(d, 1), g.expr(d, 1)})
		}
		return T{"t": "map", "kvs": kvs}
	case 6:
		return g.call(d)
	case 7:
		id := g.ident()
		return g.indexChain(d, T{"q": id["q"], "v": id["v"]})
	case 8:
		return g.indexChain(d, nil)
	case 9: // attribute chain
		var obj T
		switch g.rng.Intn(3) {
		case 0:
			obj = g.ident()
		case 1:
			id := g.ident()
			obj = g.indexChain(d, T{"q": id["q"], "v": id["v"]})
		default:
			obj = g.indexChain(d, nil)
		}
		for i := 1 + g.rng.Intn(3); i > 0; i-- {
			obj = T{"t": "attr", "obj": obj, "attr": g.attrY(d)}
		}
		return obj
	default: // slice on an identifier, a literal, a list, a call or a slice (the 24 forms)
		var obj T
		switch g.rng.Intn(6) {
		case 0, 1:
			obj = g.ident()
		case 2:
			obj = g.literal(false)
		case 3:
			obj = T{"t": "list", "xs": g.exprs(d, g.rng.Intn(3))}
		case 4:
			obj = g.call(d)
		default:
			obj = g.sliceOf(d, g.ident())
		}
		return g.sliceOf(d, obj)
	}
}

// expr: an expression of level >= min
func (g *tg) expr(d, min int) T {
	if d <= 0 {
		return g.primary(0)
	}
	switch r := g.rng.Intn(10); {
	case r < 5: // binary
		op := g.pick(binNames)
		p := binLevels[op]
		if p < min {
			return T{"t": "paren", "e": g.expr(d-1, 1)}
		}
		l := g.expr(d-1, p)
		var rr T
		for {
			rr = g.expr(d-1, p+1)
			if (op == "div" || op == "mod") && rr["t"] == "num" {
				v := unhx(rr["v"])
				if v == "0" || v == "0.0" {
					continue
				}
			}
			break
		}
		return T{"t": "bin", "op": op, "l": l, "r": rr}
	case r < 7: // unary, or a signed number
		if g.rng.Intn(3) == 0 {
			return g.num(true)
		}
		op := g.pick([]string{"pos", "neg", "not"})
		for {
			e := g.expr(d-1, 7)
			if op != "not" && e["t"] == "num" {
				continue // a sign on a number literal folds into it
			}
			return T{"t": "unary", "op": op, "e": e}
		}
	}
	return g.primary(d)
}

func (g *tg) block(d int) []any {
	r := []any{}
	for i := g.rng.Intn(3); i > 0; i-- {
		r = append(r, g.stmt(d))
	}
	return r
}

func (g *tg) simple(d int) T {
	switch g.rng.Intn(4) {
	case 0:
		n := 1 + g.rng.Intn(2)
		return T{"t": "assign", "op": "eq", "lhs": g.exprs(d, n), "rhs": g.exprs(d, 1+g.rng.Intn(2))}
	case 1:
		return T{"t": "assign", "op": g.pick([]string{"addEq", "subEq", "mulEq", "divEq", "modEq"}), "lhs": g.exprs(d, 1), "rhs": g.exprs(d, 1)}
	}
	return g.expr(d, 1)
}

func (g *tg) stmt(d int) T {
	if d <= 0 {
		return g.simple(1)
	}
	d--
	switch g.rng.Intn(10) {
	case 0, 1:
		ifs := []any{}
		for i := 1 + g.rng.Intn(3); i > 0; i-- {
			ifs = append(ifs, T{"c": g.expr(d, 1), "b": g.block(d)})
		}
		var els any
		if g.rng.Intn(2) == 0 {
			els = g.block(d)
		}
		return T{"t": "if", "ifs": ifs, "els": els}
	case 2, 3: // the 8 for shapes
		f := T{"t": "for", "init": nil, "c": nil, "loop": nil, "b": g.block(d)}
		if g.rng.Intn(2) == 0 {
			f["init"] = g.simple(d)
		}
		if g.rng.Intn(2) == 0 {
			f["c"] = g.expr(d, 1)
		}
		if g.rng.Intn(2) == 0 {
			f["loop"] = g.simple(d)
		}
		return f
	case 4:
		var it T
		for {
			it = g.expr(d, 4)
			if !isLit(it, "num", "bool", "nil") {
				break
			}
		}
		return T{"t": "forin", "var": g.ident(), "iter": it, "b": g.block(d)}
	case 5:
		return T{"t": g.pick([]string{"break", "continue"})}
	}
	return g.simple(d + 1)
}

// ---- printer ----

type pr struct {
	rng    *rand.Rand
	sb     strings.Builder
	last   byte
	layout string // canon | tight | eol | comment
}

func wordish(c byte) bool {
	return c == '_' || c == '"' || c == '\'' || c == '`' || c >= '0' && c <= '9' || c >= 'a' && c <= 'z' || c >= 'A' && c <= 'Z' || c >= 0x80 || c == '.'
}
func opish(c byte) bool { return strings.IndexByte("+-*/%=!<>&|", c) >= 0 }

func (p *pr) raw(s string) {
	if s == "" {
		return
	}
	p.sb.WriteString(s)
	p.last = s[len(s)-1]
}

// tok writes one token with the blank space the layout chooses before it
func (p *pr) tok(s string) {
	need := p.last != 0 && (wordish(p.last) && wordish(s[0]) || opish(p.last) && opish(s[0]))
	switch p.layout {
	case "tight":
		if need {
			p.raw(" ")
		}
	case "canon":
		if p.last != 0 && p.last != '\n' {
			p.raw(" ")
		}
	default:
		switch p.rng.Intn(6) {
		case 0:
			p.raw("  ")
		case 1:
			p.raw("\t")
		case 2, 3:
			p.raw(" ")
		default:
			if need {
				p.raw(" ")
			}
		}
	}
	p.raw(s)
}

// slot: a place where the grammar allows line ends (SPACE_EOLS)
func (p *pr) slot() {
	switch p.layout {
	case "eol", "comment":
		switch p.rng.Intn(8) {
		case 0:
			p.raw("\n")
		case 1:
			p.raw(" \n\t")
		case 2:
			p.raw("\n\n")
		case 3:
			if p.layout == "comment" {
				p.raw(" # c, (x] \"\n")
			} else {
				p.raw("\r\n")
			}
		case 4:
			if p.layout == "comment" {
				p.raw(p.pick([]string{"\n#\n  # two\n", " #\n", "#\n\n", "\t# \n"})) // incl. empty comments
			}
		}
	}
}

// sep: between statements
func (p *pr) sep() {
	switch p.layout {
	case "canon":
		p.raw("\n")
	case "tight":
		p.raw(";")
	default:
		p.raw(p.pick([]string{"\n", ";", "; ", "\n\n", ";\n", " ;;\n ", "\n;\n"}))
		if p.layout == "comment" && p.rng.Intn(3) == 0 {
			p.raw(p.pick([]string{"# between\n", "#\n", "#\n#\n"}))
		}
	}
}

func (p *pr) pick(xs []string) string { return xs[p.rng.Intn(len(xs))] }

func (p *pr) identTok(q any, v any) { p.tok(unhx(v)) }

func (p *pr) commaList(xs []any) {
	for i, x := range xs {
		if i > 0 {
			p.tok(",")
			p.slot()
		}
		p.expr(x.(T))
	}
}

func (p *pr) opt(x any) {
	if x != nil {
		p.expr(x.(T))
	}
}

func (p *pr) expr(t T) {
	switch t["t"] {
	case "ident":
		p.tok(unhx(t["v"]))
	case "num":
		if t["neg"] == true {
			p.tok("-")
		}
		p.tok(unhx(t["v"]))
	case "str":
		p.tok(unhx(t["v"]))
	case "bool":
		if t["b"] == true {
			p.tok(p.pick([]string{"true", "true", "TRUE", "True"}))
		} else {
			p.tok(p.pick([]string{"false", "false", "FALSE"}))
		}
	case "nil":
		p.tok(p.pick([]string{"nil", "null", "NULL", "nil"}))
	case "list":
		xs := t["xs"].([]any)
		p.tok("[")
		p.slot()
		for i, x := range xs {
			if i > 0 {
				p.tok(",")
				p.slot()
			}
			p.expr(x.(T))
			p.slot() // list_literal_start EOL
		}
		if len(xs) > 0 && p.rng.Intn(5) == 0 && p.layout != "canon" {
			p.tok(",")
			p.slot()
		}
		p.tok("]")
	case "map":
		kvs := t["kvs"].([]any)
		p.tok("{")
		p.slot()
		for i, kv := range kvs {
			if i > 0 {
				p.tok(",")
				p.slot()
			}
			p.expr(kv.([]any)[0].(T))
			p.tok(":")
			p.slot()
			p.expr(kv.([]any)[1].(T))
		}
		if len(kvs) > 0 {
			if p.rng.Intn(5) == 0 && p.layout != "canon" {
				p.tok(",")
			}
			p.slot()
		}
		p.tok("}")
	case "paren":
		p.tok("(")
		p.slot()
		p.expr(t["e"].(T))
		p.slot()
		p.tok(")")
	case "attr":
		p.expr(t["obj"].(T))
		p.tok(".")
		p.expr(t["attr"].(T))
	case "index":
		if t["obj"] == nil {
			p.tok(".")
		} else {
			p.tok(unhx(t["obj"].(T)["v"]))
		}
		for _, x := range t["idx"].([]any) {
			p.tok("[")
			p.slot()
			p.expr(x.(T))
			p.slot()
			p.tok("]")
		}
	case "unary":
		p.tok(map[string]string{"pos": "+", "neg": "-", "not": "!"}[t["op"].(string)])
		p.expr(t["e"].(T))
	case "bin":
		p.expr(t["l"].(T))
		p.tok(binText[t["op"].(string)])
		p.slot()
		p.expr(t["r"].(T))
	case "assign":
		p.commaList(t["lhs"].([]any))
		p.tok(asgText[t["op"].(string)])
		p.slot()
		p.commaList(t["rhs"].([]any))
	case "call":
		p.tok(unhx(t["n"]))
		p.tok("(")
		p.slot()
		args := t["args"].([]any)
		for i, a := range args {
			if i > 0 {
				p.tok(",")
				p.slot()
			}
			p.expr(a.(T)) // a named argument prints as its assignment
		}
		if len(args) > 0 {
			if p.rng.Intn(5) == 0 && p.layout != "canon" {
				p.tok(",")
			}
			p.slot()
		}
		p.tok(")")
	case "slice":
		p.expr(t["obj"].(T))
		p.tok("[")
		p.slot()
		p.opt(t["a"])
		p.tok(":")
		p.slot()
		p.opt(t["b"])
		if t["c2"] == true {
			p.tok(":")
			p.slot()
			p.opt(t["c"])
		}
		p.tok("]")
	default:
		p.stmt(t)
	}
}

func (p *pr) block(b []any) {
	p.tok("{")
	p.slot()
	p.stmts(b, false)
	p.tok("}")
}

func (p *pr) stmts(ss []any, top bool) {
	if p.layout != "canon" && p.layout != "tight" && p.rng.Intn(6) == 0 && (len(ss) > 0 || !top) {
		p.raw(p.pick([]string{";", "; ;", ";\n"})) // leading `sem`
	}
	for i, s := range ss {
		if i > 0 {
			p.sep()
		}
		p.stmt(s.(T))
	}
	if len(ss) > 0 && p.layout != "tight" && p.rng.Intn(3) == 0 {
		p.sep()
	}
}

func (p *pr) stmt(t T) {
	switch t["t"] {
	case "if":
		for i, x := range t["ifs"].([]any) {
			if i == 0 {
				p.tok("if")
			} else {
				p.tok("elif")
			}
			p.expr(x.(T)["c"].(T))
			p.block(x.(T)["b"].([]any))
		}
		if t["els"] != nil {
			p.tok("else")
			p.block(t["els"].([]any))
		}
	case "for":
		p.tok("for")
		p.opt(t["init"])
		p.tok(";")
		p.opt(t["c"])
		p.tok(";")
		p.opt(t["loop"])
		p.block(t["b"].([]any))
	case "forin":
		p.tok("for")
		p.expr(t["var"].(T))
		p.tok("in")
		p.slot()
		p.expr(t["iter"].(T))
		p.block(t["b"].([]any))
	case "break":
		p.tok("break")
	case "continue":
		p.tok("continue")
	default:
		p.expr(t)
	}
}

func printProg(rng *rand.Rand, ss []any, layout string) string {
	p := &pr{rng: rng, layout: layout}
	if layout == "eol" || layout == "comment" {
		p.raw(p.pick([]string{"", "", "\n", "\n\n", " \n"}))
		if layout == "comment" && rng.Intn(3) == 0 {
			p.raw("# head\n")
		}
	}
	p.stmts(ss, true)
	if layout == "comment" && rng.Intn(3) == 0 {
		p.raw(" # tail")
	}
	return p.sb.String()
}

// damage: one edit that is not an admissible layout change (only model/implementation agreement is checked)
func damage(rng *rand.Rand, s string) string {
	if len(s) == 0 {
		return s
	}
	i := rng.Intn(len(s))
	switch rng.Intn(5) {
	case 0:
		return s[:i] + "\n" + s[i:]
	case 1:
		return s[:i] + s[i+1:]
	case 2:
		ins := []string{"(", ")", "[", "]", "{", "}", ",", ":", ";", ".", " in ", "-", "!", "=", " else ", " elif x ", "#"}
		return s[:i] + ins[rng.Intn(len(ins))] + s[i:]
	case 3:
		j := rng.Intn(len(s))
		if j < i {
			i, j = j, i
		}
		return s[:i] + s[j:]
	}
	return s[:i] + " " + s[i:]
}

func genC06(e *emitter, tier string, seed int64) {
	rng := rand.New(rand.NewSource(seed))
	g := &tg{rng: rng}
	N := 1500
	if tier == "thorough" {
		N = 40000
	}
	layouts := []string{"canon", "tight", "eol", "eol", "comment"}
	// 1. every ordered pair of binary operators, both nestings, unary forms around them (exhaustive)
	id := func(n string) T { return T{"t": "ident", "q": false, "v": hx(n)} }
	for _, o1 := range binNames {
		for _, o2 := range binNames {
			p1, p2 := binLevels[o1], binLevels[o2]
			wrap := func(t T, min int, lv int) T {
				if lv < min {
					return T{"t": "paren", "e": t}
				}
				return t
			}
			inner := T{"t": "bin", "op": o2, "l": id("b"), "r": id("c")}
			left := T{"t": "bin", "op": o1, "l": wrap(T{"t": "bin", "op": o2, "l": id("a"), "r": id("b")}, p1, p2), "r": id("c")}
			right := T{"t": "bin", "op": o1, "l": id("a"), "r": wrap(inner, p1+1, p2)}
			un := T{"t": "bin", "op": o1, "l": T{"t": "unary", "op": "neg", "e": id("a")}, "r": T{"t": "unary", "op": "not", "e": id("b")}}
			for _, t := range []T{left, right, un} {
				for _, lay := range []string{"canon", "tight", "eol"} {
					parseCase(e, printProg(rng, []any{t}, lay), []any{t}, "pairs", lay)
				}
			}
		}
	}
	// 1a. nesting depth: redundant parentheses, nested calls, list and map literals, blocks - n deep, n up
	// to 300 (the tree has exactly n nested nodes; no depth is special)
	for _, n := range []int{1, 2, 64, 127, 128, 129, 130, 200, 300} {
		var t T = id("x")
		for i := 0; i < n; i++ {
			t = T{"t": "paren", "e": t}
		}
		parseCase(e, printProg(rng, []any{t}, "canon"), []any{t}, "depth", "canon")
		parseCase(e, printProg(rng, []any{t}, "eol"), []any{t}, "depth", "eol")
		parseCase(e, "f("+strings.Repeat("f(", n-1)+"1"+strings.Repeat(")", n)+"\n", nil, "depth", "calls")
		parseCase(e, strings.Repeat("[", n)+"1"+strings.Repeat("]", n)+"\n", nil, "depth", "lists")
		parseCase(e, "x = "+strings.Repeat("{\"k\": ", n)+"1"+strings.Repeat("}", n)+"\n", nil, "depth", "maps")
		parseCase(e, strings.Repeat("if a {\n", n)+"x = 1\n"+strings.Repeat("}\n", n), nil, "depth", "blocks")
		parseCase(e, "x = a"+strings.Repeat("[b", n)+strings.Repeat("]", n)+"\n", nil, "depth", "index")
	}
	// 1a'. a map literal keeps every entry it was written with (repeated keys included), in order
	{
		str := func(v string) T { return T{"t": "str", "m": false, "v": hx(v)} }
		numT := func(v string) T { return T{"t": "num", "neg": false, "v": hx(v)} }
		call := T{"t": "call", "q": false, "n": hx("f"), "args": []any{}}
		for _, kvs := range [][]any{
			{[]any{str(`"k"`), call}, []any{str(`"k"`), numT("2")}},
			{[]any{str(`"a"`), numT("1")}, []any{str(`"b"`), numT("2")}, []any{str(`"a"`), numT("3")}, []any{str(`'a'`), numT("4")}},
			{[]any{str(`""`), numT("1")}, []any{str(`""`), T{"t": "map", "kvs": []any{[]any{str(`"k"`), numT("1")}, []any{str(`"k"`), numT("1")}}}}},
		} {
			t := T{"t": "assign", "op": "eq", "lhs": []any{id("x")}, "rhs": []any{T{"t": "map", "kvs": kvs}}}
			for _, lay := range []string{"canon", "tight", "eol"} {
				parseCase(e, printProg(rng, []any{t}, lay), []any{t}, "map-entries", lay)
			}
		}
	}
	// 1b. the language reference's own examples (01-syntax-spec.md, "Binary Expression", "Parenthesized Expression")
	num := func(v string) T { return T{"t": "num", "neg": false, "v": hx(v)} }
	bin := func(op string, l, r T) T { return T{"t": "bin", "op": op, "l": l, "r": r} }
	docs := []struct {
		src  string
		want T
		key  string
	}{
		{"2 / 5", bin("div", num("2"), num("5")), ""},
		{"2 / 5.0", bin("div", num("2"), num("5.0")), ""},
		{"1 + 2 * 3 == 7 && 1 <= 2", bin("and", bin("eq", bin("add", num("1"), bin("mul", num("2"), num("3"))), num("7")), bin("le", num("1"), num("2"))), ""},
		{"(1 + 2) * 3", bin("mul", T{"t": "paren", "e": bin("add", num("1"), num("2"))}, num("3")), ""},
		// "as `=` right associativity of operators, a = (b = 3)"
		{"a = b = 3", T{"t": "assign", "op": "eq", "lhs": []any{id("a")}, "rhs": []any{T{"t": "assign", "op": "eq", "lhs": []any{id("b")}, "rhs": []any{num("3")}}}}, "doc:chained-assignment"},
	}
	for _, dcase := range docs {
		out := map[string]any{"k": "parse", "src": hx(dcase.src), "want": []any{dcase.want}, "gen": "doc", "layout": "canon"}
		if dcase.key != "" {
			out["key"] = dcase.key
		}
		for k, v := range parseTreeV1(dcase.src) {
			out[k] = v
		}
		e.stat("doc/canon")
		e.emit(out)
	}
	// 2. the 24 slice forms x layouts
	for base := 0; base < 2; base++ {
		for m := 0; m < 12; m++ {
			var obj T = id("a")
			if base == 1 {
				obj = T{"t": "call", "q": false, "n": hx("f"), "args": []any{}}
			}
			one := func(on bool, n string) any {
				if on {
					return id(n)
				}
				return nil
			}
			var s T
			if m < 8 {
				s = T{"t": "slice", "obj": obj, "a": one(m&1 != 0, "i"), "b": one(m&2 != 0, "j"), "c": one(m&4 != 0, "k"), "c2": true}
			} else {
				s = T{"t": "slice", "obj": obj, "a": one(m&1 != 0, "i"), "b": one(m&2 != 0, "j"), "c": nil, "c2": false}
			}
			for _, lay := range []string{"canon", "tight", "eol", "comment"} {
				parseCase(e, printProg(rng, []any{s}, lay), []any{s}, "slices", lay)
			}
		}
	}
	// 3. random statement trees x layouts
	for i := 0; i < N; i++ {
		ss := []any{}
		for k := 1 + rng.Intn(3); k > 0; k-- {
			ss = append(ss, g.stmt(1+rng.Intn(4)))
		}
		lay := layouts[rng.Intn(len(layouts))]
		src := printProg(rng, ss, lay)
		parseCase(e, src, ss, "trees", lay)
		if i%4 == 0 {
			parseCase(e, damage(rng, src), nil, "damaged", lay)
		}
	}
}
