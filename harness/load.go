package main

import (
	"encoding/json"
	"fmt"
	"sort"

	"github.com/GuanceCloud/platypus/pkg/ast"
	"github.com/GuanceCloud/platypus/pkg/engine"
	plruntime "github.com/GuanceCloud/platypus/pkg/engine/runtime"
	"github.com/GuanceCloud/platypus/pkg/engine/runtimev2"
	"github.com/GuanceCloud/platypus/pkg/errchain"
	"github.com/GuanceCloud/platypus/pkg/parser"
)

// A load case: a set of scripts is parsed, checked and linked (in a given visiting order through
// the verif hook, and several times through the real ParseScript whose order is Go's map order).

type loadCase struct {
	Scripts []scriptSrc
	Order   []string
	Reps    int
	// asymmetric function tables ("arbitrary registered function tables"): names removed from the
	// call table only / from the checker table only
	DropCall  []string
	DropCheck []string
}

func errJSON(e error) map[string]any {
	if pe, ok := e.(*errchain.PlError); ok {
		return dumpErr(pe)
	}
	return map[string]any{"chain": []any{}, "msg": e.Error(), "plain": true}
}

func init() {
	workerKinds["load"] = func(raw json.RawMessage) map[string]any {
		var lc loadCase
		json.Unmarshal(raw, &lc)
		return loadDirect(lc)
	}
}

func loadV1(lc loadCase) map[string]any {
	if inWorker {
		return loadDirect(lc)
	}
	raw, _ := json.Marshal(lc)
	m, death := callWorker(workerReq{Kind: "load", Raw: raw})
	if death == "" {
		return m
	}
	res := map[string]any{"k": "load", "scripts": []any{}, "order": []string{}, "death": death}
	if m != nil {
		res["stderr"] = m["stderr"]
	}
	return res
}

func loadDirect(lc loadCase) map[string]any {
	call, check := fnTables()
	for _, n := range lc.DropCall {
		delete(call, n)
	}
	nocheck := []string{}
	for _, n := range lc.DropCheck {
		delete(check, n)
		nocheck = append(nocheck, hx(n))
	}
	callNames := []string{}
	for k := range call {
		callNames = append(callNames, hx(k))
	}
	sort.Strings(callNames)
	d := newDumper()
	oks := map[string]*plruntime.Script{}
	errs := map[string]error{}
	scripts := []any{}
	for _, s := range lc.Scripts {
		rec := map[string]any{"name": hx(s.Name), "src": hx(s.Src)}
		stmts, err := parser.ParsePipeline(s.Name, s.Src)
		if err != nil {
			errs[s.Name] = err
			rec["parse_err"] = errJSON(err)
			scripts = append(scripts, rec)
			continue
		}
		// the tree as the parser produced it (the check pass only adds annotations)
		rec["ast"] = d.nodes(stmts)
		p := &plruntime.Script{FuncCall: call, Name: s.Name, Content: s.Src, Ast: stmts}
		if cerr := p.Check(check); cerr != nil {
			errs[s.Name] = cerr
			rec["check_err"] = dumpErr(cerr)
		} else {
			oks[s.Name] = p
			refs := []int{}
			for _, c := range p.CallRef {
				refs = append(refs, d.sites[c])
			}
			rec["callref"] = refs
		}
		// the v2 interpreter's check pass on the same text, with a table of the same names whose
		// checker is a plain arity rule (at most three arguments)
		if _, err2 := engine.ParseV2(s.Name, s.Src, v2CheckTable(callNames)); err2 != nil {
			rec["check2_err"] = errJSON(err2)
		}
		rec["check2"] = true
		scripts = append(scripts, rec)
	}
	dropcall := []string{}
	for _, n := range lc.DropCall {
		dropcall = append(dropcall, hx(n))
	}
	res := map[string]any{"k": "load", "scripts": scripts, "fns": callNames, "nocheck": nocheck, "dropcall": dropcall}
	order := []string{}
	for _, n := range lc.Order {
		order = append(order, hx(n))
	}
	res["order"] = order
	// link through the hook with the given order
	allNg := map[string]*plruntime.Script{}
	for k, v := range oks {
		allNg[k] = v
	}
	acc, lerrs := engine.LinkInOrder(lc.Order, allNg, errs)
	res["hook"] = linkResult(acc, lerrs, oks, d)
	// the real loader, several times (map order)
	srcs := map[string]string{}
	for _, s := range lc.Scripts {
		srcs[s.Name] = s.Src
	}
	reals := []any{}
	for i := 0; i < lc.Reps; i++ {
		a, e := engine.ParseScript(srcs, call, check)
		acc := []string{}
		for k := range a {
			acc = append(acc, hx(k))
		}
		sort.Strings(acc)
		em := map[string]any{}
		for k, v := range e {
			em[hx(k)] = errJSON(v)
		}
		// bindings of the accepted scripts
		bind := map[string]string{}
		for _, s := range a {
			for _, c := range s.CallRef {
				if t, ok := c.PrivateData.(*plruntime.Script); ok && t != nil {
					bind[fmt.Sprintf("%s@%d", hx(s.Name), c.NamePos.Pos)] = hx(t.Name)
				}
			}
		}
		reals = append(reals, map[string]any{"accepted": acc, "errors": em, "bind": bind})
	}
	res["real"] = reals
	return res
}

func v2CheckTable(names []string) map[string]*runtimev2.Fn {
	t := map[string]*runtimev2.Fn{}
	for _, hn := range names {
		n := unhx(hn)
		t[n] = &runtimev2.Fn{
			CallCheck: func(ctx *runtimev2.Task, expr *ast.CallExpr) *errchain.PlError {
				if len(expr.Param) > 3 {
					return runtimev2.NewRunError(ctx, "too many arguments", expr.NamePos)
				}
				return nil
			},
			Call: func(ctx *runtimev2.Task, expr *ast.CallExpr) *errchain.PlError { return nil },
			Desc: runtimev2.FnDesc{Name: n},
		}
	}
	return t
}

func linkResult(acc map[string]*plruntime.Script, lerrs map[string]error, oks map[string]*plruntime.Script, d *dumper) map[string]any {
	a := []string{}
	for k := range acc {
		a = append(a, hx(k))
	}
	sort.Strings(a)
	em := map[string]any{}
	for k, v := range lerrs {
		em[hx(k)] = errJSON(v)
	}
	bind := [][]any{}
	for _, s := range oks {
		for _, c := range s.CallRef {
			if t, ok := c.PrivateData.(*plruntime.Script); ok && t != nil {
				bind = append(bind, []any{d.sites[c], hx(t.Name)})
			}
		}
	}
	sort.Slice(bind, func(i, j int) bool { return bind[i][0].(int) < bind[j][0].(int) })
	return map[string]any{"accepted": a, "errors": em, "bind": bind}
}

var _ = ast.TypeCallExpr
