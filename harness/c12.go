package main

import (
	"fmt"
	"math/rand"
)

func init() { gens["C12"] = genC12 }

func emitSimple(e *emitter, src string, pt pointSpec, gen, key string) {
	out := runV1(runCase{Scripts: []scriptSrc{{"main.p", src}}, Entry: "main.p", Point: pt})
	out["gen"] = gen
	out["key"] = key
	out["strict"] = true
	out["c10"] = true
	if obs, ok := out["obs"].(map[string]any); ok {
		e.stat(gen + ":" + fmt.Sprint(obs["outcome"]))
	}
	e.emit(out)
}

func genC12(e *emitter, tier string, seed int64) {
	rng := rand.New(rand.NewSource(seed))
	obs := "\np(get_key(message), get_key(a), get_key(b), get_key(c), get_key(pl_msg), get_key(out), get_key(k))\n"
	mkpt := func(msg string) pointSpec {
		return pointSpec{Meas: "m", Time: 1600000000000000000, Fields: []fieldSpec{{"message", "str", msg}, {"n", "int", "12345"}, {"fl", "float", "4612811918334230528"}, {"nl", "nil", ""}, {"bigf", "float", "4702623120467427328"}, {"tinyf", "float", "4544132024016830464"}, {"epochf", "float", "4744658828371427328"}},
			Tags: [][2]string{{"tg", "127.0.0.1 GET"}}}
	}
	// ---- grok: capture types, trim flag, subjects, pattern scopes ----
	// (nl: a field holding nil, nv: a variable holding nil - present subjects whose string form is empty)
	subjects := []string{"_", "message", "tg", "n", "fl", "nosuch", "v", `"message"`, "nl", "nv", "bigf", "tinyf"}
	patterns := []string{
		`%{IP:a} %{WORD:b}`, `%{NUMBER:a:int} %{NUMBER:b:float}`, `%{WORD:a:str} %{WORD:b:bool}`, `%{MYPAT:a}`, `%{INNER:a} %{WORD:b}`,
		`(?P<a>\\d+)`, `%{NOSUCHPATTERN:a}`, `%{NUMBER:a:int}`, `\\s*%{WORD:a}\\s*`, `%{DATA:a} %{GREEDYDATA:b}`, `%{NUMBER:message}`,
	}
	msgs := []string{"127.0.0.1 GET", "12 3.5", "true false", "abc true", "  padded  ", "", "42", "x 1.5 y"}
	for _, msg := range msgs {
		for _, sub := range subjects {
			for _, pat := range patterns {
				for _, trim := range []string{"", ", true", ", false"} {
					if tier != "thorough" && rng.Intn(4) != 0 {
						continue
					}
					src := fmt.Sprintf("v = \" 7 8.5 \"\nnv = nil\nadd_pattern(\"MYPAT\", \"\\\\w+\")\nr = grok(%s, \"%s\"%s)\np(r)", sub, pat, trim) + obs
					emitSimple(e, src, mkpt(msg), "grok", fmt.Sprintf("%q | grok(%s, %s%s)", msg, sub, pat, trim))
				}
			}
		}
	}
	// subjects whose string form is empty, with patterns that match the empty string (every one, unsampled)
	for _, sub := range []string{"_", "message", "tg0", "nl", "nv", "ev"} {
		for _, pat := range []string{`%{GREEDYDATA:a}`, `%{DATA:a}`, `^%{DATA:a}$`, `\\s*`, `(?P<a>x?)`, `%{DATA:a:int}`, `%{WORD:a}`} {
			src := fmt.Sprintf("nv = nil\nev = \"\"\nr = grok(%s, \"%s\")\np(r)", sub, pat) + obs
			pt := mkpt("")
			pt.Tags = append(pt.Tags, [2]string{"tg0", ""})
			emitSimple(e, src, pt, "grok-empty-subject", fmt.Sprintf("grok(%s, %s)", sub, pat))
		}
	}
	// pattern scopes: definitions in outer/inner/sibling blocks, shadowing, definition after use
	scopeProgs := []string{
		"add_pattern(\"P\", \"\\\\d+\")\nif true {\n  grok(_, \"%{P:a}\")\n}",
		"if true {\n  add_pattern(\"P\", \"\\\\d+\")\n}\ngrok(_, \"%{P:a}\")",
		"if true {\n  add_pattern(\"P\", \"\\\\d+\")\n  grok(_, \"%{P:a}\")\n}",
		"if true {\n  add_pattern(\"P\", \"\\\\d+\")\n} else {\n  grok(_, \"%{P:a}\")\n}",
		"add_pattern(\"P\", \"[a-z]+\")\nif true {\n  add_pattern(\"P\", \"\\\\d+\")\n  grok(_, \"%{P:a}\")\n}\ngrok(_, \"%{P:b}\")",
		"grok(_, \"%{P:a}\")\nadd_pattern(\"P\", \"\\\\d+\")",
		"add_pattern(\"P\", \"\\\\d+\")\nadd_pattern(\"Q\", \"%{P:x}-%{P:y}\")\ngrok(_, \"%{Q:a}\")",
		"add_pattern(\"Q\", \"%{P}\")\nadd_pattern(\"P\", \"\\\\d+\")",
		"for i = 0; i < 2; i = i + 1 {\n  add_pattern(\"P\", \"\\\\d+\")\n  grok(_, \"%{P:a}\")\n}\ngrok(_, \"%{P:b}\")",
		"for x in [1] {\n  add_pattern(\"P\", \"\\\\d+\")\n}\nfor y in [1] {\n  grok(_, \"%{P:a}\")\n}",
		"add_pattern(\"WORD\", \"\\\\d+\")\ngrok(_, \"%{WORD:a}\")",
		"add_pattern(\"P\", \"\\\\d+\")\nfor x in [1, 2] {\n  if x == 1 {\n    add_pattern(\"P\", \"[a-z]+\")\n  }\n  grok(_, \"%{P:a}\")\n}",
		"add_pattern(\"P\", \"(\")",
		"add_pattern(P, \"x\")", "add_pattern(\"P\")", "grok(_)", "grok(_, p)", "grok(_, \"%{WORD:a}\", 1)", "grok(1 + 2, \"%{WORD:a}\")",
	}
	for _, sp := range scopeProgs {
		for _, msg := range []string{"abc 123", "123 abc"} {
			emitSimple(e, sp+obs, mkpt(msg), "grok-scope", sp)
		}
	}
	// ---- default_time: layouts x zones ----
	stamps := []string{
		"01/Jan/1970:00:00:00 +0000", "31/Dec/1969:23:59:59 +0000", "691231 23:59:59", "1969/12/31 - 23:59:59", "06/Jan/2017:16:16:37 +0000", "02/Dec/2021:11:55:34 -0500", "02/Dec/2021:11:55:34 -0330", "2021/02/27 - 4:14:20", "Tue May 8 06:25:05.176170 2021", "14 May 2019 19:11:40.164", "14 May 19:11:40.164", "171113 14:14:20", "2021/02/27 - 14:14:20",
		"Tue May 18 06:25:05.176170 2021", "2021-05-27 06:54:14.760 UTC", "2021-03-15T00:08:10Z", "2017-12-29T12:33:33.095243Z",
		"1610358231887", "1610358231", "2014-04-26 17:24:37.3186369", "May 8, 2009 5:57:51 PM", "not a time", "", "12345",
		// (round 7: texts the general parser refuses — a month beyond 12 — stay refused)
		"31/12/2021 10:00:00", "13/02/2021", "25/12/2021 23:59", "12/31/2021 10:00:00", "2021-13-01 00:00:00", "31.12.2021",
	}
	zones := []string{"", `, "+8"`, `, "-3:30"`, `, "Asia/Shanghai"`, `, "UTC"`, `, "CST"`, `, "+99"`, `, "Nowhere/City"`, `, "America/New_York"`, `, "+0"`}
	for _, st := range stamps {
		for _, z := range zones {
			for _, form := range []string{"default_time(k%s)", "default_time(message%s)"} {
				pt := mkpt(st)
				pt.Fields = append(pt.Fields, fieldSpec{"k", "str", st})
				call := fmt.Sprintf(form, z)
				emitSimple(e, call+obs, pt, "default_time", st+" | "+call)
			}
		}
	}
	for _, call := range []string{"default_time(epochf)", "default_time(epochf, \"UTC\")", "default_time(bigf, \"+8\")", "default_time(nl)", "default_time(nl, \"+8\")", "nv = nil\ndefault_time(nv)", "j = load_json(\"{\\\"t\\\": null}\")\nadd_key(jt, j[\"t\"])\ndefault_time(jt)", "default_time(n)", "default_time(nosuch)", "default_time(tg)", "default_time(fl)", "v = \"2021-03-15T00:08:10Z\"\ndefault_time(v)"} {
		emitSimple(e, call+obs, mkpt("x"), "default_time", call)
	}
	// ---- datetime ----
	for _, sub := range []string{"n", "k", "fl", "nosuch", "message", "v", "txt", "b1", "hx", "bigms", "negms", "bigs"} {
		for _, prec := range []string{"s", "ms", "us", ""} {
			for _, f := range []string{"RFC3339", "ANSIC", "Kitchen", "nosuchfmt", "RFC3339Nano"} {
				pt := mkpt("1610358231")
				pt.Fields = append(pt.Fields, fieldSpec{"k", "int", "1610358231887"}, fieldSpec{"txt", "str", "hello"}, fieldSpec{"b1", "bool", "true"}, fieldSpec{"hx", "str", " 12"},
					// (stamps whose nanosecond count leaves int64: after 2262, before 1677, the year 10000 in seconds)
					fieldSpec{"bigms", "int", "9223372036855"}, fieldSpec{"negms", "int", "-9223372036855"}, fieldSpec{"bigs", "int", "253402300800"})
				call := fmt.Sprintf("v = 1610358231\ndatetime(%s, \"%s\", \"%s\")", sub, prec, f)
				emitSimple(e, call+obs, pt, "datetime", call)
			}
		}
	}
	// ---- xml ----
	// (round 11: documents the engine accepts although they do not begin with `<`: a byte order mark, an XML
	// declaration after a byte order mark, leading blanks and line breaks)
	docs := []string{`<a><b id="1">x</b><b id="2">y<c>z</c></b></a>`, `<a>`, ``, `plain`, `<r><v>1</v></r>`,
		"\ufeff<r><v>1</v></r>", "\ufeff<?xml version=\"1.0\"?><r><v>2</v></r>", " \n\t<r><v>3</v></r>", "\u00a0<r><v>4</v></r>"}
	// (XPath functions applied to arguments of the wrong kind or number: the xpath package reports some of
	// these only while evaluating — as a failed query, not as a crash)
	xps := []string{`/a/b[@id='2']`, `//c`, `/a/b/@id`, `//nosuch`, `///`, `/r/v`, `count(//b)`,
		`(//b)[1]`, `(/a/b)[last()]`, `(//b)[2]/@id`, `(//b | //c)[1]`, `//b[starts-with(1,2)]`, `//b[substring(.,0)]`, `//b[contains(., 1)]`, `concat(1)`, `//b[position()=last()]`, `string-length(1,2)`, `//b[translate(.,1,2)]`,
		`//*[name(1)]`, `sum(//b)`, `//b[ends-with(.,1)]`, `boolean()`, `normalize-space(1, 2)`, `//b[substring-before(1)]`, `//b[number(.) > 1 div 0]`, `//b[last() - 1][1]`, `/a/b[0]`, `//b[-1]`, `(`, `//b[`}
	for _, d := range docs {
		for _, xp := range xps {
			for _, dst := range []string{"out", `"out"`, "out.x"} {
				pt := mkpt(d)
				call := fmt.Sprintf("xml(_, \"%s\", %s)", xp, dst)
				emitSimple(e, call+"\np(get_key(out.x))"+obs, pt, "xml", d+" | "+call)
			}
		}
	}
	// ---- the same builtin applied twice in one run to a subject whose text changed in between (a
	// reassigned variable, a loop variable, a rewritten, dropped or no longer well-formed field, a
	// variable that comes to shadow the field): each call works on the subject as it is then ----
	for i, src := range []string{
		"d = \"<a>one</a>\"\nxml(d, \"/a\", a)\nd = \"<a>two</a>\"\nxml(d, \"/a\", b)",
		"for d in [\"<a>1</a>\", \"<a>2</a>\", \"<a>3</a>\"] {\n  xml(d, \"/a\", c)\n}",
		"xml(_, \"/r/v\", a)\nadd_key(message, \"<r><v>2</v></r>\")\nxml(_, \"/r/v\", b)",
		"xml(_, \"/r/v\", a)\ndrop_key(message)\nxml(_, \"/r/v\", b)",
		"xml(_, \"/r/v\", a)\nadd_key(message, \"<r\")\nxml(_, \"/r/v\", b)",
		"xml(message, \"/r/v\", a)\nmessage = \"<r><v>9</v></r>\"\nxml(message, \"/r/v\", b)",
		"xml(_, \"/r/v\", a)\nxml(_, \"/r/v\", b)\nrename(m2, message)\nxml(m2, \"/r/v\", c)\nxml(_, \"/r/v\", out)",
		"q = \"select 1 from t\"\nsql_cover(q)\nadd_key(a, q)\nq = \"select 'x' from u where k = 5\"\nsql_cover(q)\nadd_key(b, q)",
		"g = \"12 abc\"\nr1 = grok(g, \"%{NUMBER:a:int} %{WORD:b}\")\ng = \"77 zz\"\nr2 = grok(g, \"%{NUMBER:a:int} %{WORD:b}\")\np(r1, r2)",
		"for g in [\"1 a\", \"x\", \"3 c\"] {\n  r = grok(g, \"%{NUMBER:a:int} %{WORD:b}\")\n  p(r, get_key(a), get_key(b))\n}",
		"t = \"2021-01-11T17:43:51.887+0800\"\ndefault_time(t)\np(get_key(a))\nadd_key(t2, \"2022-02-02T02:02:02Z\")\ndefault_time(t2)",
		"v = 1610358231\ndatetime(v, \"s\", \"RFC3339\")\nadd_key(a, v)\nv = 1710358231\ndatetime(v, \"s\", \"RFC3339\")\nadd_key(b, v)",
	} {
		emitSimple(e, src+obs, mkpt("<r><v>1</v></r>"), "changed-subject", fmt.Sprintf("changed-subject-%d", i))
	}
	// ---- sql_cover ----
	for _, q := range []string{"select abc from def where x > 3 and y < 5", "SELECT * FROM t WHERE id IN (1, 2, 3) AND name = 'bob'", "not sql at all ((", "", "INSERT INTO t VALUES (1, 'a')"} {
		for _, sub := range []string{"_", "nosuch", "n"} {
			emitSimple(e, fmt.Sprintf("sql_cover(%s)", sub)+obs, mkpt(q), "sql_cover", q+" | "+sub)
		}
	}
}
