package main

import (
	"math/rand"
	"strings"

	"github.com/GuanceCloud/platypus/pkg/errchain"
	"github.com/GuanceCloud/platypus/pkg/parser"
)

func init() {
	gens["C05"] = genC05
	replayers["lex"] = func(e *emitter, c map[string]any) { lexCase(e, unhx(c["src"]), "replay") }
}

var tokNames = map[parser.ItemType]string{
	parser.EOF: "EOF", parser.ERROR: "ERROR", parser.COMMENT: "COMMENT", parser.EOL: "EOL", parser.ID: "ID", parser.NUMBER: "NUMBER",
	parser.STRING: "STRING", parser.QUOTED_STRING: "QUOTED_STRING", parser.MULTILINE_STRING: "MULTILINE_STRING",
	parser.COMMA: "COMMA", parser.COLON: "COLON", parser.SEMICOLON: "SEMICOLON", parser.DOT: "DOT",
	parser.LEFT_PAREN: "LEFT_PAREN", parser.RIGHT_PAREN: "RIGHT_PAREN", parser.LEFT_BRACKET: "LEFT_BRACKET", parser.RIGHT_BRACKET: "RIGHT_BRACKET",
	parser.LEFT_BRACE: "LEFT_BRACE", parser.RIGHT_BRACE: "RIGHT_BRACE",
	parser.ADD: "ADD", parser.SUB: "SUB", parser.MUL: "MUL", parser.DIV: "DIV", parser.MOD: "MOD",
	parser.ADD_EQ: "ADD_EQ", parser.SUB_EQ: "SUB_EQ", parser.MUL_EQ: "MUL_EQ", parser.DIV_EQ: "DIV_EQ", parser.MOD_EQ: "MOD_EQ",
	parser.EQ: "EQ", parser.EQEQ: "EQEQ", parser.NEQ: "NEQ", parser.LT: "LT", parser.LTE: "LTE", parser.GT: "GT", parser.GTE: "GTE",
	parser.NOT: "NOT", parser.AND: "AND", parser.OR: "OR",
	parser.IF: "IF", parser.ELIF: "ELIF", parser.ELSE: "ELSE", parser.FALSE: "FALSE", parser.IDENTIFIER: "IDENTIFIER", parser.NIL: "NIL", parser.NULL: "NULL",
	parser.TRUE: "TRUE", parser.FOR: "FOR", parser.IN: "IN", parser.WHILE: "WHILE", parser.BREAK: "BREAK", parser.CONTINUE: "CONTINUE", parser.RETURN: "RETURN",
	parser.STR: "STR", parser.BOOL: "BOOL", parser.INT: "INT", parser.FLOAT: "FLOAT", parser.LIST: "LIST", parser.MAP: "MAP",
}

// lexCase: the exported lexer's item stream (up to EOF/ERROR) and the parser's verdict on the same text
func lexCase(e *emitter, src, gen string) {
	lx := parser.Lex(src)
	items := []any{}
	for i := 0; i < len(src)+3; i++ {
		var it parser.Item
		lx.NextItem(&it)
		name, ok := tokNames[it.Typ]
		if !ok {
			name = "?"
		}
		val := hx(it.Val)
		if it.Typ == parser.ERROR {
			val = ""
		}
		items = append(items, []any{name, int(it.Pos), val})
		if it.Typ == parser.EOF || it.Typ == parser.ERROR {
			break
		}
	}
	out := map[string]any{"k": "lex", "src": hx(src), "items": items, "gen": gen}
	// the parser on the same text, in the worker (a hang or fatal error must not take the run down)
	pr := parseV1(src)
	for k, v := range pr {
		out[k] = v
	}
	e.stat(gen)
	e.emit(out)
}

func parseDirect(src string) map[string]any {
	res := map[string]any{}
	stderrBefore := ""
	_ = stderrBefore
	stmts, err := parser.ParsePipeline("t.p", src)
	res["has_tree"] = stmts != nil
	res["ntree"] = len(stmts)
	if err != nil {
		res["has_err"] = true
		if pe, ok := err.(*errchain.PlError); ok {
			res["err"] = dumpErr(pe)
		} else {
			res["err"] = map[string]any{"chain": []any{}, "msg": err.Error(), "plain": true}
		}
	} else {
		res["has_err"] = false
		if stmts != nil && len(src) < 4000 {
			// the tree, for the comparison with the parser model's verdict and tree (long inputs: verdict only)
			res["ast"] = newDumper().nodes(stmts)
		}
	}
	return res
}

func genC05(e *emitter, tier string, seed int64) {
	rng := rand.New(rand.NewSource(seed))
	N := 4000
	if tier == "thorough" {
		N = 150000
	}
	// 1. arbitrary bytes incl. invalid UTF-8
	for i := 0; i < N; i++ {
		n := rng.Intn(24)
		b := make([]byte, n)
		for j := range b {
			switch rng.Intn(4) {
			case 0:
				b[j] = byte(rng.Intn(256))
			default:
				b[j] = "abc xyz_019.+-*/%=!<>&|()[]{},:;#\"'`\\\n\t\rnufalsetrueifeUx0"[rng.Intn(57)]
			}
		}
		lexCase(e, string(b), "bytes")
	}
	// 1b. string literals of every quote kind built from escapes, invalid bytes, multi-byte runes and plain
	// text (several stray bytes after an escape, line breaks inside multi-line strings), closed or not
	{
		pieces := []string{"\\n", "\\t", "\\\\", "\\x41", "\\u00e9", "\\101", "\\\"", "\\'", "\xff", "\xfe\xfd", "\xc4\xe3\xba\xc3", "\x80", "\xe2\x82", "é", "😀", "\ufffd", "a", "b c", "\n", "%", "\\q", "\\x4", "\\"}
		quotes := [][2]string{{"\"", "\""}, {"'", "'"}, {"'''", "'''"}, {"\"\"\"", "\"\"\""}, {"`", "`"}}
		for i := 0; i < N/2; i++ {
			var sb strings.Builder
			q := quotes[rng.Intn(len(quotes))]
			sb.WriteString(q[0])
			for k := rng.Intn(10); k > 0; k-- {
				if rng.Intn(3) == 0 {
					sb.WriteString(pieces[8+rng.Intn(5)]) // invalid bytes
				} else {
					sb.WriteString(pieces[rng.Intn(len(pieces))])
				}
			}
			if rng.Intn(6) != 0 {
				sb.WriteString(q[1])
			}
			lexCase(e, []string{"x = ", "", "f(", "if "}[rng.Intn(4)]+sb.String()+[]string{"\n", "", ")", " {\n}\n"}[rng.Intn(4)], "string-literals")
		}
	}
	// 2. token soups
	toks := []string{"a", "b1", "_", "if", "elif", "else", "for", "in", "break", "continue", "true", "FALSE", "nil", "NULL", "1", "0x1f", "1.5", "1e3", "1e", "0x", "1.2.3", ".5", "08", "inf", "NaN",
		"\"s\"", "'s'", "\"\\n\"", "\"\\x4\"", "\"\\u12\"", "\"unterminated", "'''m\nl'''", "\"\"\"a\"\"\"", "`q`", "`unterminated", "`é`",
		"+", "-", "*", "/", "%", "=", "==", "!=", "<", "<=", ">", ">=", "&&", "||", "!", "&", "|", "+=", "-=", "*=", "/=", "%=",
		"(", ")", "[", "]", "{", "}", ",", ":", ";", ".", "\n", " ", "\t", "# c\n", "#", "é", "😀", "\x00", "\xff", "$", "@", "~", "?", "^",
		// multi-byte blanks and controls outside strings (they are identifier runes for the lexer)
		"\u00a0", "\u3000", "\u2028", "\u0085", "\u200b", "\ufeff", "a\u00a0b", "=\u00a01"}
	for i := 0; i < N; i++ {
		n := rng.Intn(12)
		var sb strings.Builder
		for j := 0; j < n; j++ {
			sb.WriteString(toks[rng.Intn(len(toks))])
			if rng.Intn(3) == 0 {
				sb.WriteByte(' ')
			}
		}
		lexCase(e, sb.String(), "soup")
	}
	// 3. valid programs with one token deleted / duplicated / replaced
	for i := 0; i < N; i++ {
		g := newPG(rng)
		g.maxDepth = 1 + rng.Intn(2)
		src := g.program(1 + rng.Intn(2))
		if rng.Intn(5) != 0 {
			// mutate at a random byte position on a token boundary approximation
			pos := rng.Intn(len(src))
			switch rng.Intn(3) {
			case 0:
				src = src[:pos] + src[pos+1:]
			case 1:
				src = src[:pos] + string(src[pos]) + src[pos:]
			default:
				src = src[:pos] + toks[rng.Intn(len(toks))] + src[pos+1:]
			}
		}
		lexCase(e, src, "mutated-prog")
	}
	// 3b. generated trees (every expression and statement form) with one operand replaced by a text the
	// constructor functions reject (malformed number, division by a zero literal, bad escape), bare or
	// wrapped in parentheses, brackets or a call: a rejected operand travels up through every constructor
	{
		tgen := &tg{rng: rng}
		bad := []string{"0x", "1e", "(0x)", "(1e)", "(c / 0)", "(c % 0.0)", "((0x))", "[0x]", "f(1e)", "{\"k\": 0x}", "\"\\q\"", "(\"\\q\")", "a[0x]", "a[1e:]", "-0x", "!(1e)"}
		M := N / 4
		for i := 0; i < M; i++ {
			ss := []any{}
			for k := 1 + rng.Intn(2); k > 0; k-- {
				ss = append(ss, tgen.stmt(1+rng.Intn(3)))
			}
			src := printProg(rng, ss, "canon")
			// replace one identifier or small number (a whole token) by a rejected operand
			type occ struct{ at, n int }
			occs := []occ{}
			for _, w := range []string{"a", "b", "c", "x1", "_y", "abc", "k", "1", "2", "7"} {
				pat := " " + w + " "
				for from := 0; ; {
					k := strings.Index(src[from:], pat)
					if k < 0 {
						break
					}
					occs = append(occs, occ{from + k + 1, len(w)})
					from += k + 1
				}
			}
			if len(occs) == 0 {
				continue
			}
			o := occs[rng.Intn(len(occs))]
			lexCase(e, src[:o.at]+bad[rng.Intn(len(bad))]+src[o.at+o.n:], "rejected-operand")
		}
	}
	// 3c. a complete program followed, at a statement boundary, by something the lexer refuses (an
	// unterminated string, an illegal character, a stray byte): the text as a whole is not a program,
	// whatever the tokens before the fault spell
	{
		tgen := &tg{rng: rng}
		tails := []string{"\"abc", "'abc", "\"abc\\", "'''never closed\n", "\"\"\"never closed", "`never", "$", "$ = 2", "~", "@", "?", "^", "\x00", "\xff", "\xc3", "x = 1 ~", "\"\\ud800\"", "y = \"abc"}
		seps := []string{"\n", ";", "; ", "\n\n", " \n", "\n# c\n", " "}
		M := N / 4
		for i := 0; i < M; i++ {
			ss := []any{}
			for k := 1 + rng.Intn(2); k > 0; k-- {
				ss = append(ss, tgen.stmt(rng.Intn(3)))
			}
			src := strings.TrimRight(printProg(rng, ss, "canon"), "\n ")
			lexCase(e, src+seps[rng.Intn(len(seps))]+tails[rng.Intn(len(tails))]+[]string{"", "\n", "\nz = 3\n"}[rng.Intn(3)], "fault-after-program")
		}
		for _, t := range tails {
			for _, sp := range seps {
				lexCase(e, "a = 1"+sp+t, "fault-after-program")
				lexCase(e, "f()"+sp+t+"\n", "fault-after-program")
			}
		}
	}
	// 4. named hard cases: unterminated strings/escapes, malformed numbers, deep nesting
	hard := []string{"x = \"\\t\xc4\xe3\xba\xc3\"\n", "\"\\\\\xff\xfe\xfd\"", "x = '''a\n\xff\xfe\xfd\xfc'''\n", "\"\"\"\\n\xff\xff\xff\"\"\"", "'\\x41\x80\x80\x80\x80'", "a = b / (c / 0)", "x = 10 % (0x)", "a / (1e)", "x = [1, (2 % 0)] + 1", "f(a = (1e))", "if (0x) {}", "for x in (1e) {}", "a[(0x)] = 1", "a =\u00a01\n", "x\u3000= 1", "\u2028", "if\u0085x {}", "a = \"\u00a0\" \u00a0", "-0x", "for a in 1e {}", "x = [1e", "\"abc", "\"abc\\", "\"\\", "\"\\u", "\"\\U0011000", "'''abc", "`abc", "1.2.3", "0x", "1e", "1e+", "08", "0b1", "1_0",
		"a.b.c", "a..b", ".[0]", "a[", "a[1", "a[1:", "a[::", "f(", "f(1,", "f(,)", "{", "{\"a\"", "{\"a\":", "if", "if x", "if x {", "for", "for ;", "for ;;", "for x in", "elif x {}", "else {}",
		"x = ", "= 1", "x == ", "1 +", "+", "!", "((((((", "))))", "[[[[", "]]]]", "{{{{", "}}}}", "\xff\xfe", "a\x00b", "\"\xff\"", "`\xff`", "'''\xff'''", "#", "# only comment", "\n\n\n", ";;;", "a;;b", "a\n;\nb",
		strings.Repeat("(", 2000) + "1" + strings.Repeat(")", 2000), strings.Repeat("[", 2000) + strings.Repeat("]", 2000), strings.Repeat("-", 3000) + "1",
		strings.Repeat("!", 3000) + "x", strings.Repeat("if true {\n", 500) + strings.Repeat("}\n", 500), "x = " + strings.Repeat("1 + ", 3000) + "1", strings.Repeat("a.", 2000) + "b",
		"x = [" + strings.Repeat("[", 1000) + strings.Repeat("]", 1000) + "]", strings.Repeat("{\"a\": ", 800) + "1" + strings.Repeat("}", 800)}
	for _, h := range hard {
		lexCase(e, h, "hard")
	}
}
