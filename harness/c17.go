package main

import (
	"math/rand"

	"github.com/GuanceCloud/platypus/pkg/token"
)

func init() {
	gens["C17"] = genC17
	replayers["lncol"] = func(e *emitter, c map[string]any) {
		offs := []int{}
		if rs, ok := c["res"].([]any); ok {
			for _, r := range rs {
				if a, ok := r.([]any); ok && len(a) > 0 {
					if f, ok := num(a[0]); ok {
						offs = append(offs, int(f))
					}
				}
			}
		}
		lookupCase(e, unhx(c["q"]), offs)
	}
}

func lookupCase(e *emitter, q string, offs []int) {
	c := token.NewPosCache(q)
	res := [][]int{}
	for _, p := range offs {
		r := c.LnCol(token.Pos(p))
		cl, cc := r.Ln, r.Col
		if r == token.InvalidLnColPos {
			cl, cc = -1, -1
		}
		ll, lc, err := token.LnCol(q, token.Pos(p))
		if err != nil {
			ll, lc = -1, -1
		}
		res = append(res, []int{p, cl, cc, ll, lc})
	}
	e.emit(map[string]any{"k": "lncol", "q": hx(q), "res": res})
}

func genC17(e *emitter, tier string, seed int64) {
	// exhaustive: all texts up to length L over {a, newline, é (2 bytes)} x all offsets -2..len+2
	L := 6
	if tier == "thorough" {
		L = 8
	}
	syms := []string{"a", "\n", "é"}
	var rec func(cur string, n int)
	rec = func(cur string, n int) {
		offs := []int{}
		for p := -2; p <= len(cur)+2; p++ {
			offs = append(offs, p)
		}
		lookupCase(e, cur, offs)
		e.stat("lncol_exhaustive")
		if n == L {
			return
		}
		for _, s := range syms {
			rec(cur+s, n+1)
		}
	}
	rec("", 0)
	// random byte strings, including invalid UTF-8, CR, NUL
	rng := rand.New(rand.NewSource(seed))
	N := 2000
	if tier == "thorough" {
		N = 50000
	}
	alpha := []byte{'a', '\n', '\n', '\r', 0, 0xc3, 0xa9, 0xff, 0x80, 0xe2, ' '}
	for i := 0; i < N; i++ {
		n := rng.Intn(40)
		b := make([]byte, n)
		for j := range b {
			b[j] = alpha[rng.Intn(len(alpha))]
		}
		offs := []int{-1, 0, n, n + 1, 1 << 40, -(1 << 40)}
		for j := 0; j < 6; j++ {
			offs = append(offs, rng.Intn(n+1))
		}
		lookupCase(e, string(b), offs)
		e.stat("lncol_random")
	}
}
