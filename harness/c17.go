package main

import (
	"encoding/json"
	"fmt"
	"math/rand"
	"reflect"
	"strings"

	"github.com/GuanceCloud/platypus/pkg/errchain"
	"github.com/GuanceCloud/platypus/pkg/token"
)

func init() {
	gens["C17"] = genC17
	replayers["lncol"] = func(e *emitter, c map[string]any) {
		offs := []int{}
		if rs, ok := c["res"].([]any); ok {
			for _, r := range rs {
				if a, ok := r.([]any); ok && len(a) > 0 {
					if f, ok := num(a[0]); ok {
						offs = append(offs, int(f))
					}
				}
			}
		}
		lookupCase(e, unhx(c["q"]), offs)
	}
}

func lookupCase(e *emitter, q string, offs []int) {
	c := token.NewPosCache(q)
	res := [][]int{}
	for _, p := range offs {
		r := c.LnCol(token.Pos(p))
		cl, cc := r.Ln, r.Col
		if r == token.InvalidLnColPos {
			cl, cc = -1, -1
		}
		ll, lc, err := token.LnCol(q, token.Pos(p))
		if err != nil {
			ll, lc = -1, -1
		}
		res = append(res, []int{p, cl, cc, ll, lc})
	}
	e.emit(map[string]any{"k": "lncol", "q": hx(q), "res": res})
}

func genC17(e *emitter, tier string, seed int64) {
	// exhaustive: all texts up to length L over {a, newline, é (2 bytes)} x all offsets -2..len+2
	L := 6
	if tier == "thorough" {
		L = 8
	}
	syms := []string{"a", "\n", "é"}
	var rec func(cur string, n int)
	rec = func(cur string, n int) {
		offs := []int{}
		for p := -2; p <= len(cur)+2; p++ {
			offs = append(offs, p)
		}
		lookupCase(e, cur, offs)
		e.stat("lncol_exhaustive")
		if n == L {
			return
		}
		for _, s := range syms {
			rec(cur+s, n+1)
		}
	}
	rec("", 0)
	// random byte strings, including invalid UTF-8, CR, NUL
	rng := rand.New(rand.NewSource(seed))
	N := 2000
	if tier == "thorough" {
		N = 50000
	}
	alpha := []byte{'a', '\n', '\n', '\r', 0, 0xc3, 0xa9, 0xff, 0x80, 0xe2, ' '}
	for i := 0; i < N; i++ {
		n := rng.Intn(40)
		b := make([]byte, n)
		for j := range b {
			b[j] = alpha[rng.Intn(len(alpha))]
		}
		offs := []int{-1, 0, n, n + 1, 1 << 40, -(1 << 40)}
		for j := 0; j < 6; j++ {
			offs = append(offs, rng.Intn(n+1))
		}
		lookupCase(e, string(b), offs)
		e.stat("lncol_random")
	}
	genC17Tree(e, tier, rng)
	genC17Err(e, tier, rng)
	genC17Link(e)
	genC17ErrV2(e)
	genC17Chain(e, tier, rng)
}

// run-time faults on the v2 interpreter: the error names the script and a position inside the statement at fault
func genC17ErrV2(e *emitter) {
	pre := "s = \"a\"\nl = [1, 2, 3]\nzero0 = 0\nf = 1.5\nm = {\"k\": 1}\n"
	for _, f := range []string{"x = l[:s]", "x = l[0:s]", "x = l[s:]", "x = l[::s]", "x = l[0:s:]", "x = \"abc\"[0:s]", "x = l[0:f]", "x = l[f:2:1]", "x = l[1 / zero0]", "x = 1 + s", "l[s] = 1",
		"x = undefinedname", "if s + 1 {\n}", "for q in 5 {\n}", "x = -s", "x = l[5]", "x = m[\"z\"][\"y\"][0]", "x = 1 in 5", "x = l[:zero0:zero0]", "x, y = 1", "x = a.b", "  x = [1, l[9]]", "p(1, 1 % zero0)", "l[0] += s"} {
		src := pre + "p(0)\n" + f + "\np(9)\n"
		at := len(pre) + len("p(0)\n")
		out := runV2(runCase{Scripts: []scriptSrc{{"main.p", src}}, Entry: "main.p", SigK: 3000, HasSig: true})
		obs, _ := out["obs"].(map[string]any)
		if obs == nil || obs["outcome"] != "err" {
			continue
		}
		e.stat("errpos-run-v2")
		e.emit(map[string]any{"k": "errpos", "src": hx(src), "file": hx("main.p"), "srcs": map[string]any{hx("main.p"): hx(src)}, "err": obs["err"], "span": lineSpan(src, at, at+len(f)), "gen": "errpos-run-v2", "key": f})
	}
}

// ---- positions stored in the tree: generated trees x layouts, judged on the dumped tree ----

func genC17Tree(e *emitter, tier string, rng *rand.Rand) {
	g := &tg{rng: rng}
	N := 600
	if tier == "thorough" {
		N = 20000
	}
	layouts := []string{"canon", "tight", "eol", "eol", "comment"}
	for i := 0; i < N; i++ {
		ss := []any{}
		for k := 1 + rng.Intn(3); k > 0; k-- {
			ss = append(ss, g.stmt(1+rng.Intn(4)))
		}
		lay := layouts[rng.Intn(len(layouts))]
		src := printProg(rng, ss, lay)
		if rng.Intn(6) == 0 {
			// text before the first statement is part of the source: a byte-order mark (an identifier rune
			// for the lexer), non-ASCII identifiers, comments - every offset counts from the first byte
			src = []string{"\ufeff", "\ufeffq = 1\n", "é = 1\n", "\ufeff# c\n", "# 注释\n\n"}[rng.Intn(5)] + src
		}
		res := parseTreeV1(src)
		if res["ast"] == nil {
			continue
		}
		e.stat("treepos/" + lay)
		e.emit(map[string]any{"k": "treepos", "src": hx(src), "ast": res["ast"], "gen": "treepos", "key": src})
	}
}

// ---- positions of errors: one injected load-time or run-time fault at a known place ----

// lineSpan: the byte range of the lines that hold s[a:b]
func lineSpan(s string, a, b int) []int {
	st := strings.LastIndex(s[:a], "\n") + 1
	en := strings.Index(s[b:], "\n")
	if en < 0 {
		en = len(s)
	} else {
		en += b + 1
	}
	return []int{st, en}
}

func genC17Err(e *emitter, tier string, rng *rand.Rand) {
	bases := []string{
		"x = @\n", "p(1)\nx = [1, @, 3]\n", "p(1)\n\nx = {\"k\": @}\n", "  x = (1 + @) * 2\n", "x = -@\np(2)\n", "x = 1 < @\n", "x = @ && true\n",
		"l = [1]\nx = l[@]\n", "l = [1]\nl[0] = @\n", "l = [1]\nx = l[@:]\n", "l = [1]\nx = l[::@]\n", "x = len(@)\n", "add_key(k, @)\n", "x = pr(1, @)\n",
		"if @ {\n  p(1)\n}\n", "if true {\n  p(1)\n} elif @ {\n  p(2)\n}\n", "if true {\n  x = @\n} else {\n  p(2)\n}\n", "if false {\n  p(1)\n} else {\n  x = @\n}\n",
		"for i = @; i < 2; i = i + 1 {\n  p(i)\n}\n", "for i = 0; @; i = i + 1 {\n  break\n}\n", "for i = 0; i < 2; i = i + 1 {\n  x = @\n}\n",
		"for x in @ {\n  p(x)\n}\n", "for x in [1] {\n  y = @\n}\n", "é = \"é\"\nfor x in [1] {\n  for y in [@] {\n    p(y)\n  }\n}\n",
		"\ufeffq = 1\nx = @\n", "\ufeffx = @\n", "名 = 2\nx = [名, @]\n",
		"#\n", "p(1)\nif true {\n  #\n}\n", "for x in [1] {\n  p(x)\n}\n#\n", "for i = 0; i < 1; i = i + 1 {\n}\n  #\n",
	}
	// (an in-expression as the offending operand: its start is the start of its left operand)
	loadOff := []string{"add_key(1 in l9)", "cast(zero0 in l9, \"int\")", "{1 in l9: 2}", "nosuch()", "nosuch(1, 2)", "len()", "len(1, 2)", "add_key()", "cast(k, \"nosuchtype\")", "pr(nosuch())", "[nosuch()]", "{1: 2}", "grok(_, \"%{NOSUCH:a}\")"}
	runOff := []string{"l9[1 in l9]", "l9[zero0 in l9:]", "l9[:\"a\" in \"ab\"]", "(1 / zero0)", "(\"a\" - 1)", "(\"a\" % 2)", "(zero0 % 0.0)", "undefl[0]", "(1 + [1])", "(nil * 2)", "l9[5]"}
	stmtLoad := []string{"break", "continue", "nosuch()", "x = nosuch()", "if nosuch() {\n}"}
	stmtRun := []string{"x = 1 / zero0", "l9[7] = 1", "x = \"a\" - 1"}
	emit := func(src, gen string, a, b int, errj any, file string, srcs map[string]string) {
		hs := map[string]any{}
		for k, v := range srcs {
			hs[hx(k)] = hx(v)
		}
		e.stat(gen)
		e.emit(map[string]any{"k": "errpos", "src": hx(src), "file": hx(file), "srcs": hs, "err": errj, "span": lineSpan(src, a, b), "gen": gen, "key": src})
	}
	// (round 8) one faulty text under several names: in one load, and in consecutive loads of one process —
	// each error names the script it was loaded as
	for _, t := range []string{"p(1)\nx = (1 + ]\n", "x = nosuch()\n", "p(1)\n\nx = \"abc\n", "for x in [1] {\n  break\n}\ncontinue\n", "y = 2\nx = {1: 2}\n"} {
		lines := strings.Split(t, "\n")
		// the statement at fault is on the last non-empty line
		last := len(lines) - 2
		a := len(strings.Join(lines[:last], "\n"))
		if last > 0 {
			a++
		}
		for _, names := range [][]string{{"m.p", "n.p"}, {"n.p", "m.p"}, {"first.p"}, {"second.p"}, {"lib/first.p", "first.p"}} {
			scs := []scriptSrc{}
			for _, n := range names {
				scs = append(scs, scriptSrc{n, t})
			}
			// (the real loader, engine.ParseScript: its errors by script name)
			out := loadV1(loadCase{Scripts: scs, Order: names, Reps: 2})
			if reals, ok := out["real"].([]any); ok {
				for _, r := range reals {
					rm, _ := r.(map[string]any)
					em, _ := rm["errors"].(map[string]any)
					for hn, ej := range em {
						name := unhexs(hn)
						emit(t, "errpos-same-text", a, a+len(lines[last]), ej, name, map[string]string{name: t})
					}
				}
			}
		}
	}
	for _, b := range bases {
		mark, lo, ro := "@", loadOff, runOff
		if strings.Contains(b, "#") {
			mark, lo, ro = "#", stmtLoad, stmtRun
		}
		at := strings.Index(b, mark)
		for _, o := range lo {
			src := strings.Replace(b, mark, o, 1)
			out := loadV1(loadCase{Scripts: []scriptSrc{{"a.p", src}}, Order: []string{"a.p"}})
			if scs, ok := out["scripts"].([]any); ok && len(scs) == 1 {
				rec, _ := scs[0].(map[string]any)
				var ej any
				if rec["check_err"] != nil {
					ej = rec["check_err"]
				} else if rec["parse_err"] != nil {
					ej = rec["parse_err"]
				}
				if ej != nil {
					emit(src, "errpos-load", at, at+len(o), ej, "a.p", map[string]string{"a.p": src})
				}
			}
		}
		for _, o := range ro {
			src := "zero0 = 0\nl9 = [1]\n" + strings.Replace(b, mark, o, 1)
			at2 := at + len("zero0 = 0\nl9 = [1]\n")
			// directly, and through use() from a caller (the chain then has the call site as well)
			for _, via := range []bool{false, true} {
				scripts := []scriptSrc{{"a.p", src}}
				entry := "a.p"
				srcs := map[string]string{"a.p": src}
				if via {
					caller := "p(0)\n\n  use(\"a.p\")\np(9)\n"
					scripts = append(scripts, scriptSrc{"m.p", caller})
					entry = "m.p"
					srcs["m.p"] = caller
				}
				out := runV1(runCase{Scripts: scripts, Entry: entry, Point: pointSpec{Meas: "m", Time: 1}, HasSig: true, SigK: 3000})
				if obs, ok := out["obs"].(map[string]any); ok && obs["outcome"] == "err" {
					emit(src, "errpos-run", at2, at2+len(o), obs["err"], "a.p", srcs)
				}
				// the same run against the interpreter model: the whole chain (files, offsets, lines, columns)
				// is the model's - the chain the located-error theorems (C17Runtime) speak of
				out["gen"], out["key"], out["strict"] = "errpos-run-model", src, true
				e.stat("errpos-run-model")
				e.emit(out)
			}
		}
	}
}

// link-time faults: the error of the script being linked starts at its own call site that leads
// to the fault (a cycle through its second use(), a missing script behind a good one)
func genC17Link(e *emitter) {
	type lk struct {
		scripts []scriptSrc
		root    string
		needle  string // the use() call at fault in the root script
	}
	cases := []lk{
		{[]scriptSrc{{"a.p", "use(\"x.p\")\n\n  use(\"b.p\")\np(1)\n"}, {"b.p", "p(2)\nuse(\"a.p\")\n"}, {"x.p", "p(0)\n"}}, "a.p", "use(\"b.p\")"},
		{[]scriptSrc{{"a.p", "p(1)\nuse(\"x.p\")\nif true {\n  use(\"nosuch.p\")\n}\n"}, {"x.p", "p(0)\n"}}, "a.p", "use(\"nosuch.p\")"},
		{[]scriptSrc{{"a.p", "use(\"x.p\")\nuse(\"c.p\")\n"}, {"c.p", "p(3)\n  use(\"d.p\")\n"}, {"d.p", "use(\"c.p\")\n"}, {"x.p", "p(0)\n"}}, "a.p", "use(\"c.p\")"},
		{[]scriptSrc{{"a.p", "use(\"x.p\")\nuse(\"bad.p\")\n"}, {"bad.p", "p(1)\n x = [len(len(nosuch()))]\n"}, {"x.p", "p(0)\n"}}, "bad.p", "nosuch()"},
	}
	// the error a script inherits from a script it reaches through two and three use() calls: the chain names
	// the script of every call site (each position is one of its own file)
	type far struct {
		scripts []scriptSrc
		errOf   string // the script whose load error is inspected
		fault   string // the script at fault
		needle  string
	}
	for _, c := range []far{
		{[]scriptSrc{{"a.p", "p(0)\nuse(\"b.p\")\n"}, {"b.p", "p(1)\n\n\n    use(\"c.p\")\n"}, {"c.p", "p(2)\nnosuch(1)\n"}}, "a.p", "c.p", "nosuch(1)"},
		{[]scriptSrc{{"a.p", "use(\"b.p\")\n"}, {"b.p", "if true {\n  use(\"c.p\")\n}\n"}, {"c.p", "p(2)\n  x = 1 1\np(3)\n"}}, "a.p", "c.p", "x = 1 1"},
		{[]scriptSrc{{"r.p", "p(0)\n  use(\"a.p\")\n"}, {"a.p", "use(\"b.p\")\n"}, {"b.p", "\n\nuse(\"c.p\")\n"}, {"c.p", "for x in [1] {\n  len()\n}\n"}}, "r.p", "c.p", "len()"},
		{[]scriptSrc{{"a.p", "use(\"b.p\")\n"}, {"b.p", "p(1)\n        use(\"c.p\")\n"}, {"c.p", "p(2)\nnosuch(1)\n"}}, "b.p", "c.p", "nosuch(1)"},
	} {
		order := []string{}
		srcs := map[string]string{}
		for _, s := range c.scripts {
			order = append(order, s.Name)
			srcs[s.Name] = s.Src
		}
		for _, ord := range perms(order) {
			out := loadV1(loadCase{Scripts: c.scripts, Order: ord})
			hook, _ := out["hook"].(map[string]any)
			errs, _ := hook["errors"].(map[string]any)
			ej := errs[hx(c.errOf)]
			if ej == nil {
				continue
			}
			src := srcs[c.fault]
			at := strings.Index(src, c.needle)
			hs := map[string]any{}
			for k, v := range srcs {
				hs[hx(k)] = hx(v)
			}
			e.stat("errpos-link-far")
			e.emit(map[string]any{"k": "errpos", "src": hx(src), "file": hx(c.fault), "srcs": hs, "err": ej, "span": lineSpan(src, at, at+len(c.needle)), "gen": "errpos-link-far", "key": fmt.Sprint(c.errOf, ord)})
		}
	}
	for _, c := range cases {
		order := []string{}
		srcs := map[string]string{}
		for _, s := range c.scripts {
			order = append(order, s.Name)
			srcs[s.Name] = s.Src
		}
		for _, ord := range perms(order) {
			out := loadV1(loadCase{Scripts: c.scripts, Order: ord})
			hook, _ := out["hook"].(map[string]any)
			errs, _ := hook["errors"].(map[string]any)
			ej := errs[hx(c.root)]
			if ej == nil {
				continue
			}
			src := srcs[c.root]
			at := strings.Index(src, c.needle)
			hs := map[string]any{}
			for k, v := range srcs {
				hs[hx(k)] = hx(v)
			}
			e.stat("errpos-link")
			e.emit(map[string]any{"k": "errpos", "src": hx(src), "file": hx(c.root), "srcs": hs, "err": ej, "span": lineSpan(src, at, at+len(c.needle)), "gen": "errpos-link", "key": fmt.Sprint(c.root, ord)})
		}
	}
}

// ---- error chain objects: operation sequences with copies ----

type chainOp struct {
	Op   string `json:"op"`
	H    int    `json:"h"`
	File string `json:"file"`
	Ln   int    `json:"ln"`
	Col  int    `json:"col"`
	Pos  int    `json:"pos"`
	Msg  string `json:"msg"`
}

func runChainOps(e *emitter, ops []chainOp, gen string, key ...string) {
	hs := []*errchain.PlError{}
	snaps := []any{}
	for _, o := range ops {
		lp := token.LnColPos{Pos: token.Pos(o.Pos), Ln: o.Ln, Col: o.Col}
		switch o.Op {
		case "new":
			hs = append(hs, errchain.NewErr(unhx(o.File), lp, unhx(o.Msg)))
		case "append":
			hs[o.H].ChainAppend(unhx(o.File), lp)
		case "copy":
			hs = append(hs, hs[o.H].Copy())
		}
		snap := []any{}
		for _, h := range hs {
			d := dumpErr(h)
			d["msg"] = hx(h.Err)
			d["text"] = hx(h.Error())
			rt := false
			if b, err := json.Marshal(h); err == nil {
				var back errchain.PlError
				if json.Unmarshal(b, &back) == nil {
					rt = reflect.DeepEqual(&back, h)
				}
			}
			d["json_rt"] = rt
			snap = append(snap, d)
		}
		snaps = append(snaps, snap)
	}
	e.stat(gen)
	k := fmt.Sprint(ops)
	if len(key) > 0 {
		k = key[0]
	}
	e.emit(map[string]any{"k": "chainops", "ops": ops, "snaps": snaps, "gen": gen, "key": k})
}

func genC17Chain(e *emitter, tier string, rng *rand.Rand) {
	files := []string{"a.p", "dir/b.p", "é.p"}
	mkPos := func(i int) chainOp {
		return chainOp{File: hx(files[i%len(files)]), Ln: 1 + i, Col: 1 + 2*i, Pos: 10 * i}
	}
	// chains of 1..4 positions, then every sequence of up to 3 further operations (append through any handle, copy of any handle)
	depth := 3
	if tier == "thorough" {
		depth = 4
	}
	// (the message is text, never a format: percent signs, verbs and line breaks come out as they went in)
	msgs := []string{"boom: x", "unsupported operand type(s) for %: str and int", "100%", "%d %s %v %!", "%%", "a: b\nc %"}
	for base := 1; base <= 4; base++ {
		start := []chainOp{{Op: "new", File: hx("a.p"), Ln: 1, Col: 1, Pos: 0, Msg: hx(msgs[(base-1)%len(msgs)])}}
		for i := 1; i < base; i++ {
			o := mkPos(i)
			o.Op, o.H = "append", 0
			start = append(start, o)
		}
		var rec func(ops []chainOp, handles, d int)
		rec = func(ops []chainOp, handles, d int) {
			runChainOps(e, ops, "chain-exhaustive")
			if d == 0 {
				return
			}
			for h := 0; h < handles; h++ {
				o := mkPos(len(ops) + 3)
				o.Op, o.H = "append", h
				rec(append(append([]chainOp{}, ops...), o), handles, d-1)
				rec(append(append([]chainOp{}, ops...), chainOp{Op: "copy", H: h}), handles+1, d-1)
			}
		}
		rec(start, 1, depth)
	}
	// a message that is not valid UTF-8 (an identifier with a raw 0xFF byte, a name spelled with \xfe):
	// recorded finding - the JSON form cannot carry the byte
	for _, m := range []string{"unsupported func: `a\xffb`", "script \xfe.p not found"} {
		runChainOps(e, []chainOp{{Op: "new", File: hx("a.p"), Ln: 1, Col: 1, Pos: 0, Msg: hx(m)}, {Op: "append", H: 0, File: hx("m.p"), Ln: 2, Col: 3, Pos: 7}}, "chain-message-bytes", "c17:message-not-utf8-json-round-trip")
	}
	N := 300
	if tier == "thorough" {
		N = 20000
	}
	for i := 0; i < N; i++ {
		ops := []chainOp{{Op: "new", File: hx(files[rng.Intn(3)]), Ln: 1 + rng.Intn(5), Col: 1 + rng.Intn(80), Pos: rng.Intn(500), Msg: hx(append([]string{"m", "a: b\nc", ""}, msgs...)[rng.Intn(3+len(msgs))])}}
		handles := 1
		for k := 2 + rng.Intn(12); k > 0; k-- {
			switch rng.Intn(5) {
			case 0:
				o := mkPos(rng.Intn(50))
				o.Op, o.Msg = "new", hx([]string{"other", "50% of %s"}[rng.Intn(2)])
				ops = append(ops, o)
				handles++
			case 1, 2:
				ops = append(ops, chainOp{Op: "copy", H: rng.Intn(handles)})
				handles++
			default:
				o := mkPos(rng.Intn(50))
				o.Op, o.H = "append", rng.Intn(handles)
				ops = append(ops, o)
			}
		}
		runChainOps(e, ops, "chain-random")
	}
}
