package main

// Engine oracle: answers the model's queries by calling the real libraries directly
// (not through platypus).  Queries and answers are byte strings; answers are "ok:<hex>" or "err:<text>".

import (
	"bufio"
	"encoding/hex"
	"encoding/json"
	"fmt"
	"net/url"
	"os"
	"regexp"
	"strconv"
	"strings"
	"time"

	"github.com/DataDog/datadog-agent/pkg/obfuscate"
	"github.com/GuanceCloud/grok"
	"github.com/GuanceCloud/platypus/pkg/inimpl/guancecloud/funcs"
	"github.com/antchfx/xmlquery"
	"github.com/antchfx/xpath"
	"github.com/araddon/dateparse"
	conv "github.com/spf13/cast"
)

var grokGlobal = grok.CopyDenormalizedDefalutPatterns()

func oracleMain() {
	sc := bufio.NewScanner(os.Stdin)
	sc.Buffer(make([]byte, 1<<20), 1<<26)
	w := bufio.NewWriter(os.Stdout)
	defer w.Flush()
	for sc.Scan() {
		qb, err := hex.DecodeString(strings.TrimSpace(sc.Text()))
		if err != nil {
			fmt.Fprintln(w, hex.EncodeToString([]byte("err:bad-hex")))
			continue
		}
		fmt.Fprintln(w, hex.EncodeToString([]byte(answer(string(qb)))))
	}
}

func okHex(s string) string { return "ok:" + hex.EncodeToString([]byte(s)) }

func answer(q string) (res string) {
	defer func() {
		if r := recover(); r != nil {
			res = "err:panic " + fmt.Sprint(r)
		}
	}()
	i := strings.IndexByte(q, ':')
	if i < 0 {
		return "err:no-engine"
	}
	eng, arg := q[:i], q[i+1:]
	switch eng {
	case "fmtf":
		u, err := strconv.ParseUint(arg, 10, 64)
		if err != nil {
			return "err:bits"
		}
		return okHex(strconv.FormatFloat(bitsFloat(u), 'f', -1, 64))
	case "json":
		p := &vparser{s: arg}
		v := p.value(nil)
		if p.bad {
			return "err:render-syntax"
		}
		b, err := json.Marshal(v)
		if err != nil {
			return "err:" + err.Error()
		}
		return okHex(string(b))
	case "cast":
		j := strings.IndexByte(arg, ':')
		if j < 0 {
			return "err:cast-syntax"
		}
		if r := arg[j+1:]; strings.HasPrefix(r, "[") || strings.HasPrefix(r, "{") {
			// the conversion package converts no list or map: the zero value of the target type
			// (also for a value that contains itself, which has no finite rendering)
			switch arg[:j] {
			case "bool":
				return okHex(render(false))
			case "int":
				return okHex(render(int64(0)))
			case "float":
				return okHex(render(float64(0)))
			case "str":
				return okHex(render(""))
			}
			return "err:cast-kind"
		}
		p := &vparser{s: arg[j+1:]}
		v := p.value(nil)
		if p.bad {
			return "err:render-syntax"
		}
		switch arg[:j] {
		case "bool":
			return okHex(render(conv.ToBool(v)))
		case "int":
			return okHex(render(conv.ToInt64(conv.ToFloat64(v))))
		case "float":
			return okHex(render(conv.ToFloat64(v)))
		case "str":
			return okHex(render(conv.ToString(v)))
		}
		return "err:cast-kind"
	case "trim":
		a := strings.SplitN(arg, ":", 2)
		if len(a) != 2 {
			return "err:syntax"
		}
		cut, cont := unhexs(a[0]), unhexs(a[1])
		if cut == "" {
			return okHex(strings.TrimSpace(cont))
		}
		return okHex(strings.Trim(cont, cut))
	case "upper":
		return okHex(strings.ToUpper(unhexs(arg)))
	case "urldecode":
		r, err := url.QueryUnescape(unhexs(arg))
		if err != nil {
			return "err:" + err.Error()
		}
		return okHex(r)
	case "regexcompile":
		if _, err := regexp.Compile(unhexs(arg)); err != nil {
			return "err:" + err.Error()
		}
		return okHex("")
	case "regexreplace":
		a := strings.SplitN(arg, ":", 3)
		if len(a) != 3 {
			return "err:syntax"
		}
		re, err := regexp.Compile(unhexs(a[0]))
		if err != nil {
			return "err:" + err.Error()
		}
		return okHex(re.ReplaceAllString(unhexs(a[2]), unhexs(a[1])))
	case "jsonload":
		var m any
		if err := json.Unmarshal([]byte(unhexs(arg)), &m); err != nil {
			return "err:" + err.Error()
		}
		return okHex(render(m))
	case "grokdenorm", "grokcompile", "grokrun":
		// arg: <defs> ':' <hexpattern> [ ':' t|f ':' <hexsubject> ]   defs: hexalias=hexpattern, ...
		parts := strings.Split(arg, ":")
		if len(parts) < 2 {
			return "err:syntax"
		}
		local := map[string]*grok.GrokPattern{}
		storage := grok.PatternStorage{local, grokGlobal}
		if parts[0] != "" {
			for _, d := range strings.Split(strings.TrimSuffix(parts[0], ","), ",") {
				kv := strings.SplitN(d, "=", 2)
				if len(kv) != 2 {
					return "err:defs-syntax"
				}
				gp, err := grok.DenormalizePattern(unhexs(kv[1]), storage)
				if err != nil {
					return "err:def " + err.Error()
				}
				local[unhexs(kv[0])] = gp
			}
		}
		pat := unhexs(parts[1])
		if eng == "grokdenorm" {
			if _, err := grok.DenormalizePattern(pat, storage); err != nil {
				return "err:" + err.Error()
			}
			return okHex("")
		}
		re, err := grok.CompilePattern(pat, storage)
		if err != nil {
			return "err:" + err.Error()
		}
		if eng == "grokcompile" {
			return okHex("")
		}
		if len(parts) != 4 {
			return "err:syntax"
		}
		m, _, err := re.RunWithTypeInfo(unhexs(parts[3]), parts[2] == "t")
		if err != nil {
			return "err:" + err.Error()
		}
		mm := map[string]any{}
		for k, v := range m {
			switch v.(type) {
			case nil, int64, float64, string, bool:
				mm[k] = v
			}
		}
		return okHex(render(mm))
	case "datefmt":
		a := strings.SplitN(arg, ":", 3)
		if len(a) != 3 {
			return "err:syntax"
		}
		p := &vparser{s: a[0]}
		v := p.value(nil)
		if p.bad {
			return "err:render-syntax"
		}
		// the time engine on its own (Go's time package through the documented template names and
		// precisions), not the repository's DateFormatHandle: that glue is code under test
		switch v.(type) {
		case []any, map[string]any:
			// (not handed to the conversion package: its error text formats the value, which never ends
			// for a value that contains itself)
			return "err:not-an-integer"
		}
		n, err := conv.ToInt64E(v)
		if err != nil {
			return "err:not-an-integer"
		}
		var t time.Time
		switch unhexs(a[1]) {
		case "s":
			t = time.Unix(n, 0)
		case "ms":
			t = time.UnixMilli(n) // (the instant n milliseconds after the epoch, for every int64 n)
		default:
			return "err:precision"
		}
		layout, ok := map[string]string{"ANSIC": time.ANSIC, "UnixDate": time.UnixDate, "RubyDate": time.RubyDate, "RFC822": time.RFC822,
			"RFC822Z": time.RFC822Z, "RFC850": time.RFC850, "RFC1123": time.RFC1123, "RFC1123Z": time.RFC1123Z, "RFC3339": time.RFC3339,
			"RFC3339Nano": time.RFC3339Nano, "Kitchen": time.Kitchen}[unhexs(a[2])]
		if !ok {
			return "err:format"
		}
		return okHex(t.Format(layout))
	case "timestamp":
		a := strings.SplitN(arg, ":", 2)
		if len(a) != 2 {
			return "err:syntax"
		}
		tz, val := unhexs(a[0]), unhexs(a[1])
		// a named zone is resolved by Go's zone database alone (not through the repository's tables)
		named := tz != "" && tz[0] != '+' && tz[0] != '-'
		var loc *time.Location
		if named {
			l, lerr := time.LoadLocation(tz)
			if lerr != nil {
				return "err:" + hex.EncodeToString([]byte(lerr.Error()))
			}
			loc = l
		}
		// the documented house layouts (fn.md / handle.go descriptions), then the general parser, asked
		// directly when the zone needs no table (default or named zone)
		direct := func(val string, l *time.Location) (int64, error) {
			for _, hl := range []struct {
				f    string
				year bool
			}{{"02/Jan/2006:15:04:05 -0700", false}, {"02 Jan 2006 15:04:05.000", false}, {"02 Jan 15:04:05.000 2006", true}, {"060102 15:04:05", false},
				{"2006/01/02 - 15:04:05", false}, {"Mon Jan 2 15:04:05.000000 2006", false}, {"2006-01-02 15:04:05.000 UTC", false}} {
				v := val
				if hl.year {
					v = fmt.Sprintf("%s %d", val, time.Now().Year())
				}
				if tm, perr := time.ParseInLocation(hl.f, v, l); perr == nil {
					return tm.UnixNano(), nil
				}
			}
			tm, perr := dateparse.ParseIn(val, l)
			if perr != nil {
				return 0, perr
			}
			return tm.UnixNano(), nil
		}
		if tz == "" || named {
			l := time.Local
			if named {
				l = loc
			}
			n, err := direct(val, l)
			if err != nil {
				return "err:" + hex.EncodeToString([]byte(err.Error()))
			}
			if named {
				// a spelling without a zone of its own (its value moves with the zone argument) denotes that
				// wall-clock time in the named zone: recompute it from the zone-less reading
				tokyo, _ := time.LoadLocation("Asia/Tokyo")
				n0, e0 := direct(val, time.Local)
				nT, eT := direct(val, tokyo)
				if tokyo != nil && e0 == nil && eT == nil && n0 != nT {
					w := time.Unix(0, n0).In(time.Local)
					n = time.Date(w.Year(), w.Month(), w.Day(), w.Hour(), w.Minute(), w.Second(), w.Nanosecond(), loc).UnixNano()
				}
			}
			return okHex(strconv.FormatInt(n, 10))
		}
		// a numeric offset goes through the repository's zone table
		n, err := funcs.TimestampHandle(val, tz)
		if err != nil {
			return "err:" + hex.EncodeToString([]byte(err.Error()))
		}
		return okHex(strconv.FormatInt(n, 10))
	case "xml":
		a := strings.SplitN(arg, ":", 2)
		if len(a) != 2 {
			return "err:syntax"
		}
		doc, err := xmlquery.Parse(strings.NewReader(unhexs(a[1])))
		if err != nil {
			return "err:parse"
		}
		// compiled for this query (xmlquery's process-wide cache of compiled expressions shares iterator state
		// between evaluations of a parenthesised node set: an engine answer must not depend on earlier questions)
		compiled, err := xpath.Compile(unhexs(a[0]))
		if err != nil {
			return "err:query"
		}
		dest := xmlquery.QuerySelector(doc, compiled)
		if dest == nil {
			return "err:query"
		}
		return okHex(dest.InnerText())
	case "sql":
		o := obfuscate.NewObfuscator(obfuscate.Config{})
		oq, err := o.ObfuscateSQLString(unhexs(arg))
		if err != nil {
			return "err:sql"
		}
		return okHex(oq.Query)
	case "parsefloats":
		out := []string{}
		for _, h := range strings.Split(strings.TrimSuffix(arg, ","), ",") {
			f, err := strconv.ParseFloat(unhexs(h), 64)
			if err != nil && !strings.Contains(err.Error(), "out of range") {
				out = append(out, "err")
			} else if err != nil {
				out = append(out, "err")
			} else {
				out = append(out, fbits(f))
			}
		}
		return okHex(strings.Join(out, ","))
	case "sprintf":
		j := strings.IndexByte(arg, ':')
		if j < 0 {
			return "err:syntax"
		}
		f := unhexs(arg[:j])
		vals := []any{}
		for _, r := range strings.Split(arg[j+1:], ";") {
			if r == "" {
				continue
			}
			p := &vparser{s: r}
			v := p.value(nil)
			if p.bad {
				return "err:render-syntax"
			}
			if strings.Contains(r, "^") {
				// a value that contains itself has no finite text (strings are rendered in hexadecimal:
				// the marker cannot be part of one)
				return "err:contains-itself"
			}
			vals = append(vals, v)
		}
		return okHex(fmt.Sprintf(f, vals...))
	}
	return "err:unknown-engine " + eng
}

func unhexs(s string) string {
	b, _ := hex.DecodeString(s)
	return string(b)
}

// parser of the canonical rendering (render.go / Render.lean), rebuilding cycles
type vparser struct {
	s   string
	i   int
	bad bool
}

type cont struct {
	list *[]any
	m    map[string]any
}

func (p *vparser) peek() byte {
	if p.i < len(p.s) {
		return p.s[p.i]
	}
	return 0
}

func (p *vparser) num() string {
	j := p.i
	for j < len(p.s) && (p.s[j] == '-' || (p.s[j] >= '0' && p.s[j] <= '9')) {
		j++
	}
	r := p.s[p.i:j]
	p.i = j
	return r
}

func (p *vparser) hexs() string {
	j := p.i
	for j < len(p.s) && ((p.s[j] >= '0' && p.s[j] <= '9') || (p.s[j] >= 'a' && p.s[j] <= 'f')) {
		j++
	}
	b, err := hex.DecodeString(p.s[p.i:j])
	if err != nil {
		p.bad = true
	}
	p.i = j
	return string(b)
}

// path: enclosing containers, innermost last
func (p *vparser) value(path []cont) any {
	switch c := p.peek(); c {
	case 'n':
		p.i++
		return nil
	case 't':
		p.i++
		return true
	case 'f':
		p.i++
		return false
	case 'i':
		p.i++
		v, err := strconv.ParseInt(p.num(), 10, 64)
		if err != nil {
			p.bad = true
		}
		return v
	case 'd':
		p.i++
		u, err := strconv.ParseUint(p.num(), 10, 64)
		if err != nil {
			p.bad = true
		}
		return bitsFloat(u)
	case 's':
		p.i++
		return p.hexs()
	case '^':
		p.i++
		k, err := strconv.Atoi(p.num())
		if err != nil || k >= len(path) {
			p.bad = true
			return nil
		}
		c := path[len(path)-1-k]
		if c.m != nil {
			return c.m
		}
		return *c.list // filled in place below: same backing array
	case '[':
		p.i++
		// count elements first so that the backing array never moves
		n := p.countElems()
		lst := make([]any, n)
		np := append(append([]cont{}, path...), cont{list: &lst})
		for k := 0; k < n; k++ {
			lst[k] = p.value(np)
			if p.peek() == ',' {
				p.i++
			}
		}
		if p.peek() != ']' {
			p.bad = true
		}
		p.i++
		return lst
	case '{':
		p.i++
		m := map[string]any{}
		np := append(append([]cont{}, path...), cont{m: m})
		for p.peek() != '}' && p.i < len(p.s) && !p.bad {
			k := p.hexs()
			if p.peek() != ':' {
				p.bad = true
				break
			}
			p.i++
			m[k] = p.value(np)
			if p.peek() == ',' {
				p.i++
			}
		}
		p.i++
		return m
	}
	p.bad = true
	return nil
}

// number of top-level elements of the list starting at p.i (after '[')
func (p *vparser) countElems() int {
	depth := 0
	n := 0
	any := false
	for j := p.i; j < len(p.s); j++ {
		switch p.s[j] {
		case '[', '{':
			depth++
			any = true
		case ']', '}':
			if depth == 0 {
				if any {
					n++
				}
				return n
			}
			depth--
		case ',':
			if depth == 0 {
				n++
			}
		default:
			any = true
		}
	}
	return n
}
