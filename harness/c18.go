package main

import (
	"encoding/json"
	"fmt"
	"github.com/GuanceCloud/platypus/pkg/parser"
	"math/rand"
	"runtime/debug"
	"strings"

	"github.com/GuanceCloud/platypus/pkg/ast"
	"github.com/GuanceCloud/platypus/pkg/engine"
	"github.com/GuanceCloud/platypus/pkg/engine/runtimev2"
	"github.com/GuanceCloud/platypus/pkg/errchain"
)

func init() {
	gens["C18"] = genC18
	workerKinds["runV2"] = func(raw json.RawMessage) map[string]any {
		var rc runCase
		json.Unmarshal(raw, &rc)
		return runV2Direct(rc)
	}
	replayers["run2"] = func(e *emitter, c map[string]any) {
		rc := runCase{}
		if ss, ok := c["scripts"].([]any); ok {
			for _, s := range ss {
				m, _ := s.(map[string]any)
				rc.Scripts = append(rc.Scripts, scriptSrc{unhx(m["name"]), unhx(m["src"])})
			}
		}
		rc.Entry = unhx(c["entry"])
		if k, ok := num(c["sigk"]); ok {
			rc.SigK = int(k)
		}
		rc.HasSig, _ = c["hassig"].(bool)
		out := runV2(rc)
		for _, k := range []string{"strict", "key", "gen", "v1"} {
			if v, ok := c[k]; ok {
				out[k] = v
			}
		}
		e.emit(out)
	}
}

type v2rec struct{ events [][]string }

func v2Fns(rec *v2rec) map[string]*runtimev2.Fn {
	evalArgs := func(ctx *runtimev2.Task, expr *ast.CallExpr) ([]runtimev2.V, *errchain.PlError) {
		vals := []runtimev2.V{}
		for _, p := range expr.Param {
			if err := runtimev2.RunExpr(ctx, p); err != nil {
				return nil, err
			}
			v, errReg := ctx.Regs.GetRet()
			if errReg != nil {
				return nil, runtimev2.NewRunError(ctx, errReg.Error(), p.StartPos())
			}
			vals = append(vals, v)
		}
		return vals, nil
	}
	mk := func(name string) *runtimev2.Fn {
		return &runtimev2.Fn{
			CallCheck: func(ctx *runtimev2.Task, expr *ast.CallExpr) *errchain.PlError { return nil },
			Call: func(ctx *runtimev2.Task, expr *ast.CallExpr) *errchain.PlError {
				vals, err := evalArgs(ctx, expr)
				if err != nil {
					return err
				}
				ev := []string{name}
				for _, x := range vals {
					ev = append(ev, x.T.String()+"="+render(x.V))
				}
				if name != "len" { // len is a pure helper: not an observable event
					rec.events = append(rec.events, ev)
				}
				switch name {
				case "pr":
					if len(vals) > 0 {
						ctx.Regs.ReturnAppend(vals[0])
					} else {
						ctx.Regs.ReturnAppend()
					}
				case "multi":
					if len(vals) > 2 {
						vals = vals[:2]
					}
					ctx.Regs.ReturnAppend(vals...)
				case "len":
					n := int64(0)
					if len(vals) > 0 {
						switch x := vals[0].V.(type) {
						case string:
							if vals[0].T == ast.String {
								n = int64(len(x))
							}
						case []any:
							n = int64(len(x))
						case map[string]any:
							n = int64(len(x))
						}
					}
					ctx.Regs.ReturnAppend(runtimev2.V{V: n, T: ast.Int})
				default:
					ctx.Regs.ReturnAppend()
				}
				return nil
			},
			Desc: runtimev2.FnDesc{Name: name},
		}
	}
	// `none(...)`: a host function written with the library's own parameter API (CheckPassParam /
	// GetParam) that reads its arguments and returns nothing (it never touches the registers itself)
	noneParams := []*runtimev2.Param{{Name: "r", Variable: true}}
	none := &runtimev2.Fn{
		CallCheck: func(ctx *runtimev2.Task, expr *ast.CallExpr) *errchain.PlError {
			return runtimev2.CheckPassParam(ctx, expr, noneParams)
		},
		Call: func(ctx *runtimev2.Task, expr *ast.CallExpr) *errchain.PlError {
			v, err := runtimev2.GetParam(ctx, expr, noneParams, 0)
			if err != nil {
				return err
			}
			ev := []string{"none"}
			if l, ok := v.([]any); ok {
				for _, x := range l {
					ev = append(ev, goDType(x)+"="+render(x))
				}
			}
			rec.events = append(rec.events, ev)
			return nil
		},
		Desc: runtimev2.FnDesc{Name: "none", Params: noneParams},
	}
	return map[string]*runtimev2.Fn{"p": mk("p"), "pr": mk("pr"), "void": mk("void"), "multi": mk("multi"), "len": mk("len"), "none": none}
}

func runV2Direct(rc runCase) map[string]any {
	res := caseHeader(rc)
	res["k"] = "run2"
	src := ""
	for _, s := range rc.Scripts {
		if s.Name == rc.Entry {
			src = s.Src
		}
	}
	rec := &v2rec{events: [][]string{}}
	fns := v2Fns(rec)
	names := []string{}
	for k := range fns {
		names = append(names, hx(k))
	}
	res["fns"] = names
	s, err := engine.ParseV2(rc.Entry, src, fns)
	if err != nil {
		res["asts"] = map[string]any{}
		// rejected by the check pass (the text parses): hand the tree over so that the model's
		// check pass can be asked about it
		if stmts, perr := parser.ParsePipeline(rc.Entry, src); perr == nil {
			res["asts"] = map[string]any{hx(rc.Entry): newDumper().nodes(stmts)}
			res["check_rejected"] = true
		}
		if pe, ok := err.(*errchain.PlError); ok {
			res["loaderrs"] = map[string]any{hx(rc.Entry): dumpErr(pe)}
		} else {
			res["loaderrs"] = map[string]any{hx(rc.Entry): map[string]any{"chain": []any{}, "msg": err.Error()}}
		}
		res["obs"] = map[string]any{"outcome": "notloaded"}
		return res
	}
	d := newDumper()
	res["asts"] = map[string]any{hx(rc.Entry): d.nodes(s.Stmts)}
	res["loaderrs"] = map[string]any{}
	obs := map[string]any{}
	func() {
		defer func() {
			if r := recover(); r != nil {
				obs["outcome"] = "panic"
				obs["panic"] = fmt.Sprint(r)
				obs["stack"] = string(debug.Stack())
			}
		}()
		var sg runtimev2.Signal
		var sgp *sig
		if rc.HasSig {
			sgp = &sig{k: rc.SigK}
			sg = sgp
		}
		if rerr := s.Run(sg); rerr != nil {
			obs["outcome"] = "err"
			obs["err"] = dumpErr(rerr)
		} else {
			obs["outcome"] = "ok"
		}
		if sgp != nil {
			obs["polls"] = sgp.n
		}
	}()
	obs["trace"] = rec.events
	obs["stdout"] = ""
	res["obs"] = obs
	return res
}

func runV2(rc runCase) map[string]any {
	if inWorker {
		return runV2Direct(rc)
	}
	raw, _ := json.Marshal(rc)
	m, death := callWorker(workerReq{Kind: "runV2", Raw: raw})
	if death == "" {
		return m
	}
	res := caseHeader(rc)
	res["k"] = "run2"
	res["obs"] = map[string]any{"outcome": death}
	res["asts"] = map[string]any{}
	res["fns"] = []string{}
	res["loaderrs"] = map[string]any{}
	return res
}

func emitV2(e *emitter, src string, sigK int, gen string) map[string]any {
	out := runV2(runCase{Scripts: []scriptSrc{{"main.p", src}}, Entry: "main.p", SigK: sigK, HasSig: true})
	out["gen"] = gen
	out["key"] = src
	out["strict"] = true
	if obs, ok := out["obs"].(map[string]any); ok {
		e.stat(gen + ":" + fmt.Sprint(obs["outcome"]))
	}
	e.emit(out)
	return out
}

func genC18(e *emitter, tier string, seed int64) {
	rng := rand.New(rand.NewSource(seed))
	// constructs that yield no value (or several) in every consuming position
	noval := []string{"void()", "a.b", "nosuchfn_unregistered"}
	_ = noval
	valueless := []string{"void()", "x.y", "multi(1, 2)", "multi()", "pr()", "none(7)", "none(a, 2)", "void(9)"}
	positions := []string{
		"a = 5\nb = @\np(a, b)\n", "a = 5\nif @ {\n  p(1)\n}\np(2)\n", "a = 5\np(@ + 1)\n", "a = 5\np(1 + @)\n", "a = 5\np(@)\n", "a = 5\np(1, @)\n",
		"a = 5\nfor ; @; {\n  break\n}\n", "a = 5\nfor x in @ {\n  p(x)\n}\n", "a = 5\nl = [1, @]\np(l)\n", "a = 5\nm = {\"k\": @}\np(m)\n", "a = 5\nm = {@: 1}\n",
		"a = 5\nl = [1, 2]\np(l[@])\n", "a = 5\nl = [1, 2]\nl[@] = 3\n", "a = 5\nl = [1, 2]\nl[0] = @\np(l)\n", "a = 5\nl = [1, 2]\np(l[@:])\n", "a = 5\nl = [1, 2]\np(l[:@])\n", "a = 5\nl = [1, 2]\np(l[::@])\n",
		"a = 5\np(-@)\n", "a = 5\np(!@)\n", "a = 5\np(@ == 5)\n", "a = 5\np(true && @)\n", "a = 5\np(@ in [5])\n", "a = 5\np(5 in @)\n", "a = 5\na += @\np(a)\n",
		"a = 5\nb, c = @, 1\np(b, c)\n", "a = 5\nb, c = @\np(b, c)\n", "a = 5\nb = c = @\n", "a = 5\n@\np(a)\n", "a = 5\nfor @; a < 6; a = a + 1 {\n}\np(a)\n", "a = 5\nfor ; a < 6; @ {\n  a = a + 1\n}\np(a)\n",
		"a = 5\np(len(@))\n", "a = 5\nb = pr(@)\np(b)\n", "a = 5\nb = (@)\np(b)\n",
	}
	for _, pos := range positions {
		for _, v := range append(valueless, "a", "7", "undefined_name", "nil", "pr(1)", "pr(a - 4)", "len([a])", "nofn(1)", "pr(1, 2)", "{1: 2}") {
			emitV2(e, strings.Replace(pos, "@", v, 1), 3000, "novalue-positions")
		}
	}
	// every operand position of a slice holds a call (its check pass prepares the arguments)
	for _, src := range []string{
		"l = [1, 2, 3, 4, 5]\np(l[pr(0):pr(4):pr(2)])\n", "l = [1, 2, 3, 4, 5]\np(l[::pr(2)], l[pr(1)::], l[:pr(2):])\n", "p([1, 2, 3, 4, 5][::pr(2)])\n",
		"s = \"abcdef\"\np(s[::len([1, 2])], s[len(\"a\"):len(\"abc\")])\n", "l = [1, 2, 3]\np(l[::nofn()])\n", "l = [1, 2, 3]\np(l[0:2:pr(1, 2)])\n", "l = [1, 2, 3]\np(l[nofn():])\n",
		"l = [1, 2, 3]\np(l[:nofn()])\n", "l = [1, 2, 3]\np(l[::{1: 2}])\n", "l = [[1, 2, 3]]\np(l[pr(0)][pr(0):pr(2)][::pr(1)])\n",
	} {
		emitV2(e, src, 3000, "slice-operands")
	}
	// ordered comparison of integers is exact at every magnitude (also as a loop condition)
	bigs := []string{"9007199254740992", "9007199254740993", "9007199254740994", "9223372036854775806", "9223372036854775807", "-9223372036854775807", "-9223372036854775806",
		"1700000000000000000", "1700000000000000001", "0", "1", "-1", "9007199254740993.0", "true"}
	for _, x := range bigs {
		for _, y := range bigs {
			emitV2(e, fmt.Sprintf("x = %s\ny = %s\np(x < y, x <= y, x > y, x >= y, x == y, x != y)\nif x < y {\n  p(\"lt\")\n} elif x > y {\n  p(\"gt\")\n} else {\n  p(\"eq\")\n}\n", x, y), 3000, "int-order")
		}
	}
	emitV2(e, "n = 0\nfor i = 9223372036854775800; i < 9223372036854775803; i = i + 1 {\n  n = n + 1\n}\np(n)\n", 3000, "int-order")
	emitV2(e, "n = 0\nfor i = 9007199254740992; i <= 9007199254740993; i = i + 1 {\n  n = n + 1\n}\np(n)\n", 3000, "int-order")
	// the operator table on the v2 interpreter: every unary operator on every operand class, binary operators
	// and compound assignments (to a variable and to a list element) over operand pairs
	{
		cls := operands()
		for _, op := range unOps {
			for _, x := range cls {
				emitV2(e, fmt.Sprintf("p(%s pr(%s))\n", op, x.src), 3000, "operators")
			}
		}
		for _, op := range binOps {
			for _, l := range cls {
				for _, r := range cls {
					if tier != "thorough" && rng.Intn(12) != 0 {
						continue
					}
					emitV2(e, fmt.Sprintf("p(pr(%s) %s pr(%s))\n", l.src, op, r.src), 3000, "operators")
				}
			}
		}
		for _, op := range asOps {
			for _, l := range cls {
				for _, r := range cls {
					if tier != "thorough" && rng.Intn(10) != 0 {
						continue
					}
					emitV2(e, fmt.Sprintf("x = %s\nx %s pr(%s)\np(x)\n", l.src, op, r.src), 3000, "operators")
					emitV2(e, fmt.Sprintf("c = [0, %s]\nc[1] %s pr(%s)\np(c)\nm = {\"k\": %s}\nm[\"k\"] %s %s\np(m)\n", l.src, op, r.src, l.src, op, r.src), 3000, "operators")
				}
			}
		}
		for _, src := range []string{".[0] = 1\n", ".[0] += 1\n", "x = .[0]\n", "a, b += 1, 2\n", "a = 1\na += 1, 2\n", "l = [1]\nl[0], l[1] = 1, 2\np(l)\n", "zz[0] = 1\n", "zz[0] += 1\n", "l = [1]\nl[5] += 1\n", "l = [1]\nl[\"a\"] += 1\n"} {
			emitV2(e, src, 3000, "operators")
		}
	}
	for _, src := range membershipProgs() {
		emitV2(e, src, 3000, "membership-types")
	}
	// index paths: present and missing keys, at the last and at an inner position, on maps inside lists and
	// lists inside maps, wrongly typed and out-of-range subscripts
	for _, path := range []string{`m["z"]`, `m["z"]["b"]`, `m["a"]["z"]`, `m["a"]["z"]["q"]`, `m["a"]["b"]`, `m["a"]["b"][0]`, `m["l"][0]`, `m["l"][5]`, `m["l"][0]["q"]`, `m["l"][0]["x"]`, `m["l"][0]["x"][0]`,
		`m["l"][0]["q"][1]`, `m["l"][-1]["q"][0]`, `m["l"]["0"]`, `m[0]`, `m["a"][nil]`, `m["n"]`, `m["n"]["x"]`, `l[0]["q"][0]`, `l[1]["q"]`, `l[0][0]`, `l["0"]`, `l[0]["z"]["z"]`, `s[0]`, `n[0]`} {
		prelude := "m = {\"a\": {\"b\": 1}, \"l\": [{\"q\": [1, 2]}], \"n\": nil}\nl = [{\"q\": [3]}]\ns = \"str\"\nn = 5\n"
		emitV2(e, prelude+"p("+path+")\np(\"end\")\n", 3000, "index-paths")
		emitV2(e, prelude+"x = "+path+"\nif x == nil {\n  p(\"nil\")\n}\np(x)\n", 3000, "index-paths")
		emitV2(e, prelude+path+" = 9\np(m, l)\n", 3000, "index-paths")
	}
	// slices of values that cannot be sliced: the bounds are evaluated (calls happen, their errors come first)
	for _, src := range []string{"x = 5\ny = x[pr(1):]\n", "x = nil\ny = x[undefined_name:2]\n", "m = {}\ny = m[pr(0):pr(1):pr(1)]\n", "x = true\ny = x[a.b:2]\n", "x = 1.5\ny = x[:pr(2)]\n", "x = 5\ny = x[::void()]\n"} {
		emitV2(e, src+"p(\"end\")\n", 3000, "slice-unsliceable")
	}
	// membership in a map is about the key: a key holding nil is a member
	for _, src := range []string{"p(\"a\" in {\"a\": nil})\n", "m = {}\nm[\"d\"] = nil\np(\"d\" in m, \"e\" in m, len(m))\n", "m = {\"a\": nil, \"b\": 0}\nfor k in m {\n  p(k in m)\n}\n", "m = {\"a\": nil}\nif \"a\" in m {\n  p(\"yes\")\n} else {\n  p(\"no\")\n}\n", "p(\"\" in {\"\": nil}, nil in [nil], \"x\" in {\"x\": false})\n"} {
		emitV2(e, src, 3000, "in-nil-valued-key")
	}
	// for-in over strings cut inside a character (slices count bytes): each invalid byte is one U+FFFD
	for _, it := range []string{`"é"[0:1]`, `"héllo"[2:]`, `"ab世"[:4]`, `"日志"[::-1]`, `"日志"[1:5]`, `"aé"`, `""`, `"é"[1:]`} {
		emitV2(e, "n = 0\nfor c in "+it+" {\n  n = n + 1\n  p(c, len(c))\n}\np(n)\n", 3000, "string-iteration")
		emitV2(e, "s = "+it+"\nfor c in s {\n  if c == \"a\" {\n    continue\n  }\n  p(c)\n}\np(len(s))\n", 3000, "string-iteration")
	}
	// values that contain themselves through every v2 consumer
	for _, mk := range []string{"a = [1]\na[0] = a\n", "a = {\"k\": 1}\na[\"k\"] = a\n", "b = [1, 2]\na = {\"l\": b}\nb[1] = a\n"} {
		for _, u := range []string{"p(a)", "p(a == a)", "p(a in [a])", "x = a + 1", "for x in a {\n  p(1)\n}", "p(a[0])", "c = a[0:1]\np(c)", "if a {\n  p(1)\n}", "p(-a)", "p(!a)", "p(pr(a))", "x = [a, a]\np(x == x)", "p(a < a)", "a += 1"} {
			emitV2(e, mk+u+"\np(\"end\")\n", 3000, "self-containing")
		}
	}
	// multi-assignment: the whole right side is evaluated before assigning
	for _, src := range []string{
		"a = 1\nb = 2\na, b = b, a\np(a, b)\n", "a, b = multi(1, 2)\np(a, b)\n", "a, b = 1\n", "a = multi(1, 2)\n", "a, b, c = multi(1, 2), 3\np(a, b, c)\n",
		"a, b = pr(1), pr(2)\np(a, b)\n", "l = [0, 0]\nl[0], l[1] = 1, 2\np(l)\n", "a = 1\na, a = 2, 3\np(a)\n", "a, b += 1, 2\n", "a = 1\na, b = a + 1, a + 2\np(a, b)\n",
		"x = undefined_name\n", "p(undefined_name)\n", "undefined_name[0] = 1\n", "if undefined_name {\n}\n", "a = 1\nif true {\n  b = 2\n}\np(a, b)\n",
	} {
		emitV2(e, src, 3000, "multi-assign")
	}
	// random programs in the shared language (also run on v1 and compared where the languages coincide)
	N := 4000
	if tier == "thorough" {
		N = 100000
	}
	// block-local names: a name first assigned in a loop body or an if block does not exist in the
	// next pass / after the block (reading it is the v2 "not defined" error)
	for _, src := range []string{
		"for i = 0; i < 3; i = i + 1 {\n  if i == 1 {\n    p(\"stale\", t)\n  }\n  t = i\n}\np(\"end\")\n",
		"for i = 0; i < 2; i = i + 1 {\n  t = 1\n}\np(t)\n",
		"for i = 0; i < 3 && u == 0; i = i + 1 {\n  u = 0\n}\n",
		"for i = 0; i < 3; i = i + w {\n  w = 1\n}\n",
		"for x in [1, 2, 3] {\n  if x == 2 {\n    p(\"stale\", u)\n  }\n  u = x\n}\n",
		"for i = 0; i < 3; i = i + 1 {\n  for j = 0; j < 2; j = j + 1 {\n    p(i, j)\n  }\n  if i == 1 {\n    break\n  }\n  p(\"outer\", i)\n}\n",
		"for x in [1, 2, 3] {\n  for y in [1] {\n  }\n  if x == 2 {\n    continue\n  }\n  p(x)\n}\n",
		"l = [1, 2, 3]\nb = l[0:2]\nb[0] = 9\nl[1] = 7\np(l, b)\nc = l[:]\nc[2] = 0\np(l, c)\n",
		"if true {\n  w = 1\n}\np(w)\n",
		"if false {\n} else {\n  w = 1\n  if true {\n    w = 2\n    z = 3\n  }\n  p(w)\n  p(z)\n}\n",
		"t = 5\nfor i = 0; i < 2; i = i + 1 {\n  p(t)\n  t = i\n  v = i\n}\np(t)\np(v)\n",
	} {
		emitV2(e, src, 3000, "scopes")
	}
	for i := 0; i < N; i++ {
		g := newPG(rng)
		g.allowBuilt = false
		g.v2 = true
		if i%3 == 0 {
			g.locals = []string{"u", "w"}
		}
		g.keys = []string{"s", "n", "x"}
		g.maxDepth = 1 + rng.Intn(3)
		src := g.program(1 + rng.Intn(4))
		out := emitV2(e, src, 3000, "prog")
		_ = out
	}
}

// goDType: the language type name of a raw Go value (as ast.DType.String() prints it)
func goDType(x any) string {
	switch x.(type) {
	case nil:
		return ast.Nil.String()
	case int64:
		return ast.Int.String()
	case float64:
		return ast.Float.String()
	case bool:
		return ast.Bool.String()
	case string:
		return ast.String.String()
	case []any:
		return ast.List.String()
	case map[string]any:
		return ast.Map.String()
	}
	return "?"
}
