package main

import (
	"fmt"
	"math/rand"
	"strings"
)

func init() {
	gens["C13"] = genC13
	gens["C14"] = genC14
}

// script template with insertion slots @0..@9 (statement positions: top level, branch, loop body,
// for-init clause, for-loop clause, after a use() call)
func c13Template(name, callee string) string {
	use := ""
	if callee != "" {
		use = fmt.Sprintf("use(%q)", callee)
	}
	t := `v = "NAME"
w = [1]
@0
p("NAME:start", v, w, get_key(shared))
add_key(shared, "NAME")
@1
if len(v) > 0 {
  @2
  USE
  p("NAME:after-use-in-branch", v, w)
  @3
}
for i = 0; i < 2; i = i + 1 {
  p("NAME:loop", i)
  @4
}
for @5; v != ""; @6 {
  p("NAME:loop2", v)
  v = ""
  @7
}
USE
@8
p("NAME:end", v, w, get_key(shared))
@9
`
	t = strings.ReplaceAll(t, "NAME", name)
	t = strings.ReplaceAll(t, "USE", use)
	return t
}

func fillSlots(t string, slot int, stmt string) string {
	for i := 0; i <= 9; i++ {
		m := fmt.Sprintf("@%d", i)
		if i == slot {
			t = strings.ReplaceAll(t, m, stmt)
		} else if i == 5 || i == 6 {
			t = strings.ReplaceAll(t, m, "")
		} else {
			t = strings.ReplaceAll(t, "  "+m+"\n", "")
			t = strings.ReplaceAll(t, m+"\n", "")
		}
	}
	return t
}

var emitMultiN int

func emitMulti(e *emitter, scripts []scriptSrc, entry string, pt pointSpec, sigK int, hasSig bool, gen, key string, extra map[string]any) map[string]any {
	// every third case validates the loaded scripts once more before running (a host may do that at any
	// time: the scripts stay linked)
	emitMultiN++
	out := runV1(runCase{Scripts: scripts, Entry: entry, Point: pt, SigK: sigK, HasSig: hasSig, Recheck: emitMultiN%3 == 0})
	out["gen"] = gen
	out["key"] = key
	out["strict"] = true
	for k, v := range extra {
		out[k] = v
	}
	if obs, ok := out["obs"].(map[string]any); ok {
		e.stat(gen + ":" + fmt.Sprint(obs["outcome"]))
	}
	e.emit(out)
	return out
}

func genC13(e *emitter, tier string, seed int64) {
	pt := pointSpec{Meas: "m", Time: 1, Fields: []fieldSpec{{"shared", "str", "init"}, {"message", "str", "msg"}}}
	names := []string{"a.p", "b.p", "c.p"}
	callee := map[string]string{"a.p": "b.p", "b.p": "c.p", "c.p": ""}
	inject := []string{"exit()", "boom = 1 / zz0", "v = \"changed\"", "w[0] = 9", "use(\"c.p\")", "drop_key(shared)"}
	base := map[string]string{}
	for _, n := range names {
		base[n] = fillSlots(c13Template(n, callee[n]), -1, "")
	}
	mk := func(mod map[string]string) []scriptSrc {
		r := []scriptSrc{}
		for _, n := range names {
			src := base[n]
			if m, ok := mod[n]; ok {
				src = m
			}
			r = append(r, scriptSrc{n, "zz0 = 0\n" + src})
		}
		return r
	}
	emitMulti(e, mk(nil), "a.p", pt, 0, false, "calltree-base", "base", nil)
	// one injection at every statement position of every script of the call tree
	for _, n := range names {
		for slot := 0; slot <= 9; slot++ {
			for _, inj := range inject {
				if (slot == 5 || slot == 6) && !(inj == "exit()" || strings.HasPrefix(inj, "v =") || strings.HasPrefix(inj, "use")) {
					continue
				}
				if slot == 6 && strings.HasPrefix(inj, "v =") {
					continue // would re-arm the loop condition for ever
				}
				if n == "c.p" && strings.HasPrefix(inj, "use") {
					continue // would be a cycle
				}
				src := fillSlots(c13Template(n, callee[n]), slot, inj)
				emitMulti(e, mk(map[string]string{n: src}), "a.p", pt, 3000, true, "calltree-inject",
					fmt.Sprintf("%s slot %d: %s", n, slot, inj), nil)
			}
		}
	}
	// two injections in different scripts
	rng := rand.New(rand.NewSource(seed))
	N := 600
	if tier == "thorough" {
		N = 20000
	}
	for i := 0; i < N; i++ {
		mod := map[string]string{}
		key := ""
		for _, n := range names {
			if rng.Intn(2) == 0 {
				slot := rng.Intn(10)
				inj := inject[rng.Intn(len(inject))]
				if n == "c.p" && strings.HasPrefix(inj, "use") {
					inj = "exit()"
				}
				if (slot == 5 || slot == 6) && !(inj == "exit()" || (slot == 5 && strings.HasPrefix(inj, "v ="))) {
					inj = "exit()"
				}
				mod[n] = fillSlots(c13Template(n, callee[n]), slot, inj)
				key += fmt.Sprintf("%s@%d:%s; ", n, slot, inj)
			}
		}
		emitMulti(e, mk(mod), "a.p", pt, 3000, true, "calltree-inject2", key, nil)
	}
	// random scripts calling random callees
	M := 1500
	if tier == "thorough" {
		M = 40000
	}
	for i := 0; i < M; i++ {
		gc := newPG(rng)
		gc.allowExit = true
		gc.maxDepth = 1
		c := gc.program(1 + rng.Intn(3))
		gb := newPG(rng)
		gb.allowExit = true
		gb.allowUse = []string{"c.p"}
		gb.maxDepth = 1 + rng.Intn(2)
		b := gb.program(1 + rng.Intn(3))
		ga := newPG(rng)
		ga.allowExit = true
		ga.allowUse = []string{"b.p", "c.p", "nosuch.p"}
		ga.maxDepth = 2
		a := ga.program(2 + rng.Intn(3))
		scripts := []scriptSrc{{"a.p", a}, {"b.p", b}, {"c.p", c}}
		emitMulti(e, scripts, "a.p", stdPoint(rng), 3000, true, "calltree-rand", a+"\n---b\n"+b+"\n---c\n"+c, nil)
	}
	// (round 8) script names with a directory part: use("lib/b.p") runs the script registered under exactly
	// that name, also when another script shares its base name, in call trees three deep
	{
		libb := "add_key(from, \"lib/b\")\nuse(\"lib/c.p\")\np(\"lib/b back\")\n"
		plainb := "add_key(from, \"b\")\n"
		libc := "add_key(fromc, \"lib/c\")\nzero = 0\nif get_key(boom) == 1 {\n  x = 1 / zero\n}\n"
		plainc := "add_key(fromc, \"c\")\n"
		for i, a := range []string{
			"use(\"lib/b.p\")\np(\"back\", get_key(from), get_key(fromc))\n",
			"use(\"b.p\")\nuse(\"lib/b.p\")\np(\"back\", get_key(from), get_key(fromc))\n",
			"use(\"lib/b.p\")\nuse(\"b.p\")\np(\"back\", get_key(from), get_key(fromc))\n",
			"add_key(boom, 1)\nuse(\"lib/b.p\")\nadd_key(after, 1)\n",
			"use(\"./b.p\")\np(\"back\", get_key(from))\n",
			"use(\"lib/c.p\")\nuse(\"c.p\")\np(\"back\", get_key(fromc))\n",
		} {
			scripts := []scriptSrc{{"a.p", a}, {"lib/b.p", libb}, {"b.p", plainb}, {"lib/c.p", libc}, {"c.p", plainc}}
			emitMulti(e, scripts, "a.p", pt, 3000, true, "dir-names", fmt.Sprintf("dir-names-%d", i), nil)
		}
	}
	// (round 7) a use() call runs the script it was loaded with: one caller text loaded next to different
	// companions, every set kept by the host and run after the others were loaded
	{
		a := "v = \"a\"\nuse(\"b.p\")\np(\"back\", v, get_key(from))\nif true {\n  use(\"b.p\")\n}\n"
		bs := []string{"add_key(from, \"one\")\n", "add_key(from, \"two\")\nzero = 0\nx = 1 / zero\n", "add_key(from, \"three\")\nexit()\nadd_key(never, 1)\n", "v = \"b\"\nadd_key(from, v)\nuse(\"c.p\")\n"}
		for _, o := range perms([]string{"0", "1", "2", "3"}) {
			ops := []runCase{}
			key := ""
			for _, x := range o {
				i := int(x[0] - '0')
				ops = append(ops, runCase{Scripts: []scriptSrc{{"a.p", a}, {"b.p", bs[i]}, {"c.p", "add_key(fromc, 1)\n"}}, Entry: "a.p", Point: pt, HasSig: true})
				key += x
			}
			for h := 1; h <= 4; h++ {
				op := ops[h-1]
				op.Held = h
				ops = append(ops, op)
			}
			out := histV1(ops)
			out["gen"], out["key"], out["strict"] = "same-caller-different-companions", "order "+key, true
			e.stat("same-caller-different-companions")
			e.emit(out)
		}
	}
}

// C14: every poll index k at which the signal first reports true
func genC14(e *emitter, tier string, seed int64) {
	rng := rand.New(rand.NewSource(seed))
	kmax := 40
	N := 250
	if tier == "thorough" {
		kmax, N = 200, 4000
	}
	runAllK := func(scripts []scriptSrc, pt pointSpec, gen, key string, infinite bool) {
		var fullTrace any
		var fullOut any
		polls := kmax
		if !infinite {
			// the "uninterrupted" run has a far-away firing point as a watchdog against runaway loops
			full := emitMulti(e, scripts, "a.p", pt, 3000, true, gen+"-full", key, nil)
			obs, _ := full["obs"].(map[string]any)
			if obs == nil {
				return
			}
			if obs["outcome"] != "ok" && obs["outcome"] != "err" {
				return
			}
			fullTrace = obs["trace"]
			fullOut = obs["stdout"]
			if n, ok := num(obs["polls"]); ok {
				polls = int(n)
			} else if f, ok := obs["polls"].(int); ok {
				polls = f
			}
			if polls >= 3000 {
				// runaway loop: no uninterrupted trace to compare with
				infinite = true
				polls = kmax
			}
		}
		if polls > kmax {
			polls = kmax
		}
		for k := 1; k <= polls; k++ {
			extra := map[string]any{"c14": true, "kfire": k}
			if !infinite {
				extra["full_trace"] = fullTrace
				extra["full_stdout"] = fullOut
			}
			emitMulti(e, scripts, "a.p", pt, k, true, gen, fmt.Sprintf("k=%d :: %s", k, key), extra)
		}
	}
	pt := pointSpec{Meas: "m", Time: 1, Fields: []fieldSpec{{"message", "str", "msg"}, {"f1", "int", "5"}}}
	// endless and deeply nested loops with empty bodies; must stop for every k
	for _, src := range []string{
		"for ;; {}\n", "for ;; { for ;; {} }\n", "for ;; { for ;; { for ;; {} } }\n", "for ;; { p(1) }\n",
		"for i = 0; true; i = i + 1 { }\n", "for ;; { if true { } }\n", "for ;; { for x in [1, 2] { } }\n",
		"for ;; { for x in \"ab\" { for y in {\"a\": 1} { } } }\n", "i = 0\nfor ;; { i = i + 1\n continue }\n",
		"for ;; { use(\"b.p\") }\n", "use(\"inf.p\")\np(\"after\")\n", "for ;; { add_key(k1, 1) }\n",
	} {
		scripts := []scriptSrc{{"a.p", src}, {"b.p", "p(\"b\")\n"}, {"inf.p", "for ;; { for ;; {} }\n"}}
		runAllK(scripts, pt, "endless", src, true)
	}
	// use() nested inside a larger expression: when the callee observes the signal it stops, but the
	// caller's statement in progress goes on evaluating its remaining operands (known finding:
	// every firing index is reported under one key)
	for _, src := range []string{"x = [use(\"b3.p\"), p(\"after\")]\n", "p(use(\"b3.p\"), pr(\"after\"))\n"} {
		scripts := []scriptSrc{{"a.p", src}, {"b3.p", "p(\"b1\")\np(\"b2\")\np(\"b3\")\n"}}
		var fullTrace, fullOut any
		full := emitMulti(e, scripts, "a.p", pt, 3000, true, "nested-use-full", src, nil)
		if obs, _ := full["obs"].(map[string]any); obs != nil {
			fullTrace, fullOut = obs["trace"], obs["stdout"]
		}
		for k := 1; k <= 6; k++ {
			emitMulti(e, scripts, "a.p", pt, k, true, "nested-use", "c14:use-nested-in-expression",
				map[string]any{"c14": true, "kfire": k, "full_trace": fullTrace, "full_stdout": fullOut})
		}
	}
	// the v2 interpreter: endless loops, loops with continue/break and a visible loop clause, generated programs
	v2AllK := func(src, gen string, infinite bool) {
		var fullTrace any
		polls := kmax
		if !infinite {
			full := emitV2(e, src, 3000, gen+"-full")
			obs, _ := full["obs"].(map[string]any)
			if obs == nil || (obs["outcome"] != "ok" && obs["outcome"] != "err") {
				return
			}
			fullTrace = obs["trace"]
			if n, ok := num(obs["polls"]); ok {
				polls = int(n)
			} else if f, ok := obs["polls"].(int); ok {
				polls = f
			}
			if polls >= 3000 {
				infinite, polls = true, kmax
			}
		}
		if polls > kmax {
			polls = kmax
		}
		for k := 1; k <= polls; k++ {
			out := runV2(runCase{Scripts: []scriptSrc{{"main.p", src}}, Entry: "main.p", SigK: k, HasSig: true})
			out["gen"], out["key"], out["strict"] = gen, fmt.Sprintf("v2 k=%d :: %s", k, src), true
			out["c14"], out["kfire"] = true, k
			if !infinite {
				out["full_trace"], out["full_stdout"] = fullTrace, ""
			}
			if obs, ok := out["obs"].(map[string]any); ok {
				e.stat(gen + ":" + fmt.Sprint(obs["outcome"]))
			}
			e.emit(out)
		}
	}
	for _, src := range []string{"for ;; {}\n", "for ;; { for ;; {} }\n", "for ;; { p(1) }\n", "i = 0\nfor ;; { i = i + 1\n continue }\n",
		"for ;; { for x in [1, 2] { } }\n", "for ;; { if true { } }\n"} {
		v2AllK(src, "v2-endless", true)
	}
	for _, src := range []string{
		"for i = 0; i < 6; p(\"loop\", i) { i = i + 1\n  if i > 1 {\n    continue\n  }\n  p(\"body\", i)\n}\n",
		"for i = 0; i < 6; p(\"loop\", i) { i = i + 1\n  if i % 2 == 0 {\n    if true {\n      continue\n    }\n  }\n  p(\"body\", i)\n}\n",
		"for i = 0; i < 4; i = i + 1 { for j = 0; j < 3; p(\"inner\", i, j) { j = j + 1\n    if j == 2 {\n      continue\n    }\n    p(j)\n  }\n}\n",
		"for x in [1, 2, 3, 4] { if x == 2 {\n    continue\n  }\n  p(x)\n}\np(\"end\")\n",
		"for i = 0; i < 5; p(\"loop\", i) { i = i + 1\n  if i == 3 {\n    break\n  }\n}\np(\"end\")\n",
	} {
		v2AllK(src, "v2-loops", false)
	}
	for i := 0; i < N; i++ {
		g := newPG(rng)
		g.allowBuilt = false
		g.v2 = true
		g.keys = []string{"s", "n", "x"}
		g.maxDepth = 2
		v2AllK(g.program(2+rng.Intn(3)), "v2-prog", false)
	}
	// hand-written loops whose loop clause has a visible effect, with continue/break in nested ifs
	for _, src := range []string{
		"for i = 0; i < 6; p(\"loop\", i) { i = i + 1\n  if i > 1 {\n    continue\n  }\n  p(\"body\", i)\n}\n",
		"for i = 0; i < 6; p(\"loop\", i) { i = i + 1\n  if i % 2 == 0 {\n    if true {\n      continue\n    }\n  }\n  p(\"body\", i)\n}\n",
		"for i = 0; i < 4; i = i + 1 { for j = 0; j < 3; p(\"inner\", i, j) { j = j + 1\n    if j == 2 {\n      continue\n    }\n    p(j)\n  }\n}\n",
		"for i = 0; i < 5; p(\"loop\", i) { i = i + 1\n  if i == 3 {\n    break\n  }\n}\np(\"end\")\n",
		"for i = 0; i < 3; i = i + 1 { use(\"b.p\")\n  p(\"after-use\", i) }\n",
	} {
		runAllK([]scriptSrc{{"a.p", src}, {"b.p", "for j = 0; j < 3; j = j + 1 { p(\"b\", j) }\n"}}, pt, "loops", src, false)
	}
	// terminating loop-bearing programs: all k up to the poll count of the uninterrupted run
	for i := 0; i < N; i++ {
		gb := newPG(rng)
		gb.maxDepth = 1 + rng.Intn(2)
		gb.allowExit = rng.Intn(4) == 0
		b := gb.program(1 + rng.Intn(2))
		ga := newPG(rng)
		ga.maxDepth = 2
		ga.allowUse = []string{"b.p"}
		ga.noNestedUse = true
		a := ga.program(2 + rng.Intn(3))
		scripts := []scriptSrc{{"a.p", a}, {"b.p", b}}
		runAllK(scripts, stdPoint(rng), "prog", a+"\n---b\n"+b, false)
	}
}
