package main

import (
	"fmt"
	"math"
	"math/rand"
	"strconv"
	"strings"

	"github.com/GuanceCloud/platypus/pkg/ast"
	"github.com/GuanceCloud/platypus/pkg/parser"
)

func init() { gens["C07"] = genC07 }

// litImpl: what the real parser makes of `x = <lit>`
func litImpl(lit string) string {
	stmts, err := parser.ParsePipeline("t.p", "x = "+lit+"\n")
	if err != nil {
		return "rejected"
	}
	if len(stmts) != 1 || stmts[0] == nil || stmts[0].NodeType != ast.TypeAssignmentExpr {
		return "multi"
	}
	a := stmts[0].AssignmentExpr()
	if len(a.RHS) != 1 || len(a.LHS) != 1 || a.RHS[0] == nil {
		return "multi"
	}
	r := a.RHS[0]
	switch r.NodeType {
	case ast.TypeStringLiteral:
		return "str:" + hx(r.StringLiteral().Val)
	case ast.TypeIdentifier:
		return "ident:" + hx(r.Identifier().Name)
	case ast.TypeIntegerLiteral:
		return "int:" + strconv.FormatInt(r.IntegerLiteral().Val, 10)
	case ast.TypeFloatLiteral:
		return "float:" + fbits(r.FloatLiteral().Val)
	case ast.TypeBoolLiteral:
		if r.BoolLiteral().Val {
			return "bool:t"
		}
		return "bool:f"
	case ast.TypeNilLiteral:
		return "nil"
	}
	return "multi"
}

func emitLits(e *emitter, lits []string, gen string) {
	res := []any{}
	for _, l := range lits {
		res = append(res, []string{hx(l), litImpl(l)})
	}
	e.stat(gen)
	e.emit(map[string]any{"k": "lit", "gen": gen, "lits": res})
}

func genC07(e *emitter, tier string, seed int64) {
	rng := rand.New(rand.NewSource(seed))
	// ---- string literals: all bodies over the alphabet up to length L in each quote style ----
	alpha := []string{`"`, `'`, "`", `\`, "\n", "\x00", "a", "0", "7", "x", "u", "é", "😀", "\ufffd"}
	L := 3
	if tier == "thorough" {
		L = 5
	}
	styles := [][2]string{{`"`, `"`}, {`'`, `'`}, {`"""`, `"""`}, {`'''`, `'''`}, {"`", "`"}}
	var rec func(cur string, n int)
	batch := []string{}
	flush := func() {
		if len(batch) > 0 {
			emitLits(e, batch, "string-alphabet")
			batch = []string{}
		}
	}
	rec = func(cur string, n int) {
		for _, st := range styles {
			batch = append(batch, st[0]+cur+st[1])
		}
		if len(batch) >= 200 {
			flush()
		}
		if n == L {
			return
		}
		for _, a := range alpha {
			rec(cur+a, n+1)
		}
	}
	rec("", 0)
	flush()
	// every escape form, valid and invalid variants
	escs := []string{}
	for _, c := range "abfnrtv\\'\"`0123456789xXuUzZ eE\n" {
		escs = append(escs, `\`+string(c))
	}
	for _, d := range []string{"0", "7", "8", "00", "07", "77", "78", "000", "377", "400", "777", "0000", "3777"} {
		escs = append(escs, `\`+d)
	}
	for _, h := range []string{"", "4", "41", "4g", "g1", "FF", "ff", "0", "00", "410"} {
		escs = append(escs, `\x`+h, `\X`+h)
	}
	for _, h := range []string{"", "0", "004", "0041", "00e9", "D800", "DFFF", "d7ff", "E000", "FFFF", "fffd", "00410", "zzzz"} {
		escs = append(escs, `\u`+h)
	}
	for _, h := range []string{"", "0000004", "00000041", "0001F600", "0010FFFF", "00110000", "FFFFFFFF", "0000D800", "000000410"} {
		escs = append(escs, `\U`+h)
	}
	for _, pre := range []string{"", "a", `\\`} {
		for _, post := range []string{"", "b", `\`} {
			lits := []string{}
			for _, es := range escs {
				for _, st := range styles {
					lits = append(lits, st[0]+pre+es+post+st[1])
				}
			}
			emitLits(e, lits, "string-escapes")
		}
	}
	// random longer strings
	N := 300
	if tier == "thorough" {
		N = 20000
	}
	pieces := append(append([]string{}, alpha...), escs...)
	pieces = append(pieces, "héllo", " ", "\t", "\r", "日本")
	for i := 0; i < N; i++ {
		lits := []string{}
		for j := 0; j < 50; j++ {
			n := rng.Intn(12)
			var sb strings.Builder
			for k := 0; k < n; k++ {
				sb.WriteString(pieces[rng.Intn(len(pieces))])
			}
			st := styles[rng.Intn(len(styles))]
			lits = append(lits, st[0]+sb.String()+st[1])
		}
		emitLits(e, lits, "string-random")
	}
	// ---- integers at power-of-two and decimal-digit boundaries, decimal and hexadecimal, signs ----
	ints := []string{}
	addInt := func(v *uint64Like) {}
	_ = addInt
	vals := []uint64{0, 1, 7, 8, 9, 10}
	for k := 1; k <= 64; k++ {
		var p uint64 = 1 << uint(k%64)
		if k == 64 {
			p = 0
		}
		vals = append(vals, p-1, p, p+1)
	}
	var ten uint64 = 1
	for k := 1; k <= 19; k++ {
		ten *= 10
		vals = append(vals, ten-1, ten, ten+1)
	}
	vals = append(vals, math.MaxInt64, math.MaxInt64+1, math.MaxUint64)
	for _, v := range vals {
		d := strconv.FormatUint(v, 10)
		h := "0x" + strconv.FormatUint(v, 16)
		H := "0X" + strings.ToUpper(strconv.FormatUint(v, 16))
		for _, s := range []string{d, h, H} {
			ints = append(ints, s, "-"+s, "+"+s, "--"+s, "- "+s)
		}
	}
	ints = append(ints, "00", "01", "010", "08", "0x", "0x0", "1_0", "1e3", "1E3", "1e+3", "1e-3", "1e", "1.", "1.5", "01.5", "0x1.8", "1.5e300", "1e309", "inf", "Inf", "nan", "NaN", "-inf", ".5", "5.", "0b1", "0o7", "1a", "99999999999999999999", "0x10000000000000000")
	// (round 9) zero with a sign: the sign negates the literal, so the value is the negative zero
	ints = append(ints, "0.0", "-0.0", "+0.0", "--0.0", "-0e0", "-0.", "-0.0e-5", "-1e-400", "1e-400", "-0.000", "- 0.0", "-00.0")
	emitLits(e, ints, "numbers")
	// floats: round trip of random float64 values
	M := 20
	if tier == "thorough" {
		M = 2000
	}
	for i := 0; i < M; i++ {
		lits := []string{}
		for j := 0; j < 100; j++ {
			f := math.Float64frombits(rng.Uint64())
			if f != f || math.IsInf(f, 0) || f < 0 {
				f = rng.Float64() * math.Pow(10, float64(rng.Intn(600)-300))
			}
			s := strconv.FormatFloat(f, 'g', -1, 64)
			lits = append(lits, s, "-"+s, strconv.FormatFloat(f, 'e', -1, 64))
			if f < 1e15 && f > 1e-5 {
				lits = append(lits, strconv.FormatFloat(f, 'f', -1, 64))
			}
		}
		emitLits(e, lits, "floats")
	}
	// ---- keywords in every letter case ----
	kws := []string{}
	for _, w := range []string{"true", "false", "nil", "null", "if", "in", "for"} {
		for m := 0; m < 1<<uint(len(w)); m++ {
			b := []byte(w)
			for i := range b {
				if m&(1<<uint(i)) != 0 {
					b[i] = b[i] - 32
				}
			}
			kws = append(kws, string(b))
		}
	}
	kws = append(kws, "truee", "tru", "nill", "_true", "true1", "nul", "NULLL", "ｔｒｕｅ")
	emitLits(e, kws, "keywords")
}

type uint64Like struct{}

var _ = fmt.Sprint
