module verif/harness

go 1.19

require (
	github.com/DataDog/datadog-agent/pkg/obfuscate v0.39.0
	github.com/GuanceCloud/grok v1.1.2
	github.com/GuanceCloud/platypus v0.0.0
	github.com/antchfx/xmlquery v1.3.12
	github.com/antchfx/xpath v1.2.1
	github.com/araddon/dateparse v0.0.0-20201001162425-8aadafed4dc4
	github.com/influxdata/influxdb1-client v0.0.0-20220302092344-a9ab5670611c
	github.com/spf13/cast v1.5.0
	go.uber.org/zap v1.23.0
)

require (
	github.com/DataDog/datadog-go/v5 v5.1.0 // indirect
	github.com/cespare/xxhash/v2 v2.1.1 // indirect
	github.com/dgraph-io/ristretto v0.1.0 // indirect
	github.com/dustin/go-humanize v1.0.0 // indirect
	github.com/golang/glog v0.0.0-20160126235308-23def4e6c14b // indirect
	github.com/golang/groupcache v0.0.0-20200121045136-8c9f03a8e57e // indirect
	github.com/mssola/user_agent v0.5.3 // indirect
	github.com/pkg/errors v0.9.1 // indirect
	github.com/tidwall/gjson v1.14.3 // indirect
	github.com/tidwall/match v1.1.1 // indirect
	github.com/tidwall/pretty v1.2.0 // indirect
	go.uber.org/atomic v1.9.0 // indirect
	go.uber.org/multierr v1.6.0 // indirect
	golang.org/x/net v0.0.0-20220127200216-cd36cc0744dd // indirect
	golang.org/x/sys v0.0.0-20220804214406-8e32c043e418 // indirect
	golang.org/x/text v0.3.7 // indirect
)

replace github.com/GuanceCloud/platypus => /repo
