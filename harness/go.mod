module verif/harness

go 1.19

require github.com/GuanceCloud/platypus v0.0.0

replace github.com/GuanceCloud/platypus => /repo
