package main

import "math"

func bitsFloat(u uint64) float64 { return math.Float64frombits(u) }
