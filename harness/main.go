// Harness: runs the real platypus code on generated inputs and prints one JSON line per case.
package main

import (
	"bufio"
	"encoding/hex"
	"encoding/json"
	"flag"
	"fmt"
	"os"
	"strconv"
)

type emitter struct {
	w     *bufio.Writer
	n     int
	stats map[string]int
}

func (e *emitter) emit(v map[string]any) {
	e.n++
	if _, ok := v["id"]; !ok {
		v["id"] = strconv.Itoa(e.n)
	}
	b, err := json.Marshal(v)
	if err != nil {
		panic(err)
	}
	e.w.Write(b)
	e.w.WriteByte('\n')
}

func (e *emitter) stat(k string) { e.stats[k]++ }

func hx(s string) string { return hex.EncodeToString([]byte(s)) }

var gens = map[string]func(e *emitter, tier string, seed int64){}

// the property whose generator is running (a generator reused by another property may leave out
// families that only its own specification judges)
var propName string

func main() {
	tier := flag.String("tier", "quick", "quick|thorough")
	seed := flag.Int64("seed", 1, "PRNG seed")
	statsPath := flag.String("stats", "", "write generator statistics (JSON) here")
	flag.Parse()
	os.Setenv("TZ", "UTC") // default_time uses time.Local when no zone is given
	if flag.NArg() < 1 {
		fmt.Fprintln(os.Stderr, "usage: harness [-tier t] [-seed n] <property> [args]")
		os.Exit(2)
	}
	if strconv.IntSize != 64 {
		fmt.Fprintln(os.Stderr, "harness assumes 64-bit int")
		os.Exit(2)
	}
	if flag.Arg(0) == "worker" {
		workerMain()
		return
	}
	if flag.Arg(0) == "oracle" {
		oracleMain()
		return
	}
	propName = flag.Arg(0)
	g, ok := gens[flag.Arg(0)]
	if !ok {
		fmt.Fprintln(os.Stderr, "unknown property", flag.Arg(0))
		os.Exit(2)
	}
	e := &emitter{w: bufio.NewWriterSize(os.Stdout, 1<<20), stats: map[string]int{}}
	if flag.NArg() >= 3 && flag.Arg(1) == "replay" {
		replayFile(e, flag.Arg(2))
	} else {
		g(e, *tier, *seed)
	}
	e.w.Flush()
	if wp != nil {
		wp.kill()
	}
	if *statsPath != "" {
		b, _ := json.Marshal(e.stats)
		os.WriteFile(*statsPath, b, 0o644)
	}
}
