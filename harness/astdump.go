package main

import (
	"math"

	"github.com/GuanceCloud/platypus/pkg/ast"
	"github.com/GuanceCloud/platypus/pkg/engine/runtime"
	"github.com/GuanceCloud/platypus/pkg/token"
)

// AST dump: every node kind and every position field, through the exported accessors.

type dumper struct {
	site  int
	sites map[*ast.CallExpr]int
}

func newDumper() *dumper { return &dumper{sites: map[*ast.CallExpr]int{}} }

func dpos(p token.LnColPos) []int { return []int{int(p.Pos), p.Ln, p.Col} }

func dposs(ps []token.LnColPos) [][]int {
	r := [][]int{}
	for _, p := range ps {
		r = append(r, dpos(p))
	}
	return r
}

func (d *dumper) nodes(ns []*ast.Node) []any {
	r := []any{}
	for _, n := range ns {
		r = append(r, d.node(n))
	}
	return r
}

func (d *dumper) block(b *ast.BlockStmt) any {
	if b == nil {
		return nil
	}
	return d.nodes(b.Stmts)
}

var opNames = map[ast.Op]string{
	ast.ADD: "add", ast.SUB: "sub", ast.MUL: "mul", ast.DIV: "div", ast.MOD: "mod",
	ast.EQEQ: "eq", ast.NEQ: "ne", ast.LT: "lt", ast.LTE: "le", ast.GT: "gt", ast.GTE: "ge",
	ast.AND: "and", ast.OR: "or", ast.NOT: "not",
	ast.EQ: "eq", ast.ADDEQ: "addEq", ast.SUBEQ: "subEq", ast.MULEQ: "mulEq", ast.DIVEQ: "divEq", ast.MODEQ: "modEq",
}

func (d *dumper) node(n *ast.Node) any {
	if n == nil {
		return nil
	}
	switch n.NodeType {
	case ast.TypeIdentifier:
		e := n.Identifier()
		return map[string]any{"t": "id", "n": hx(e.Name), "p": dpos(e.Start)}
	case ast.TypeStringLiteral:
		e := n.StringLiteral()
		return map[string]any{"t": "str", "v": hx(e.Val), "p": dpos(e.Start)}
	case ast.TypeIntegerLiteral:
		e := n.IntegerLiteral()
		return map[string]any{"t": "int", "v": e.Val, "p": dpos(e.Start)}
	case ast.TypeFloatLiteral:
		e := n.FloatLiteral()
		return map[string]any{"t": "float", "v": fbits(e.Val), "p": dpos(e.Start)}
	case ast.TypeBoolLiteral:
		e := n.BoolLiteral()
		return map[string]any{"t": "bool", "v": e.Val, "p": dpos(e.Start)}
	case ast.TypeNilLiteral:
		return map[string]any{"t": "nil", "p": dpos(n.NilLiteral().Start)}
	case ast.TypeListLiteral:
		e := n.ListLiteral()
		return map[string]any{"t": "list", "xs": d.nodes(e.List), "lb": dpos(e.LBracket), "rb": dpos(e.RBracket)}
	case ast.TypeMapLiteral:
		e := n.MapLiteral()
		kvs := []any{}
		for _, kv := range e.KeyValeList {
			kvs = append(kvs, []any{d.node(kv[0]), d.node(kv[1])})
		}
		return map[string]any{"t": "map", "kvs": kvs, "lb": dpos(e.LBrace), "rb": dpos(e.RBrace)}
	case ast.TypeParenExpr:
		e := n.ParenExpr()
		return map[string]any{"t": "paren", "e": d.node(e.Param), "lp": dpos(e.LParen), "rp": dpos(e.RParen)}
	case ast.TypeAttrExpr:
		e := n.AttrExpr()
		return map[string]any{"t": "attr", "obj": d.node(e.Obj), "attr": d.node(e.Attr), "p": dpos(e.Start)}
	case ast.TypeIndexExpr:
		e := n.IndexExpr()
		var obj any
		if e.Obj != nil {
			obj = map[string]any{"n": hx(e.Obj.Name), "p": dpos(e.Obj.Start)}
		}
		return map[string]any{"t": "index", "obj": obj, "idx": d.nodes(e.Index), "lbs": dposs(e.LBracket), "rbs": dposs(e.RBracket)}
	case ast.TypeUnaryExpr:
		e := n.UnaryExpr()
		op := map[ast.Op]string{ast.SUB: "neg", ast.ADD: "pos", ast.NOT: "not"}[e.Op]
		return map[string]any{"t": "unary", "op": op, "e": d.node(e.RHS), "p": dpos(e.OpPos)}
	case ast.TypeArithmeticExpr:
		e := n.ArithmeticExpr()
		return map[string]any{"t": "arith", "op": opNames[e.Op], "l": d.node(e.LHS), "r": d.node(e.RHS), "p": dpos(e.OpPos)}
	case ast.TypeConditionalExpr:
		e := n.ConditionalExpr()
		return map[string]any{"t": "cond", "op": opNames[e.Op], "l": d.node(e.LHS), "r": d.node(e.RHS), "p": dpos(e.OpPos)}
	case ast.TypeInExpr:
		e := n.InExpr()
		return map[string]any{"t": "in", "l": d.node(e.LHS), "r": d.node(e.RHS), "p": dpos(e.OpPos)}
	case ast.TypeAssignmentExpr:
		e := n.AssignmentExpr()
		return map[string]any{"t": "assign", "op": opNames[e.Op], "lhs": d.nodes(e.LHS), "rhs": d.nodes(e.RHS), "p": dpos(e.OpPos)}
	case ast.TypeCallExpr:
		e := n.CallExpr()
		d.site++
		id := d.site
		d.sites[e] = id
		m := map[string]any{"t": "call", "n": hx(e.Name), "args": d.nodes(e.Param), "np": dpos(e.NamePos),
			"lp": dpos(e.LParen), "rp": dpos(e.RParen), "site": id}
		if s, ok := e.PrivateData.(*runtime.Script); ok && s != nil {
			m["bound"] = hx(s.Name)
		}
		return m
	case ast.TypeSliceExpr:
		e := n.SliceExpr()
		return map[string]any{"t": "slice", "obj": d.node(e.Obj), "s": d.node(e.Start), "e": d.node(e.End), "st": d.node(e.Step),
			"c2": e.Colon2, "lb": dpos(e.LBracket), "rb": dpos(e.RBracket)}
	case ast.TypeIfelseStmt:
		e := n.IfelseStmt()
		ifs := []any{}
		for _, i := range e.IfList {
			if i == nil {
				ifs = append(ifs, nil)
				continue
			}
			ifs = append(ifs, map[string]any{"c": d.node(i.Condition), "b": d.block(i.Block), "p": dpos(i.Start)})
		}
		return map[string]any{"t": "if", "ifs": ifs, "els": d.block(e.Else), "ep": dpos(e.ElsePos)}
	case ast.TypeForStmt:
		e := n.ForStmt()
		return map[string]any{"t": "for", "init": d.node(e.Init), "c": d.node(e.Cond), "loop": d.node(e.Loop), "b": d.block(e.Body), "p": dpos(e.ForPos)}
	case ast.TypeForInStmt:
		e := n.ForInStmt()
		return map[string]any{"t": "forin", "var": d.node(e.Varb), "iter": d.node(e.Iter), "b": d.block(e.Body), "fp": dpos(e.ForPos), "ip": dpos(e.InPos)}
	case ast.TypeBreakStmt:
		return map[string]any{"t": "break", "p": dpos(n.BreakStmt().Start)}
	case ast.TypeContinueStmt:
		return map[string]any{"t": "continue", "p": dpos(n.ContinueStmt().Start)}
	}
	return map[string]any{"t": "unknown", "nt": n.NodeType.String()}
}

// canonical float bits: NaNs collapsed like Lean's Float.toBits
func fbits(f float64) string {
	if f != f {
		return "9221120237041090560"
	}
	return u64s(math.Float64bits(f))
}
