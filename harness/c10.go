package main

import (
	"fmt"
	"math/rand"
	"strings"
)

func init() {
	gens["C10"] = genC10
	gens["C11"] = genC11
}

var c10Keys = []string{"f1", "t1", "message", "k1", "k2"}

func c10Ops() []string {
	ops := []string{}
	vals := []string{"1", "1.5", `"s"`, "true", "nil", `[1, "a"]`, `{"a": 1}`, "v"}
	for _, k := range c10Keys {
		for _, v := range vals {
			ops = append(ops, fmt.Sprintf("add_key(%s, %s)", k, v))
		}
		ops = append(ops, fmt.Sprintf("add_key(%s)", k), fmt.Sprintf("set_tag(%s)", k), fmt.Sprintf(`set_tag(%s, "tv")`, k),
			fmt.Sprintf("set_tag(%s, v)", k), fmt.Sprintf("drop_key(%s)", k), fmt.Sprintf("set_measurement(%s, true)", k))
		for _, t := range []string{"int", "str", "bool", "float", "string"} {
			ops = append(ops, fmt.Sprintf(`cast(%s, "%s")`, k, t))
		}
		for _, k2 := range c10Keys {
			if k != k2 {
				ops = append(ops, fmt.Sprintf("rename(%s, %s)", k, k2))
			}
		}
	}
	// `_` is another spelling of message: renaming a key onto itself under the two spellings
	// values without a string form (an attribute expression yields nothing)
	ops = append(ops, "set_tag(f1, a.b)", "set_tag(k1, a.b)", "add_key(k1, a.b)", "set_tag(t1, a.b)")
	// values without a JSON text (a list that contains itself, a list holding +Inf): stored as nil, over an
	// existing field, an existing tag and a fresh key
	ops = append(ops, "add_key(f1, cy)", "add_key(k1, cy)", "set_tag(t1, cy)", "add_key(f1, inf)", "set_tag(f1, inf)", "add_key(t1, inf)")
	ops = append(ops, "rename(message, _)", "rename(_, message)", "rename(_, f1)", "rename(t1, _)", "drop_key(_)", "add_key(_, 2)", "set_tag(_)")
	return ops
}

const c10Obs = "p(get_key(f1), get_key(t1), get_key(message), get_key(k1), get_key(k2), get_key(t2))\n"

func c10Point() pointSpec {
	return pointSpec{Meas: "m", Time: 1600000000000000000,
		Fields: []fieldSpec{{"f1", "int", "5"}, {"message", "str", "hello"}, {"u1", "go-uint64", "18446744073709551615"}, {"g1", "go-float32", "0.1"}, {"i1", "go-int32", "-7"}},
		Tags:   [][2]string{{"t1", "tv0"}, {"t2", "tv2"}}}
}

func emitC10(e *emitter, ops []string, gen string) { emitC10q(e, ops, gen, false) }

// quiet: the keys are read back only once, after the last operation (reading every key after every
// operation would itself touch the index between the operations)
func emitC10q(e *emitter, ops []string, gen string, quiet bool) {
	var sb strings.Builder
	sb.WriteString("v = 7\nk2 = \"var\"\ncy = [1]\ncy[0] = cy\ninf = [1e308 * 10.0]\n") // a variable named like a key: add_key(k2)/set_tag(k2) read it first
	for i, o := range ops {
		sb.WriteString(o + "\n")
		if !quiet || i == len(ops)-1 {
			sb.WriteString(c10Obs)
		}
	}
	src := sb.String()
	out := runV1(runCase{Scripts: []scriptSrc{{"main.p", src}}, Entry: "main.p", Point: c10Point()})
	out["gen"] = gen
	out["key"] = strings.Join(ops, "; ")
	out["strict"] = true
	out["c10"] = true
	if obs, ok := out["obs"].(map[string]any); ok {
		e.stat(gen + ":" + fmt.Sprint(obs["outcome"]))
	}
	e.emit(out)
}

func genC10(e *emitter, tier string, seed int64) {
	ops := c10Ops()
	rng := rand.New(rand.NewSource(seed))
	for _, a := range ops {
		emitC10(e, []string{a}, "seq1")
	}
	for _, a := range ops {
		for _, b := range ops {
			emitC10(e, []string{a, b}, "seq2")
		}
	}
	n3 := 3000
	nr := 800
	if tier == "thorough" {
		n3, nr = 120000, 12000
	}
	for i := 0; i < n3; i++ {
		emitC10q(e, []string{ops[rng.Intn(len(ops))], ops[rng.Intn(len(ops))], ops[rng.Intn(len(ops))]}, "seq3", i%2 == 1)
	}
	// operations on the second initial tag, after every single operation
	for _, a := range ops {
		for _, b := range []string{"drop_key(t2)", "rename(k1, t2)", "add_key(t2, 1)", "set_tag(t2)", "add_key(k1, get_key(t2))"} {
			emitC10q(e, []string{a, b}, "seq2-t2", true)
			emitC10q(e, []string{b, a}, "seq2-t2", true)
		}
	}
	// a key is touched, renamed away, and its old name is written or read again - with nothing in between
	// (no read-back of the other keys)
	{
		touching := func(k string) []string {
			r := []string{}
			for _, o := range ops {
				if strings.Contains(o, "("+k+",") || strings.Contains(o, "("+k+")") {
					r = append(r, o)
				}
			}
			return r
		}
		all := [][]string{}
		for _, k := range c10Keys {
			tk := touching(k)
			for _, k2 := range c10Keys {
				if k2 == k {
					continue
				}
				for _, a := range tk {
					for _, b := range tk {
						all = append(all, []string{a, fmt.Sprintf("rename(%s, %s)", k2, k), b})
					}
				}
			}
		}
		if tier != "thorough" && len(all) > 1500 {
			rng.Shuffle(len(all), func(i, j int) { all[i], all[j] = all[j], all[i] })
			all = all[:1500]
		}
		for _, sq := range all {
			emitC10q(e, sq, "seq3-renamed", true)
		}
	}
	for i := 0; i < nr; i++ {
		n := 4 + rng.Intn(37)
		seq := make([]string, n)
		for j := range seq {
			seq[j] = ops[rng.Intn(len(ops))]
		}
		emitC10q(e, seq, "seqN", i%2 == 1)
	}
}

// ---- C11: every field-manipulating builtin x argument shape x subject kind ----

func genC11(e *emitter, tier string, seed int64) {
	rng := rand.New(rand.NewSource(seed))
	// subjects: variable, field, tag, absent; of every value type
	type subj struct {
		name string
		pre  string // script prelude establishing a variable
		pt   func(*pointSpec)
	}
	fieldOf := func(t, v string) func(*pointSpec) {
		return func(p *pointSpec) { p.Fields = append(p.Fields, fieldSpec{"k", t, v}) }
	}
	subjects := []subj{
		{"absent", "", func(p *pointSpec) {}},
		{"var-int", "k = 42\n", func(p *pointSpec) {}},
		{"var-str", "k = \" Hello%20World a+b \"\n", func(p *pointSpec) {}},
		{"var-float", "k = 2.5\n", func(p *pointSpec) {}},
		{"var-bool", "k = true\n", func(p *pointSpec) {}},
		{"var-nil", "k = nil\n", func(p *pointSpec) {}},
		{"var-list", "k = [1, \"a\", [2.5]]\n", func(p *pointSpec) {}},
		{"var-map", "k = {\"a\": 1, \"b\": {\"c\": \"x\"}}\n", func(p *pointSpec) {}},
		{"field-int", "", fieldOf("int", "9007199254740993")},
		{"field-max", "", fieldOf("int", "9223372036854775807")},
		{"field-str", "", fieldOf("str", "  abc%2Fdef xyz  ")},
		{"field-numstr", "", fieldOf("str", "12.75")},
		{"field-zeropad", "", fieldOf("str", "010")},
		{"field-hexstr", "", fieldOf("str", "0x1f")},
		{"field-octal755", "", fieldOf("str", "0755")},
		{"var-underscore-num", "k = \"1_000\"\n", func(p *pointSpec) {}},
		{"tag-zeropad", "", func(p *pointSpec) { p.Tags = append(p.Tags, [2]string{"k", "0100"}) }},
		{"field-json", "", fieldOf("str", `{"a": [1, 2.5, "x", null, true], "b": {"c": 1}}`)},
		{"field-badjson", "", fieldOf("str", `{"a": `)},
		{"field-badurl", "", fieldOf("str", "%zz")},
		{"field-float", "", fieldOf("float", "4612811918334230528")},
		{"var-bigfloat", "k = 1234567.5\n", func(p *pointSpec) {}},
		{"var-smallfloat", "k = 0.00001\n", func(p *pointSpec) {}},
		{"field-bigfloat", "", fieldOf("float", "4720637518976909312")},
		{"field-tinyfloat", "", fieldOf("float", "13731694030708141453")},
		{"field-hugefloat", "", fieldOf("float", "9097811302482466869")},
		{"field-bool", "", fieldOf("bool", "false")},
		{"field-go-bytes", "", fieldOf("bytes", " raw%20Bytes ")},
		{"field-go-int32", "", fieldOf("go-int32", "-2147483648")},
		{"field-go-int", "", fieldOf("go-int", "9007199254740993")},
		{"field-go-uint8", "", fieldOf("go-uint8", "255")},
		{"field-go-uint64", "", fieldOf("go-uint64", "18446744073709551615")},
		{"field-go-float32", "", fieldOf("go-float32", "0.1")},
		{"field-nil", "", fieldOf("nil", "")},
		{"tag", "", func(p *pointSpec) { p.Tags = append(p.Tags, [2]string{"k", " Tag%20Val "}) }},
		{"var-over-field", "k = \"from-var\"\n", fieldOf("str", "from-field")},
	}
	calls := []string{
		"add_key(k)", "add_key(k, 1)", `add_key(k, "v")`, "add_key(k, other)", "add_key(k, [1, {\"a\": 2.5}])", "add_key(k, len(k))", `add_key("k", k)`, "add_key(a.b, 1)", "add_key(k, 1/zero)",
		"p(get_key(k))", `p(get_key("k"))`, "p(get_key(a.b))",
		"set_tag(k)", `set_tag(k, "tv")`, "set_tag(k, other)", "set_tag(k, a.b)", `set_tag("k")`,
		"drop_key(k)", `drop_key("k")`, "drop_key(nosuch)",
		"rename(newk, k)", `rename("newk", k)`, "rename(other, k)", "rename(k, k)", "rename(k, nosuch)",
		`cast(k, "int")`, `cast(k, "float")`, `cast(k, "bool")`, `cast(k, "str")`, `cast(k, "string")`, `cast("k", "int")`,
		"set_measurement(k)", "set_measurement(k, true)", "set_measurement(k, false)", `set_measurement("lit")`, `set_measurement("lit", true)`, `set_measurement("other", true)`, `set_measurement("ot", true)`, `set_measurement("k", true)`, `set_measurement("other", false)`, "set_measurement(nosuch)", "set_measurement(1/zero)",
		"p(len(k))", `p(len("héllo"))`, "p(len([1,2]))", "p(len(nosuch))",
		"p(load_json(k))", `p(load_json("[1, 2.5, {\"a\": null}]"))`, `p(load_json("{\"user\": \"bob\"} -- tail"))`, `p(load_json("{\"seq\": 1}{\"seq\": 2}"))`, `p(load_json("404 not found"))`, `p(load_json("true}"))`, `p(load_json("[1, 2]]"))`, `p(load_json(" [1] "))`, "x = load_json(k)\np(x[\"a\"][1])", `p(load_json("{bad"))`, "p(load_json(5))",
		`strfmt(out, "%v-%s-%d", k, "x", 3)`, `strfmt(k, "%v", k)`, `strfmt(out, "%v %v", 1.5, [1, "a"])`, `strfmt(out, "%d", "notint")`, `strfmt(out, "%v", 1/zero)`, `strfmt(out, "nofmt")`, `strfmt(out, "100%%")`, `strfmt(out, "%%d of %%")`, `strfmt(out, "50%")`, `strfmt(out, "")`, `strfmt(out, "%%", k)`,
		`printf("%v|%s|%d\n", k, "x", 3)`, `printf("plain\n")`, "printf(k)", `printf("%v", 1/zero)`, "printf(5, 1)", `printf("")`,
		"trim(k)", `trim(k, " a")`, `trim(k, "")`, `trim("k")`,
		"uppercase(k)", `uppercase("k")`,
		`replace(k, "[a-c]+", "X")`, `replace(k, "(", "X")`, `replace(k, "l+", "$0$0")`, `replace(k, "ell", "[$0]")`, `replace(k, "a", "$$")`, `replace(k, "abc", "$1x")`, `replace(k, "0", "${0}0")`, `replace(k, "", "-")`,
		"url_decode(k)", `url_decode("k")`,
		// a value reached twice is not a value that contains itself; one that does is an error of strfmt/printf
		"sh = [k, k]\nstrfmt(out, \"%v\", sh)", "sh = {\"a\": [k], \"b\": [k]}\nprintf(\"%v\\n\", sh)", "sh = [[1], 2]\nsh2 = [sh, sh, sh[0]]\nstrfmt(out, \"%v|%v\", sh2, sh2)",
		"cy = [k]\ncy[0] = cy\nstrfmt(out, \"%v\", cy)", "cy = {\"k\": k}\ncy[\"k\"] = cy\nprintf(\"%v\", cy)",
		// the subject is looked up through every enclosing scope, also from inside blocks
		"if true {\n  trim(k)\n}", "for i = 0; i < 1; i = i + 1 {\n  uppercase(k)\n}", "if true {\n  if true {\n    replace(k, \"[a-c]+\", \"X\")\n  }\n}", "for x in [1] {\n  url_decode(k)\n  set_tag(k)\n}",
		"if true {\n  add_key(k)\n  cast(k, \"str\")\n}", "if true {\n  k = \" inner%20 \"\n  trim(k)\n  url_decode(k)\n}",
		// `_` stands for message
		"add_key(_, 1)", "p(get_key(_))", "drop_key(_)", "rename(newk, _)", "rename(message, _)", "rename(_, message)", `rename("message", _)`, "rename(_, _)", "rename(_, k)", "rename(k, _)", "uppercase(_)", "trim(_)", "set_tag(_)", `cast(_, "int")`, "add_key(nk, _)",
	}
	_ = rng
	for _, s := range subjects {
		for _, c := range calls {
			pt := pointSpec{Meas: "m", Time: 1600000000000000000,
				Fields: []fieldSpec{{"other", "str", "ov"}, {"message", "str", " msg%20Text "}}, Tags: [][2]string{{"ot", "otv"}}}
			s.pt(&pt)
			src := "zero = 0\n" + s.pre + c + "\np(get_key(k), get_key(newk), get_key(other), get_key(out), get_key(message), k)\n"
			out := runV1(runCase{Scripts: []scriptSrc{{"main.p", src}}, Entry: "main.p", Point: pt})
			out["gen"] = "matrix"
			out["key"] = s.name + " :: " + c
			out["strict"] = true
			out["c10"] = true
			if obs, ok := out["obs"].(map[string]any); ok {
				e.stat("matrix:" + fmt.Sprint(obs["outcome"]))
			}
			e.emit(out)
		}
	}
}
