package main

import (
	"fmt"
	"math/rand"
	"strings"
)

// Grammar-directed random program generator (mostly valid programs; break/continue only in loops).

type pg struct {
	rng     *rand.Rand
	vars    []string // variable names in play
	keys    []string // point keys in play
	probeID int
	// weights / switches
	illTyped    int // 1-in-n chance (0 = never) of choosing an operand regardless of type
	allowExit   bool
	allowUse    []string // callee script names usable here
	allowBuilt  bool
	maxDepth    int
	loopBound   int
	v2          bool     // v2 language: every name must be defined, no point keys
	noNestedUse bool     // use() only as a statement of its own (never inside a larger expression)
	iterM       int      // > 0 while generating the body of `for _ in m` (Go leaves insertion during map iteration unspecified)
	loopNest    int      // current loop nesting (at most 2: keeps value growth bounded)
	noS         bool     // while generating the value assigned to s inside a loop
	counters    []string // counters of the enclosing three-clause loops: not reused by a nested loop and not
	// assigned in a body, so every generated loop ends (an endless loop that doubles a string each round
	// exhausts memory long before the signal stops it; endless loops have their own generators)
	locals []string // names never initialised by the prelude: created (block-locally) by assignment, read before/after (v1 only)
}

func (g *pg) pick(xs []string) string { return xs[g.rng.Intn(len(xs))] }

var condPool = []string{"true", "false", "0", "1", "-1", "0.0", "0.5", `""`, `"a"`, "nil", "[]", "[0]", "{}", `{"a": 1}`}

// variables are typed by convention and initialised by prelude(): n,i,j int; s str; l list; m map; b bool; x any
var varsOf = map[string][]string{"int": {"n", "i", "j"}, "str": {"s"}, "list": {"l"}, "map": {"m"}, "bool": {"b"}, "float": {"f"}}
var allTypes = []string{"int", "int", "int", "str", "list", "map", "bool", "float", "any"}

func (g *pg) prelude() string {
	return "n = 2\ni = 0\nj = 0\ns = \"ab\"\nl = [1, \"u\", [3]]\nm = {\"a\": 1, \"b\": [2]}\nb = true\nf = 1.5\nx = nil\n"
}

func (g *pg) atom() string { return g.atomT("any") }

func (g *pg) atomT(t string) string {
	if g.illTyped > 0 && g.rng.Intn(g.illTyped) == 0 {
		t = g.pick(allTypes)
	}
	switch t {
	case "int":
		switch g.rng.Intn(5) {
		case 0, 1:
			return g.pick(varsOf["int"])
		case 2:
			if g.v2 {
				return g.pick([]string{"len(l)", "len(s)", "n"})
			}
			return g.pick([]string{"f1", "len(l)", "len(s)"})
		default:
			return g.pick([]string{"0", "1", "2", "3", "-1", "7", "9007199254740993", "9223372036854775807", "-2"})
		}
	case "str":
		sv := "s"
		if g.noS {
			sv = `"cd"` // (a string assigned to s inside a loop is not built from s: no doubling per pass)
		}
		if g.v2 {
			return g.pick([]string{sv, `"a"`, `""`, `"héllo"`, `"ab"`})
		}
		return g.pick([]string{sv, `"a"`, `""`, `"héllo"`, `"ab"`, "message", "t1"})
	case "bool":
		return g.pick([]string{"b", "true", "false"})
	case "float":
		return g.pick([]string{"f", "1.5", "0.0", "-0.5", "1e308"})
	case "list":
		return g.pick([]string{"l", "[1, 2, 3]", "[]", `["x", "y"]`, "[[1], [2]]"})
	case "map":
		return g.pick([]string{"m", `{"a": 1, "b": [2]}`, "{}"})
	}
	if len(g.locals) > 0 && g.rng.Intn(6) == 0 {
		return g.pick(g.locals) // possibly unset, block-local, or vanished with its block
	}
	switch g.rng.Intn(8) {
	case 0:
		return "x"
	case 1:
		if g.v2 && g.rng.Intn(6) != 0 {
			return "x"
		}
		return "zz" // undefined name -> nil (v1) / error (v2)
	case 2:
		return g.pick(g.keys)
	case 3:
		return "nil"
	default:
		return g.atomT(g.pick(allTypes[:8]))
	}
}

func (g *pg) expr(d int) string { return g.exprT(g.pick(allTypes), d) }

func (g *pg) exprT(t string, d int) string {
	if g.illTyped > 0 && g.rng.Intn(g.illTyped) == 0 {
		t = g.pick(allTypes)
	}
	if d <= 0 || g.rng.Intn(3) == 0 {
		return g.atomT(t)
	}
	switch t {
	case "int":
		switch g.rng.Intn(6) {
		case 0, 1, 2:
			return fmt.Sprintf("(%s %s %s)", g.exprT("int", d-1), g.pick([]string{"+", "-", "*", "/", "%"}), g.exprT("int", d-1))
		case 3:
			return fmt.Sprintf("(-%s)", g.exprT("int", d-1))
		case 4:
			return fmt.Sprintf("len(%s)", g.exprT(g.pick([]string{"list", "str", "map"}), d-1))
		default:
			return fmt.Sprintf("l[%s]", g.pick([]string{"0", "-3", "i", "(-9223372036854775807 - 1)", "9223372036854775807"}))
		}
	case "float":
		return fmt.Sprintf("(%s %s %s)", g.exprT("float", d-1), g.pick([]string{"+", "-", "*", "/"}), g.exprT(g.pick([]string{"int", "float"}), d-1))
	case "bool":
		switch g.rng.Intn(6) {
		case 0, 1:
			return fmt.Sprintf("(%s %s %s)", g.exprT("int", d-1), g.pick([]string{"==", "!=", "<", "<=", ">", ">="}), g.exprT(g.pick([]string{"int", "float"}), d-1))
		case 2:
			return fmt.Sprintf("(%s %s %s)", g.exprT("bool", d-1), g.pick([]string{"&&", "||"}), g.exprT("bool", d-1))
		case 3:
			return fmt.Sprintf("(%s in %s)", g.exprT("str", d-1), g.exprT(g.pick([]string{"str", "map", "list"}), d-1))
		case 4:
			return fmt.Sprintf("(!%s)", g.exprT("any", d-1))
		default:
			return fmt.Sprintf("(%s %s %s)", g.exprT("any", d-1), g.pick([]string{"==", "!="}), g.exprT("any", d-1))
		}
	case "str":
		switch g.rng.Intn(4) {
		case 0:
			return fmt.Sprintf("(%s + %s)", g.atomT("str"), g.atomT("str"))
		case 1:
			if g.rng.Intn(3) == 0 {
				return fmt.Sprintf("s[%s:%s:%s]", g.pick([]string{"", "0", "1", "-1", "2"}), g.pick([]string{"", "1", "5", "-1"}), g.pick([]string{"1", "-1", "9223372036854775807", "9223372036854775806", "(-9223372036854775807 - 1)"}))
			}
			return fmt.Sprintf("s[%s:%s]", g.pick([]string{"", "0", "1", "-1"}), g.pick([]string{"", "1", "5", "-1"}))
		case 2:
			return `m["zz"]`
		default:
			return g.atomT("str")
		}
	case "list":
		switch g.rng.Intn(4) {
		case 0:
			return fmt.Sprintf("[%s, %s]", g.expr(d-1), g.expr(d-1))
		case 1:
			b := func() string {
				return g.pick([]string{"", "", "0", "1", "-1", "2", "-3", "5", "9223372036854775807", "i", "n"})
			}
			if g.rng.Intn(2) == 0 {
				return fmt.Sprintf("%s[%s:%s]", g.atomT("list"), b(), b())
			}
			return fmt.Sprintf("%s[%s:%s:%s]", g.atomT("list"), b(), b(), g.pick([]string{"", "1", "-1", "2", "n", "9223372036854775807", "9223372036854775806", "(-9223372036854775807 - 1)", "-9223372036854775807"}))
		case 2:
			return `m["b"]`
		default:
			return fmt.Sprintf("pr(%s)", g.atomT("list"))
		}
	case "map":
		return fmt.Sprintf(`{"k": %s, "j": %s}`, g.expr(d-1), g.expr(d-1))
	}
	if g.allowBuilt && g.rng.Intn(4) == 0 {
		return fmt.Sprintf("get_key(%s)", g.pick(g.keys))
	}
	return g.exprT(g.pick(allTypes[:8]), d)
}

func (g *pg) probe() string {
	g.probeID++
	return fmt.Sprintf("p(%d, %s)", g.probeID, g.expr(1))
}

// the variables of a type a statement may assign: not the counter of an enclosing loop
func (g *pg) assignable(t string) []string {
	if t != "int" || len(g.counters) == 0 {
		return varsOf[t]
	}
	r := []string{}
	for _, v := range varsOf[t] {
		used := false
		for _, c := range g.counters {
			used = used || c == v
		}
		if !used {
			r = append(r, v)
		}
	}
	return r
}

func (g *pg) simple() string {
	if len(g.locals) > 0 && g.rng.Intn(5) == 0 {
		switch g.rng.Intn(4) {
		case 0, 1: // creates a variable local to the current block, or updates the one that exists
			return fmt.Sprintf("%s = %s", g.pick(g.locals), g.expr(1))
		case 2: // compound assignment to a name that may have no variable (point key or nothing)
			return fmt.Sprintf("%s %s %s", g.pick(append(append([]string{}, g.locals...), g.keys...)), g.pick([]string{"+=", "-=", "*=", "/=", "%="}), g.exprT("int", 1))
		default:
			g.probeID++
			return fmt.Sprintf("p(%d, %s, %s)", g.probeID, g.pick(g.locals), g.pick(g.keys))
		}
	}
	switch g.rng.Intn(12) {
	case 0, 1, 2:
		return g.probe()
	case 3, 4:
		t := g.pick(allTypes[:8])
		g.noS = t == "str" && g.loopNest > 0
		rhs := g.exprT(t, 2)
		g.noS = false
		return fmt.Sprintf("%s = %s", g.pick(g.assignable(t)), rhs)
	case 5:
		return fmt.Sprintf("%s %s %s", g.pick(g.assignable("int")), g.pick([]string{"+=", "-=", "*=", "/=", "%="}), g.exprT("int", 1))
	case 6:
		if g.iterM > 0 || g.rng.Intn(2) == 0 {
			return fmt.Sprintf("l[%s] = %s", g.pick([]string{"0", "1", "-1", "i", "(-9223372036854775807 - 1)"}), g.expr(1))
		}
		return fmt.Sprintf("m[%s] = %s", g.exprT("str", 1), g.expr(1))
	case 7:
		if g.allowBuilt {
			k := g.pick(g.keys)
			switch g.rng.Intn(6) {
			case 0:
				return fmt.Sprintf("add_key(%s, %s)", k, g.expr(1))
			case 1:
				return fmt.Sprintf("set_tag(%s, %s)", k, g.pick([]string{`"tv"`, "s", "n", "x"}))
			case 2:
				return fmt.Sprintf("drop_key(%s)", k)
			case 3:
				return fmt.Sprintf("rename(%s, %s)", g.pick(g.keys), k)
			case 4:
				return fmt.Sprintf("add_key(%s)", g.pick(g.vars))
			default:
				if g.rng.Intn(2) == 0 {
					return fmt.Sprintf("set_measurement(%s)", g.pick([]string{`"mm"`, k, "s", "n"}))
				}
				// the other builtins, with argument shapes their checkers accept
				return g.pick([]string{
					fmt.Sprintf("default_time(%s, %s)", g.pick([]string{"ts", k, "message"}), g.pick([]string{`"Asia/Shanghai"`, `"+8"`, `"Mars/Olympus_Mons"`, `"CST"`, `"-3:30"`, `""`})),
					fmt.Sprintf("default_time(%s)", g.pick([]string{"ts", k})),
					fmt.Sprintf("datetime(%s, %s, %s)", g.pick([]string{"n", k, "ts"}), g.pick([]string{`"s"`, `"ms"`, `"us"`}), g.pick([]string{`"RFC3339"`, `"ANSIC"`, `"nosuch"`})),
					fmt.Sprintf("cast(%s, %s)", k, g.pick([]string{`"int"`, `"float"`, `"bool"`, `"str"`, `"string"`})),
					fmt.Sprintf("url_decode(%s)", k), fmt.Sprintf("uppercase(%s)", k), fmt.Sprintf("trim(%s, %s)", k, g.pick([]string{`" "`, `""`, `"a"`})),
					fmt.Sprintf("replace(%s, %s, \"X\")", k, g.pick([]string{`"[a-c]+"`, `"("`, `"l+"`})),
					fmt.Sprintf("strfmt(out, \"%%v-%%d\", %s, %s)", g.expr(1), g.expr(1)),
					fmt.Sprintf("x = load_json(%s)", g.pick([]string{"message", k, "s"})),
					fmt.Sprintf("sql_cover(%s)", g.pick([]string{"message", k})),
					fmt.Sprintf("xml(%s, \"/a/b\", out)", g.pick([]string{"message", k})),
					fmt.Sprintf("grok(%s, \"%%{WORD:w} %%{NUMBER:gn:int}\")", g.pick([]string{"_", k, "message"})),
				})
			}
		}
		return g.probe()
	case 8:
		if g.allowExit && g.rng.Intn(3) == 0 {
			return "exit()"
		}
		return g.probe()
	case 9:
		if len(g.allowUse) > 0 {
			return fmt.Sprintf("use(%q)", g.pick(g.allowUse))
		}
		return g.probe()
	default:
		return g.expr(2)
	}
}

func (g *pg) cond() string {
	switch g.rng.Intn(3) {
	case 0:
		return g.pick(condPool)
	case 1:
		return g.exprT("bool", 2)
	}
	return g.expr(1)
}

func (g *pg) block(depth int, inLoop bool, ind string) string {
	if g.rng.Intn(9) == 0 {
		// an empty block (a taken empty branch still ends the if statement)
		return g.pick([]string{"{\n" + ind + "}", "{\n" + ind + "  # nothing\n" + ind + "}"})
	}
	n := g.rng.Intn(3)
	if depth <= 0 {
		n = g.rng.Intn(2)
	}
	var sb strings.Builder
	sb.WriteString("{\n")
	for i := 0; i <= n; i++ {
		sb.WriteString(g.stmt(depth, inLoop, ind+"  "))
	}
	sb.WriteString(ind + "}")
	return sb.String()
}

func (g *pg) stmt(depth int, inLoop bool, ind string) string {
	if depth <= 0 {
		if inLoop && g.rng.Intn(6) == 0 {
			return ind + g.pick([]string{"break", "continue"}) + "\n"
		}
		return ind + g.simple() + "\n"
	}
	r := g.rng.Intn(12)
	if g.loopNest >= 2 && r >= 2 && r <= 5 {
		r = 0
	}
	switch r {
	case 0, 1:
		s := ind + "if " + g.cond() + " " + g.block(depth-1, inLoop, ind)
		for g.rng.Intn(3) == 0 {
			s += " elif " + g.cond() + " " + g.block(depth-1, inLoop, ind)
		}
		if g.rng.Intn(2) == 0 {
			s += " else " + g.block(depth-1, inLoop, ind)
		}
		return s + "\n"
	case 2, 3:
		// bounded three-clause loop; each clause optional
		free := []string{}
		for _, c := range []string{"i", "j"} {
			if len(g.counters) == 0 || g.counters[len(g.counters)-1] != c && (len(g.counters) < 2 || g.counters[0] != c) {
				free = append(free, c)
			}
		}
		if len(free) == 0 {
			return ind + g.simple() + "\n"
		}
		v := g.pick(free)
		init, cond, loop := fmt.Sprintf("%s = 0", v), fmt.Sprintf("%s < %d", v, 1+g.rng.Intn(g.loopBound)), fmt.Sprintf("%s = %s + 1", v, v)
		pre, inBody := "", ""
		if g.rng.Intn(4) == 0 {
			pre, init = ind+init+"\n", ""
		}
		if g.rng.Intn(4) == 0 {
			inBody, loop = loop, ""
		}
		if g.rng.Intn(8) == 0 {
			cond = ""
			inBody += fmt.Sprintf("\n%s  if %s >= %d { break }", ind, v, 1+g.rng.Intn(g.loopBound))
		}
		g.loopNest++
		g.counters = append(g.counters, v)
		body := g.block(depth-1, true, ind)
		g.counters = g.counters[:len(g.counters)-1]
		g.loopNest--
		if len(g.locals) > 0 && g.rng.Intn(3) == 0 {
			// the clauses read or create a name the body creates or reads (scope of clause vs body)
			lv := g.pick(g.locals)
			switch g.rng.Intn(4) {
			case 0:
				if cond != "" {
					cond = cond + " && " + lv + " == nil"
				}
				body = "{\n" + ind + "  " + lv + " = true\n" + strings.TrimPrefix(body, "{\n")
			case 1:
				if loop != "" && inBody == "" {
					loop = lv + " = " + v
					inBody = fmt.Sprintf("%s = %s + 1", v, v)
				}
			case 2:
				body = "{\n" + ind + "  " + lv + " = 2\n" + strings.TrimPrefix(body, "{\n")
				if loop != "" && inBody == "" {
					loop = fmt.Sprintf("%s = %s + 1", v, v) // unchanged; the probe after the loop reads lv
				}
			default:
				if init != "" {
					init = init + ", " + lv + " = 0, 7"
					init = fmt.Sprintf("%s, %s = 0, 7", v, lv)
				}
			}
		}
		if inBody != "" {
			// the increment goes first so that `continue` cannot make the loop endless
			body = "{\n" + ind + "  " + inBody + "\n" + strings.TrimPrefix(body, "{\n")
		}
		return pre + ind + "for " + init + "; " + cond + "; " + loop + " " + body + "\n"
	case 4, 5:
		// (strings cut inside a character, and point values that are not valid UTF-8, among the iterables)
		its := []string{"[1, 2, 3]", `"aé"`, `{"a": 1}`, "[]", `""`, "l", "s", g.pick(g.keys), `[[1], "s", nil]`, `"aé"[0:2]`, `"日志"[0:4]`, `"日志"[1:]`, "message", "t1"}
		if !g.noNestedUse && g.rng.Intn(4) == 0 {
			// maps with several keys: Go's iteration order is unspecified, so the body only has
			// order-insensitive effects (commutative updates, per-key writes) and a fresh loop variable
			mp := g.pick([]string{"m", `{"a": 1, "b": 2}`, `{"a": 1, "b": 2, "c": 3}`})
			body := g.pick([]string{
				"  n = n + 1\n", "  n = n + len(kk)\n  j = j + 1\n", "  if kk == \"a\" {\n    n = n + 5\n  }\n  j = j + 1\n",
				"  acc[kk] = len(kk)\n", "  if kk in m {\n    i = i + 1\n  } else {\n    j = j + 1\n  }\n", "",
			})
			return ind + "acc = {}\n" + ind + "for kk in " + mp + " {\n" + body + "}\n" + ind + "p(\"mapiter\", n, i, j, acc)\n"
		}
		it := g.pick(its)
		g.loopNest++
		if it == "m" {
			g.iterM++
		}
		fb := g.block(depth-1, true, ind)
		if it == "m" {
			g.iterM--
		}
		g.loopNest--
		return ind + "for " + g.pick([]string{"x", "y", "x", "s"}) + " in " + it + " " + fb + "\n"
	case 6:
		if inLoop {
			return ind + g.pick([]string{"break", "continue"}) + "\n"
		}
		return ind + g.simple() + "\n"
	default:
		return ind + g.simple() + "\n"
	}
}

func (g *pg) program(n int) string {
	var sb strings.Builder
	sb.WriteString(g.prelude())
	for i := 0; i < n; i++ {
		sb.WriteString(g.stmt(g.maxDepth, false, ""))
	}
	// final observation of all variables
	sb.WriteString("p(" + strings.Join(append(append([]string{}, g.vars...), g.locals...), ", ") + ")\n")
	return sb.String()
}

func newPG(rng *rand.Rand) *pg {
	return &pg{rng: rng, vars: []string{"n", "i", "j", "s", "l", "m", "b", "f", "x"}, keys: []string{"f1", "t1", "message", "k1"},
		maxDepth: 2, loopBound: 3, allowBuilt: true}
}

func stdPoint(rng *rand.Rand) pointSpec {
	pt := pointSpec{Meas: "m", Time: 1600000000000000000}
	fvals := []fieldSpec{{"f1", "int", "5"}, {"f1", "float", "4609434218613702656"}, {"f1", "str", "fv"}, {"f1", "bool", "true"}, {"f1", "nil", ""},
		{"f1", "int", "9223372036854775807"}, {"f1", "str", ""}}
	if rng.Intn(5) != 0 {
		pt.Fields = append(pt.Fields, fvals[rng.Intn(len(fvals))])
	}
	if rng.Intn(3) != 0 {
		pt.Fields = append(pt.Fields, fieldSpec{"message", "str", []string{"hello world", "", "héllo", `{"a": 1}`, "caf\xc3", "web-\xff1", "\xe6\x97"}[rng.Intn(7)]})
	}
	if rng.Intn(3) != 0 {
		pt.Tags = append(pt.Tags, [2]string{"t1", []string{"tv", "", "7", "t\xc3"}[rng.Intn(4)]})
	}
	if rng.Intn(4) == 0 {
		pt.Fields = append(pt.Fields, fieldSpec{"ts", "str", []string{"171113 14:14:20", "2021/02/27 - 14:14:20", "2021-03-15T00:08:10Z", "junk", "1610358231887"}[rng.Intn(5)]})
	}
	return pt
}
